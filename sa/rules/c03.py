"""C03 - settled recipients are never attempted again; one attempt in flight.

R3.1 double-dispatch guard: an attempt is started only under
     `id not in active_ids`, the id is marked active before the spawn, and no
     yield point separates the test from the mark
R3.2 timetable de-duplication: self.queued has an enumerated set of writers;
     insertion is guarded against both queued_ids and active_ids
R3.3 settled marks are persisted before the message becomes dispatchable
     again (before active_ids.discard / _add_queued)
R3.4 index-space consistency between what the queue computes and how
     accumulate-and-filter backends store and apply delivered marks
R3.5 every fetch of an accumulate-and-filter backend drops the settled
     recipients; deletion happens in descending index order
R3.6 the positions recorded as settled are positions in envelope.recipients
     (looked up there, not taken from the iteration order of the results)
R3.7 the in-flight mark of an id is released only after its removal from
     storage was carried out (or failed) or its next due time was persisted,
     by the same greenlet
"""
from __future__ import annotations

import ast
from typing import List, Optional

from ..engine import Engine
from ..report import Report
from ..cfg import Node
from ..facts import path_of, canon, holds, parse_atom
from ..model import walk_own
from ..resolve import Ctx
from .. import dataflow
from . import common, c07

QUEUE = 'slimta.queue.Queue'
STORAGE = 'slimta.queue.QueueStorage'

QUEUED_WRITERS = {'__init__', '_add_queued', '_check_ready', 'flush'}
# calls that cannot switch greenlets (pure bookkeeping on in-memory sets)
NON_YIELDING = {'add', 'discard', 'isinstance', 'len', 'set', 'insort',
                'append'}


def run(e: Engine, rep: Report):
    rep.rule('R3.1', 'every spawn of Queue._attempt is dominated by `id not '
             'in self.active_ids` and by active_ids.add(id), with no '
             'yielding call between the test and the add')
    rep.rule('R3.2', 'self.queued is written only by the enumerated '
             'writers; _add_queued inserts only ids that are neither queued '
             'nor active')
    rep.rule('R3.3', 'store.set_recipients_delivered precedes '
             'active_ids.discard(id) / _add_queued on every path that '
             're-queues a partially delivered message')
    rep.rule('R3.4', 'accumulate-and-filter backends must translate the '
             'indexes they are given (positions in the reduced list get() '
             'returned) before merging them with stored marks (positions in '
             'the original list)')
    rep.rule('R3.5', 'get() of every accumulate-and-filter backend applies '
             '_remove_delivered_rcpts with the stored marks on every path; '
             'deletion is in descending order')
    rep.rule('R3.6', 'every value added to the settled-position set in '
             '_handle_partial_relay is derived from envelope.recipients '
             '(recipients.index(rcpt) or an enumeration of that list)')
    rep.rule('R3.7', 'every active_ids.discard(id) is preceded on every path '
             'of its function by a direct call store.remove(id) or '
             'store.set_timestamp(id, ...) for that id (attempted, possibly '
             'failed - never merely spawned)')
    rep.tables.add('c03.QUEUED_WRITERS')
    rep.not_decided += ['multi-round outcome histories as executions (R3.4 '
                        'is the structural reason they go wrong)',
                        'real interleavings']
    r31(e, rep)
    r32(e, rep)
    r33(e, rep)
    r34(e, rep, 'R3.4')
    r35(e, rep)
    r36(e, rep, 'R3.6')
    r37(e, rep)
    from . import storeback
    storeback.run(e, rep, 'R3.8')
    r39(e, rep, 'R3.9')
    from . import c15 as _c15
    _c15.i16(e, rep, 'R3.10')
    rep.rule('R3.11', '= C01-R1.7: a recipient is filed for another attempt '
             'only if its result is a TransientRelayError (by class, not by '
             'what its reply says): one the relay reported as permanently '
             'failed is settled')
    from . import c01 as _c01
    sub = Report(rep.prop, rep.tier, rep.repo)
    _c01.r17(e, sub)
    for o in sub.obls:
        rep.add('R3.11', o.where, o.text, o.status, o.what, o.loc, o.witness,
                o.nontrivial, o.reason)
    rep.errors += sub.errors
    rep.evaluations += sub.evaluations
    rep.functions |= sub.functions
    rep.rule('R3.12', '= C15-I17: storage objects do not share state: no '
             'class-level mutable of a storage class is changed in place '
             'without __init__ giving every instance its own on every path '
             '(two queues over "their own" default store would each attempt '
             'the other\'s messages)')
    common.shared_state_rule(
        e, rep, 'R3.12', ['slimta.queue.dict', 'slimta.diskstorage',
                          'slimta.redisstorage', 'slimta.cloudstorage'],
        'a second queue loads and attempts the messages of the first: the '
        'same recipients are attempted by both at the same time')
    rep.rule('R3.13', 'set_recipients_delivered records the marks on every '
             'path: in each backend every normal return lies behind a write '
             'to the substrate (table MARK_WRITERS) - a call that "has '
             'nothing new to do" by some test of the stored state returns '
             'with settled recipients still on record as outstanding')
    rep.tables.add('c03.MARK_WRITERS')
    r313(e, rep)
    rep.rule('R3.14', '= C01-R1.5: the kind the queue passes to '
             'set_recipients_delivered (a set) supports every operation the '
             'backends apply to the index argument - an operation that '
             'raises for a set (list + set) leaves the call before the marks '
             'are written: the settled recipients stay on record as '
             'outstanding and are delivered again after a restart')
    from ..kinds import Kinds as _Kinds
    _c01.r15(e, rep, _Kinds(e), 'R3.14')
    rep.rule('R3.15', '= C13-B18: the catch-all arm of Queue._attempt files '
             'the whole envelope for a retry and therefore belongs to a try '
             'that covers the relay call only; recording the outcome inside '
             'it turns any failure of that recording (a store that raises '
             'before the marks are written) into a fresh attempt on '
             'recipients the relay already reported as settled')
    common.attempt_try_scope(
        e, rep, 'R3.15', 'recipients the relay reported as delivered or '
        'permanently failed are attempted again')
    rep.floor('R3.1', 2, 'attempt spawn sites')
    rep.floor('R3.7', 2, 'release sites of the in-flight mark')


# the disposition / dispatch primitives of the queue: events of the rules
# below, never inlined into the function that calls them
DISPOSERS = common.QUEUE_PRIMITIVES


def attempt_spawns(e: Engine, g) -> List[Node]:
    out = []
    for n in g.nodes:
        if n.kind != 'call':
            continue
        if e.call_name(n) in ('_pool_spawn', 'spawn', '_pool_run') and any(
                ast.unparse(a).endswith('._attempt') for a in n.ast.args):
            out.append(n)
        elif e.call_name(n) == '_attempt' and \
                ast.unparse(n.ast.func) == 'self._attempt':
            out.append(n)
    return out


def r31(e: Engine, rep: Report):
    c = common.merged_class(e, QUEUE)
    total = 0
    helpers = common.private_helpers(e, QUEUE, DISPOSERS)
    for mname, m in sorted(c.methods.items()):
        ctx = Ctx(m, QUEUE)
        if mname in helpers:
            continue        # seen in the context of each of its callers
        g = e.build(ctx, inline=e.inline_same_self(deny=DISPOSERS),
                    max_depth=3)
        spawns = attempt_spawns(e, g)
        if not spawns:
            continue
        fx = e.facts(g)
        where = m.qname
        rep.functions.add(where)
        adds = [n for n in g.nodes if n.kind == 'call' and
                e.call_name(n) == 'add' and
                canon(n.ast.func.value, n.frame) == 'self.active_ids']
        before = dataflow.must_events_before(
            g, lambda n: ['add:' + canon(n.ast.args[0], n.frame)]
            if n in adds and n.ast.args else [])
        for s in spawns:
            total += 1
            rep.evaluations += 1
            # the id handed to _attempt
            idx = 2 if e.call_name(s) != '_attempt' else 0
            if len(s.ast.args) <= idx:
                rep.unknown('R3.1', where, 'attempt spawn', 'cannot find '
                            'the id argument', loc=s.loc())
                continue
            idp = canon(s.ast.args[idx], s.frame)
            marked = ('add:' + idp) in (before.get(s.id) or ())
            rep.check(marked, 'R3.1', where,
                      'attempt spawn preceded by active_ids.add(id)',
                      'an attempt is started without marking the id active '
                      'first: a second dispatch of the same id is not '
                      'refused', loc=s.loc(),
                      reason='active_ids.add(id) on every path')
            for a in adds:
                if not a.ast.args or canon(a.ast.args[0], a.frame) != idp:
                    continue
                st = fx.at(a)
                guard = (False, '%s in self.active_ids' % idp)
                ok = holds(st, guard)
                rep.check(ok, 'R3.1', where,
                          'active_ids.add(id) only under `id not in '
                          'active_ids`',
                          'the id is marked active and an attempt started '
                          'although an attempt for it may already be in '
                          'flight (two attempts at once)', loc=a.loc(),
                          reason='dominated by id not in self.active_ids')
                # atomic test-and-set: no yielding call between the test
                # and the add
                from ..facts import atoms_of_test
                tests = [t for t in g.of_kind('test')
                         if any(k == '%s in self.active_ids' % idp
                                for _, k in atoms_of_test(t.ast, True,
                                                          t.frame))]
                if not tests:
                    rep.bad('R3.1', where, 'in-flight test exists',
                            'no `id in self.active_ids` test precedes the '
                            'mark', loc=a.loc())
                for t in tests:
                    between = _calls_between(g, t, a)
                    y = [c for c in between
                         if e.call_name(c) not in NON_YIELDING]
                    rep.check(not y, 'R3.1', where,
                              'no yield point between the in-flight test '
                              'and the mark',
                              'between `id not in active_ids` and '
                              'active_ids.add(id) the greenlet can switch '
                              '(%s): two dispatchers can both pass the test'
                              % ', '.join(c.text(40) for c in y),
                              loc=t.loc(), reason='test and add are '
                              'adjacent (cooperative scheduling makes the '
                              'region atomic)')
    if total < 2:
        rep.error('anchor vanished: spawns of Queue._attempt (%d < 2)'
                  % total)


def _calls_between(g, a: Node, b: Node) -> List[Node]:
    """Call nodes on some path from a to b (exclusive)."""
    # (paths that come round to `a` again start over: the last test counts)
    fwd = dataflow.reachable(g, a, lambda x, l, s: not isinstance(l, tuple)
                             and x is not b and s is not a)
    out = []
    for n in g.nodes:
        if n.id in fwd and n is not a and n is not b and \
                n.kind in ('call', 'call_enter'):
            if b.id in dataflow.reachable(
                    g, n, lambda x, l, s: not isinstance(l, tuple) and
                    s is not a and x is not a):
                out.append(n)
    return out


def r32(e: Engine, rep: Report):
    c = common.merged_class(e, QUEUE)
    writers = common.owner_closure(e, QUEUE, QUEUED_WRITERS)
    for mname, m in sorted(c.methods.items()):
        writes = []
        # locals that stand for the timetable (`queued = self.queued`): a
        # write through the alias is a write of the timetable - of the
        # object the alias was taken from, which a rebinding writer
        # (_check_ready, flush) may have replaced meanwhile
        alias = {t.id for a in walk_own(m.node)
                 if isinstance(a, ast.Assign) and
                 ast.unparse(a.value) == 'self.queued'
                 for t in a.targets if isinstance(t, ast.Name)}
        for n in walk_own(m.node):
            if isinstance(n, ast.Call) and alias:
                if isinstance(n.func, ast.Attribute) and \
                        isinstance(n.func.value, ast.Name) and \
                        n.func.value.id in alias and \
                        n.func.attr in ('append', 'insert', 'extend', 'pop',
                                        'remove', 'clear', 'sort'):
                    writes.append(n)
                elif ast.unparse(n.func).split('.')[-1] in (
                        'insort', 'insort_left', 'insort_right',
                        'heappush') and any(
                        isinstance(a, ast.Name) and a.id in alias
                        for a in n.args):
                    writes.append(n)
        for n in walk_own(m.node):
            tg = []
            if isinstance(n, ast.Assign):
                tg = n.targets
            elif isinstance(n, (ast.AugAssign, ast.AnnAssign)):
                tg = [n.target]
            for t in tg:
                for x in ast.walk(t):
                    if isinstance(x, ast.Attribute) and x.attr == 'queued' \
                            and isinstance(x.value, ast.Name) and \
                            x.value.id == 'self':
                        writes.append(n)
            if isinstance(n, ast.Call):
                for a in n.args:
                    if ast.unparse(a) == 'self.queued' and \
                            ast.unparse(n.func).split('.')[-1] in (
                                'insort', 'insort_left', 'insort_right',
                                'heappush'):
                        writes.append(n)
                if isinstance(n.func, ast.Attribute) and \
                        ast.unparse(n.func.value) == 'self.queued' and \
                        n.func.attr in ('append', 'insert', 'extend', 'pop',
                                        'remove', 'clear', 'sort'):
                    writes.append(n)
        for w in writes:
            rep.evaluations += 1
            # (a private helper that only the enumerated writers call is
            # part of them)
            rep.check(mname in writers, 'R3.2', m.qname,
                      'writer of self.queued: ' + ' '.join(
                          ast.unparse(w).split())[:50],
                      'the timetable is modified outside its enumerated '
                      'writers: the entry bypasses the de-duplicating '
                      'insert', loc=m.loc(w),
                      reason='enumerated writer')
    ctx = e.method_ctx(QUEUE, '_add_queued')
    g = e.build(ctx, inline=e.inline_same_self(
        deny=[x for x in DISPOSERS if x != '_add_queued']), max_depth=3)
    fx = e.facts(g)
    where = ctx.func.qname
    ins = [n for n in g.nodes if n.kind == 'call' and any(
        ast.unparse(a) == 'self.queued' for a in n.ast.args)]
    if not ins:
        rep.error('anchor vanished: insertion into self.queued in '
                  '_add_queued')
    for n in ins:
        st = fx.at(n) or frozenset()
        rep.evaluations += 1
        negs = [k for p, k in st if not p and ' in ' in k]
        both = any('queued_ids' in k and 'active_ids' in k for k in negs) \
            or (any('queued_ids' in k for k in negs) and
                any('active_ids' in k for k in negs))
        rep.check(both, 'R3.2', where,
                  'insert only ids that are neither queued nor active',
                  'an id can be inserted into the timetable although it is '
                  'already queued or in flight (guards present: %s): it is '
                  'then dispatched twice' % negs, loc=n.loc(),
                  reason='dominated by id not in queued_ids | active_ids')


def r33(e: Engine, rep: Report):
    ctx = e.method_ctx(QUEUE, '_handle_partial_relay')
    g = e.build(ctx, inline=e.inline_same_self(), max_depth=3)
    where = ctx.func.qname
    rep.functions.add(where)
    marks = [n for n in g.nodes if n.kind == 'call' and
             e.call_name(n) == 'set_recipients_delivered']
    elig = [n for n in g.nodes if n.kind in ('call', 'call_enter') and (
        (e.call_name(n) == 'discard' and 'active_ids' in
         ast.unparse(n.ast.func) and
         n.frame.ctx.func.name != '_remove') or
        e.call_name(n) == '_add_queued')]
    if not marks or not elig:
        rep.error('anchor vanished: set_recipients_delivered / re-queue '
                  'events below _handle_partial_relay')
        return
    # an attempted write counts (the re-queue may sit in a finally block so
    # that a failing storage call does not strand the message); branches
    # that contradict the facts on every path (delivered is None although a
    # set was passed) are pruned
    fx = e.facts(g)

    def step(n, label, st):
        if fx.infeasible(n, label):
            return None
        if st:
            return True
        if n in marks:
            return True
        return False
    for n in elig:
        rep.evaluations += 1
        pth = dataflow.typestate_witness(
            g, False, step, lambda x, st: x is n and not st)
        rep.check(pth is None, 'R3.3', where,
                  'marks persisted before %s' % n.text(40),
                  'the message becomes dispatchable again before its '
                  'settled recipients are persisted: with a retry that is '
                  'due at once and a yielding backend, _dequeue reads the '
                  'message without the marks and re-attempts settled '
                  'recipients', loc=n.loc(),
                  reason='set_recipients_delivered attempted on every path '
                  'before', witness=dataflow.render_path(pth, 16)
                  if pth else None)


def _recipient_deletions(fn_node):
    """AST nodes in the function that delete an element of an envelope's
    recipient list by position: `del X.recipients[i]`, `X.recipients.pop(i)`,
    also through a local alias `rs = X.recipients`"""
    alias = {t.id for a in walk_own(fn_node) if isinstance(a, ast.Assign)
             and isinstance(a.value, ast.Attribute) and
             a.value.attr == 'recipients'
             for t in a.targets if isinstance(t, ast.Name)}

    def is_rcpts(x):
        return (isinstance(x, ast.Attribute) and x.attr == 'recipients') or \
            (isinstance(x, ast.Name) and x.id in alias)
    out = []
    for n in walk_own(fn_node):
        if isinstance(n, ast.Delete):
            for t in n.targets:
                if isinstance(t, ast.Subscript) and is_rcpts(t.value):
                    out.append(n)
        elif isinstance(n, ast.Call) and isinstance(n.func, ast.Attribute) \
                and n.func.attr == 'pop' and n.args and is_rcpts(n.func.value):
            out.append(n)
    return out


def filter_names(e: Engine):
    """names under which QueueStorage offers "remove the recipients at
    these positions from the envelope" (the method that deletes from
    .recipients by position, and class-level aliases of it)"""
    c = e.p.cls(STORAGE)
    names = {m for m, f in c.methods.items() if _recipient_deletions(f.node)}
    for st in c.node.body:
        if isinstance(st, ast.Assign) and isinstance(st.value, ast.Name) and \
                st.value.id in names:
            names |= {t.id for t in st.targets if isinstance(t, ast.Name)}
    return names


def backend_shape(e: Engine, cq: str):
    """'in-place' | 'accumulate' | None, from the source of the backend."""
    fnames = filter_names(e)

    def filters(root):
        # the method together with the private helpers only it uses
        mc = common.merged_class(e, cq)
        for mname in sorted(common.owner_closure(e, cq, [root])):
            m = mc.methods.get(mname)
            # (closures the method defines and hands to a helper are part
            # of it)
            if m is not None and mname not in fnames and any(
                    isinstance(n, ast.Call) and
                    isinstance(n.func, ast.Attribute) and
                    n.func.attr in fnames for n in ast.walk(m.node)):
                return True
        return False
    calls_filter = filters('get')
    set_filters = filters('set_recipients_delivered')
    if set_filters and not calls_filter:
        return 'in-place'
    if calls_filter:
        return 'accumulate'
    return None


MERGE_HELPERS = {'_merge_delivered_rcpts', '_translate_delivered_rcpts'}


def r34(e: Engine, rep: Report, rule: str):
    for cq in e.p.subclasses(STORAGE):
        shape = backend_shape(e, cq)
        ctx = e.method_ctx(cq, 'set_recipients_delivered')
        where = ctx.func.qname
        rep.functions.add(where)
        rep.evaluations += 1
        if shape == 'in-place':
            rep.ok(rule, where, 'in-place reducer: indexes are applied to '
                   'the list they were computed on', reason='stored '
                   'envelope is reduced immediately')
            continue
        if shape is None:
            continue          # reported by R3.5 (marks never applied)
        fn = ctx.func.node
        pname = ctx.func.params[2]
        raw = None
        helper = False
        for n in walk_own(fn):
            if isinstance(n, ast.BinOp) and isinstance(
                    n.op, (ast.Add, ast.BitOr)):
                names = {x.id for x in ast.walk(n)
                         if isinstance(x, ast.Name)}
                if pname in names and len(names) >= 1 and \
                        (len(names) > 1 or any(isinstance(x, ast.Call)
                                               for x in ast.walk(n))):
                    raw = n
            if isinstance(n, ast.Call) and isinstance(n.func, ast.Attribute):
                if n.func.attr in ('extend', 'update', 'union') and any(
                        isinstance(x, ast.Name) and x.id == pname
                        for a in n.args for x in ast.walk(a)):
                    raw = n
                if n.func.attr in MERGE_HELPERS:
                    helper = True
        # today the queue passes a set and `list + <set>` raises before
        # anything is stored (C01-R1.5): the wrong index space is a latent
        # defect as long as the argument itself is an operand of `+`; a
        # merge that accepts the set makes it live
        masked = isinstance(raw, ast.BinOp) and isinstance(raw.op, ast.Add) \
            and any(isinstance(x, ast.Name) and x.id == pname
                    for x in (raw.left, raw.right))
        if raw is not None and not helper:
            rep.bad(rule, where,
                    'stored marks merged with the new indexes untranslated'
                    + ('' if masked else ', by a merge that accepts what '
                       'the queue passes'),
                    'get() removes the stored marks from the ORIGINAL '
                    'recipient list, but the queue computes the new indexes '
                    'on the REDUCED list that get() returned; merging the '
                    'two index spaces unchanged drops the wrong recipients '
                    'from the second partial round on (history: [a,b,c]; '
                    'round 1 settles a -> [0]; round 2 settles c at reduced '
                    'index 1 -> [0,1]; get() returns [c]: b is lost, c is '
                    're-attempted)', loc=ctx.func.loc(raw))
        else:
            rep.ok(rule, where, 'new indexes are translated before merging',
                   reason='merge goes through a translation helper'
                   if helper else 'no raw merge of the two index spaces')


def r35(e: Engine, rep: Report):
    n_acc = 0
    for cq in e.p.subclasses(STORAGE):
        shape = backend_shape(e, cq)
        if shape == 'in-place':
            continue
        n_acc += 1
        ctx = e.method_ctx(cq, 'get')
        if shape is None:
            rep.bad('R3.5', ctx.func.qname,
                    'fetched envelope has the settled recipients removed',
                    'neither set_recipients_delivered nor get() of this '
                    'backend ever removes settled recipients: they are '
                    'attempted again in every round', loc=ctx.func.loc())
            continue
        fnames = filter_names(e)
        g = e.build(ctx, raises=lambda b, n, r: set(),
                    inline=e.inline_same_self(deny=sorted(fnames)),
                    max_depth=3)
        where = ctx.func.qname
        rep.functions.add(where)
        filt = [n for n in g.calls() if e.call_name(n) in fnames]
        before = dataflow.must_events_before(
            g, lambda n: ['filter'] if n in filt else [])
        fx = e.facts(g)
        rets = [n for n in g.of_kind('stmt')
                if isinstance(n.ast, ast.Return) and n.ast.value is not None
                and n.frame is g.entry.frame]
        for r in rets:
            rep.evaluations += 1
            if before.get(r.id) is None:
                continue

            def step(n, label, st):
                if st:
                    return True
                if n in filt and not isinstance(label, tuple):
                    return True
                if n.kind == 'test' and label == 'F' and \
                        'deliver' in canon(n.ast, n.frame):
                    return True      # nothing marked for this message
                return False
            pth = dataflow.typestate_witness(
                g, False, step, lambda n, st: n is r and not st)
            rep.check(pth is None, 'R3.5', where,
                      'fetched envelope has the settled recipients removed',
                      'get() can return the envelope without applying the '
                      'stored delivered marks: settled recipients are '
                      'attempted again', loc=r.loc(),
                      reason='_remove_delivered_rcpts on every path (or no '
                      'marks stored)',
                      witness=dataflow.render_path(pth) if pth else None)
    if n_acc < 3:
        rep.error('anchor vanished: accumulate-and-filter backends (%d < 3)'
                  % n_acc)
    sc = e.p.cls(STORAGE)
    fdefs = [f for mn, f in sorted(sc.methods.items())
             if _recipient_deletions(f.node)]
    if not fdefs:
        rep.error('anchor vanished: the QueueStorage method that deletes '
                  'settled recipients by position')
    for f in fdefs:
        fn = f.node
        dels = {id(x) for x in _recipient_deletions(fn)}
        verdict = None          # True / False / None (shape not read)

        def sorted_how(x):
            """'desc' / 'asc' for sorted(...) / reversed(sorted(...))"""
            txt = ast.unparse(x)
            if txt.startswith('reversed(sorted(') and \
                    'reverse=True' not in txt:
                return 'desc'
            if txt.startswith('sorted('):
                return 'desc' if 'reverse=True' in txt.replace(' ', '') \
                    else 'asc'
            return None
        for n in walk_own(fn):
            if isinstance(n, ast.For) and any(
                    id(x) in dels for s2 in n.body for x in ast.walk(s2)):
                how = sorted_how(n.iter)
                verdict = (how == 'desc') if verdict is not False else False
            elif isinstance(n, ast.While) and any(
                    id(x) in dels for s2 in n.body for x in ast.walk(s2)):
                # `while pending: rs.pop(pending.pop())` with
                # pending = sorted(...): the largest position goes first
                t = n.test
                lname = t.id if isinstance(t, ast.Name) else None
                defs = [a.value for a in walk_own(fn)
                        if isinstance(a, ast.Assign) and any(
                            isinstance(tt, ast.Name) and tt.id == lname
                            for tt in a.targets)]
                pops = [x for s2 in n.body for x in ast.walk(s2)
                        if isinstance(x, ast.Call) and
                        isinstance(x.func, ast.Attribute) and
                        x.func.attr == 'pop' and
                        isinstance(x.func.value, ast.Name) and
                        x.func.value.id == lname]
                if lname and len(defs) == 1 and len(pops) == 1:
                    how = sorted_how(defs[0])
                    a = pops[0].args
                    last = not a or (
                        isinstance(a[0], ast.UnaryOp) and
                        isinstance(a[0].op, ast.USub) and
                        isinstance(a[0].operand, ast.Constant) and
                        a[0].operand.value == 1)
                    first = len(a) == 1 and isinstance(a[0], ast.Constant) \
                        and a[0].value == 0
                    if how and (last or first):
                        v = (how == 'asc' and last) or \
                            (how == 'desc' and first)
                        verdict = v if verdict is not False else False
        rep.evaluations += 1
        if verdict is None:
            rep.error('cannot read the order in which %s deletes the '
                      'settled recipients' % f.qname)
            continue
        rep.check(verdict, 'R3.5', f.qname,
                  'delete settled recipients in descending index order',
                  'deleting by ascending (or unsorted) index shifts the '
                  'positions of the recipients still to be deleted: the '
                  'wrong recipients are removed', loc=f.loc(),
                  reason='largest position first')


# -------------------------------------------------------------------- R3.6
def items_loop_vars(loop_ast: ast.For):
    """(key name, value name, index name|None) of a loop over X.items(),
    also when wrapped in enumerate()."""
    it, tg = loop_ast.iter, loop_ast.target
    idx = None
    if isinstance(it, ast.Call) and ast.unparse(it.func) == 'enumerate' and \
            it.args and isinstance(tg, ast.Tuple) and len(tg.elts) == 2:
        idx = tg.elts[0].id if isinstance(tg.elts[0], ast.Name) else None
        it, tg = it.args[0], tg.elts[1]
    if not (isinstance(it, ast.Call) and isinstance(it.func, ast.Attribute)
            and it.func.attr == 'items'):
        return None
    if isinstance(tg, ast.Tuple) and len(tg.elts) == 2 and all(
            isinstance(x, ast.Name) for x in tg.elts):
        return tg.elts[0].id, tg.elts[1].id, idx
    return None


def r36(e: Engine, rep: Report, rule: str):
    from .c01 import partial_graph, settled_paths
    ctx, g = partial_graph(e)
    where = ctx.func.qname
    settled = settled_paths(e, g)
    # the function that fills the settled set (the root, or the helper the
    # classification was moved into)
    fill = [n for n in g.nodes if n.kind == 'call' and
            isinstance(n.ast.func, ast.Attribute) and
            n.ast.func.attr in ('add', 'append') and n.ast.args and (
                path_of(n.ast.func.value, n.frame) in settled or
                (not settled and 'deliver' in ast.unparse(n.ast.func.value)))]
    if not fill:
        rep.error('anchor vanished: settled-position sites in '
                  '_handle_partial_relay')
        return
    ffr = fill[0].frame
    fn = ffr.ctx.func.node
    # the envelope as this function knows it
    env = None
    for prm in ffr.ctx.func.params:
        if prm in ('envelope', 'env'):
            env = prm
    if env is None:
        env = ctx.func.params[2] if len(ctx.func.params) > 2 else 'envelope'
    src = env + '.recipients'

    def defs_of(name):
        out = []
        for n in walk_own(fn):
            if isinstance(n, ast.Assign) and any(
                    isinstance(t, ast.Name) and t.id == name
                    for t in n.targets):
                out.append(n.value)
        return out

    def is_rcpt_list(x, seen=()) -> bool:
        """x denotes the recipient list of the envelope at hand (or a copy
        of it in the same order)"""
        if ast.unparse(x) == src:
            return True
        if isinstance(x, ast.Call) and isinstance(x.func, ast.Name) and \
                x.func.id in ('list', 'tuple') and len(x.args) == 1:
            return is_rcpt_list(x.args[0], seen)
        if isinstance(x, ast.Name) and x.id not in seen:
            ds = defs_of(x.id)
            return bool(ds) and all(is_rcpt_list(d, seen + (x.id,))
                                    for d in ds)
        return False

    def enum_index(name):
        """lists `name` is the index variable of an enumeration over"""
        out = []
        for n in walk_own(fn):
            if isinstance(n, (ast.For, ast.comprehension)):
                it, tg = n.iter, n.target
                if isinstance(it, ast.Call) and \
                        ast.unparse(it.func) == 'enumerate' and \
                        isinstance(tg, ast.Tuple) and tg.elts and \
                        isinstance(tg.elts[0], ast.Name) and \
                        tg.elts[0].id == name:
                    out.append(it.args[0] if it.args else it)
                elif any(isinstance(t, ast.Name) and t.id == name
                         for t in ast.walk(tg)):
                    out.append(None)
        return out

    def from_recipients(x: ast.AST, seen=()) -> bool:
        # <the list>.index(rcpt)
        if isinstance(x, ast.Call) and isinstance(x.func, ast.Attribute) and \
                x.func.attr == 'index':
            return is_rcpt_list(x.func.value)
        # index_of(rcpt) with `index_of = <the list>.index`
        if isinstance(x, ast.Call) and isinstance(x.func, ast.Name) and \
                x.func.id not in seen:
            fdefs = defs_of(x.func.id)
            return bool(fdefs) and all(
                isinstance(d, ast.Attribute) and d.attr == 'index' and
                is_rcpt_list(d.value) for d in fdefs)
        # positions[rcpt] with positions = {r: i for i, r in enumerate(list)}
        if isinstance(x, ast.Subscript) and isinstance(x.value, ast.Name):
            ds = defs_of(x.value.id)
            ok = bool(ds)
            for d in ds:
                if not (isinstance(d, ast.DictComp) and
                        len(d.generators) == 1 and
                        isinstance(d.generators[0].iter, ast.Call) and
                        ast.unparse(d.generators[0].iter.func) ==
                        'enumerate' and d.generators[0].iter.args and
                        is_rcpt_list(d.generators[0].iter.args[0]) and
                        isinstance(d.generators[0].target, ast.Tuple) and
                        len(d.generators[0].target.elts) == 2 and
                        ast.unparse(d.value) ==
                        ast.unparse(d.generators[0].target.elts[0]) and
                        ast.unparse(d.key) ==
                        ast.unparse(d.generators[0].target.elts[1])):
                    ok = False
            return ok
        if isinstance(x, ast.Name) and x.id not in seen:
            lists = enum_index(x.id)
            ds = defs_of(x.id)
            if not lists and not ds:
                return False
            return all(l is not None and is_rcpt_list(l) for l in lists) \
                and all(from_recipients(d, seen + (x.id,)) for d in ds)
        return False
    sites = 0
    fill_asts = {id(x.ast) for x in fill}
    for n in walk_own(fn):
        if isinstance(n, ast.Call) and id(n) in fill_asts:
            sites += 1
            rep.evaluations += 1
            rep.check(from_recipients(n.args[0]), rule, where,
                      'settled position `%s` is a position in %s'
                      % (ast.unparse(n.args[0]), src),
                      'the position recorded as settled is not looked up in '
                      '%s: a relay that returns its per-recipient results '
                      'in another order than the envelope lists them makes '
                      'the queue mark the wrong recipients (a settled one is '
                      'attempted again, an unsettled one is dropped)' % src,
                      loc=ffr.ctx.func.loc(n),
                      reason='derived from ' + src)
    if sites < 1:
        rep.error('anchor vanished: settled-position sites in '
                  '_handle_partial_relay')


# -------------------------------------------------------------------- R3.7
def r37(e: Engine, rep: Report):
    c = common.merged_class(e, QUEUE)
    total = 0
    helpers = common.private_helpers(e, QUEUE, DISPOSERS)
    for mname, m in sorted(c.methods.items()):
        if mname in helpers:
            continue        # seen in the context of each of its callers
        ctx = Ctx(m, QUEUE)
        g = e.build(ctx, inline=e.inline_same_self(deny=DISPOSERS),
                    max_depth=3)
        rel = [n for n in g.nodes if n.kind == 'call' and
               e.call_name(n) == 'discard' and
               canon(n.ast.func.value, n.frame) == 'self.active_ids'
               and n.ast.args]
        if not rel:
            continue
        where = m.qname
        rep.functions.add(where)

        def outcome(n):
            if n.kind != 'call':
                return []
            nm = e.call_name(n)
            if nm in ('remove', 'set_timestamp') and n.ast.args and \
                    'store' in canon(n.ast.func.value, n.frame):
                return ['out:' + canon(n.ast.args[0], n.frame)]
            return []
        before = dataflow.must_events_before(
            g, outcome, edge_events=lambda n, l: outcome(n))
        for n in rel:
            total += 1
            rep.evaluations += 1
            idp = canon(n.ast.args[0], n.frame)
            st = before.get(n.id)
            ok = st is None or ('out:' + idp) in st
            w = None
            if not ok:
                pth = dataflow.find_path(
                    g, g.entry, lambda x: x is n,
                    avoid=lambda x: ('out:' + idp) in outcome(x))
                w = dataflow.render_path(pth, 14) if pth else None
            rep.check(ok, 'R3.7', where,
                      'in-flight mark released only after the outcome of '
                      'the attempt was recorded',
                      'active_ids.discard(%s) is reached on a path on which '
                      'neither the message was removed from storage nor '
                      'its next due time persisted: the message is still '
                      'stored and dispatchable (an announcement by wait() '
                      'or load() starts a second attempt) while its removal '
                      'or the handler of the first attempt is still pending'
                      % idp.split('#')[0],
                      loc=n.loc(), witness=w,
                      reason='store.remove / store.set_timestamp for the '
                      'id on every path before')
    if total < 2:
        rep.error('anchor vanished: active_ids.discard sites (%d < 2)'
                  % total)


# -------------------------------------------------------------------- R3.9
LIST_MUTATORS = {'append', 'extend', 'insert', 'remove', 'pop', 'clear',
                 'sort', 'reverse', 'update', 'add', 'discard', 'setdefault',
                 'popitem'}


def r39(e: Engine, rep: Report, rule: str):
    """The envelope an attempt works on came from store.get(): for a backend
    that keeps objects (DictStorage with plain dicts) it IS the stored
    record, whose recipient list the settled positions refer to.  The queue
    therefore only reads it and derives copies (envelope.copy(...)); a write
    through one of its own parameters changes the stored message behind the
    backend's back (settled positions then point at other recipients)."""
    rep.rule(rule, 'no method of Queue writes through one of its parameters '
             '(attribute assignment, deletion, in-place list / dict '
             'mutation): the envelope handed down from store.get() is only '
             'read and copied')
    c = common.merged_class(e, QUEUE)
    nm = 0
    for mname, m in sorted(c.methods.items()):
        params = [p for p in m.params if p not in ('self', 'cls')]
        if not params:
            continue
        nm += 1
        rep.functions.add(m.qname)
        # parameters and locals that are plain aliases of them
        alias = set(params)
        changed = True
        while changed:
            changed = False
            for a in walk_own(m.node):
                if isinstance(a, ast.Assign) and len(a.targets) == 1 and \
                        isinstance(a.targets[0], ast.Name) and \
                        isinstance(a.value, ast.Name) and \
                        a.value.id in alias and \
                        a.targets[0].id not in alias:
                    alias.add(a.targets[0].id)
                    changed = True
        # a parameter that is re-bound is no longer what was handed in
        rebound = {x.id for x in walk_own(m.node) if isinstance(x, ast.Name)
                   and isinstance(x.ctx, ast.Store) and x.id in params}

        def base(x):
            while isinstance(x, (ast.Attribute, ast.Subscript)):
                x = x.value
            return x.id if isinstance(x, ast.Name) else None
        for x in walk_own(m.node):
            tg = []
            what = None
            if isinstance(x, ast.Assign):
                tg = x.targets
            elif isinstance(x, (ast.AugAssign, ast.AnnAssign)):
                tg = [x.target]
            elif isinstance(x, ast.Delete):
                tg = x.targets
            for t in tg:
                for el in (t.elts if isinstance(t, (ast.Tuple, ast.List))
                           else [t]):
                    if isinstance(el, (ast.Attribute, ast.Subscript)) and \
                            base(el) in alias - rebound:
                        what = ast.unparse(el)
            if isinstance(x, ast.Call) and \
                    isinstance(x.func, ast.Attribute) and \
                    x.func.attr in LIST_MUTATORS and \
                    isinstance(x.func.value, (ast.Attribute,
                                              ast.Subscript)) and \
                    base(x.func.value) in alias - rebound:
                what = ast.unparse(x.func)
            if what is None:
                continue
            rep.evaluations += 1
            rep.bad(rule, m.qname, 'write through a parameter: `%s`' % what,
                    '%s changes the object it was handed (`%s`): for the '
                    'envelope of an attempt that is the record a keeping '
                    'backend stores, so the recipient list the settled '
                    'positions refer to changes under the backend (a '
                    'recipient is dropped unattempted, or a settled one is '
                    'attempted again)' % (mname, what), loc=m.loc(x))
    rep.evaluations += 1
    if nm < 10:
        rep.error('anchor vanished: methods of Queue with parameters '
                  '(%d < 10)' % nm)
    else:
        rep.ok(rule, QUEUE, 'methods of Queue only read what they are '
               'handed', reason='%d methods with parameters looked at' % nm)


# ------------------------------------------------------------------- R3.13
# what writes a stored record, per backend: (attribute of self, method) or
# (attribute, None) for an item assignment `self.<attribute>[key] = ...`
MARK_WRITERS = {
    'slimta.queue.dict.DictStorage': [('env_db', None), ('meta_db', None)],
    'slimta.diskstorage.DiskStorage': [('ops', 'write_meta'),
                                       ('ops', 'write_env')],
    'slimta.redisstorage.RedisStorage': [('redis', 'hset'),
                                         ('redis', 'hmset'),
                                         ('redis', 'execute')],
    'slimta.cloudstorage.CloudStorage': [('obj_store', 'set_message_meta')],
}


def r313(e: Engine, rep: Report):
    n = 0
    for cq in sorted(e.p.subclasses(STORAGE)):
        ws = MARK_WRITERS.get(cq)
        c = e.p.classes.get(cq)
        if ws is None or c is None or \
                'set_recipients_delivered' not in c.methods:
            continue
        ctx = e.method_ctx(cq, 'set_recipients_delivered')
        g = e.build(ctx, raises=lambda b, nn, r: set(),
                    inline=e.inline_same_self(), max_depth=3)
        where = ctx.func.qname
        rep.functions.add(where)

        def is_write(nd):
            if nd.kind == 'call' and isinstance(nd.ast.func, ast.Attribute):
                recv = path_of(nd.ast.func.value, nd.frame) or ''
                for attr, meth in ws:
                    if meth is not None and nd.ast.func.attr == meth and (
                            recv == 'self.' + attr or
                            recv.startswith('self.' + attr + '.')):
                        return True
                # a pipeline / batch object of the substrate
                if nd.ast.func.attr in [m for a, m in ws if m] and \
                        isinstance(nd.ast.func.value, ast.Name):
                    return True
            if nd.kind == 'stmt' and isinstance(nd.ast, (ast.Assign,
                                                        ast.AugAssign)):
                tg = nd.ast.targets if isinstance(nd.ast, ast.Assign) \
                    else [nd.ast.target]
                for t in tg:
                    if isinstance(t, ast.Subscript) and any(
                            meth is None and path_of(t.value, nd.frame) ==
                            'self.' + attr for attr, meth in ws):
                        return True
            return False
        before = dataflow.must_events_before(
            g, lambda nd: ['w'] if is_write(nd) else [])
        n += 1
        rep.evaluations += 1
        st = before.get(g.exit.id)
        ok = st is None or 'w' in st
        w = None
        if not ok:
            pth = dataflow.find_path(
                g, g.entry, lambda x: x is g.exit, avoid=is_write,
                edge_ok=lambda a, l, s2: not isinstance(l, tuple))
            w = dataflow.render_path(pth, 12) if pth else None
        rep.check(ok, 'R3.13', where,
                  'the marks are written on every path',
                  'set_recipients_delivered of %s can return without '
                  'having written to its substrate: the recipients the '
                  'queue has just settled stay outstanding in storage and '
                  'are attempted again in the next round' % cq.rpartition(
                      '.')[2], loc=ctx.func.loc(),
                  reason='a substrate write on every normal path',
                  witness=w)
    if n < 3:
        rep.error('anchor vanished: set_recipients_delivered of the storage '
                  'backends (%d < 3)' % n)
