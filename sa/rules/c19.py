"""C19 - relay connection pools stay within bounds and strand no request.

L1 a client is spawned only if none is idle and the pool is below its bound
L2 every client is linked to _remove_client, which respawns when requests
   are pending and no client is left
L3 request typestate (rules/pool.py): no polled request is stranded
L4 BlockingDeque: semaphore count follows the deque length in every
   override; size-changing deque methods that are not overridden are never
   used on a pool queue
L5 one message at a time; a failed transaction is reset (RSET) before reuse
L6 a server-initiated timeout re-queues the request and leaves the loop
"""
from __future__ import annotations

import ast

from ..engine import Engine
from ..report import Report
from ..cfg import Node
from ..facts import path_of, canon, holds, parse_atom
from ..model import walk_own
from ..resolve import Ctx
from .. import dataflow
from . import common, pool, c07

POOL = 'slimta.relay.pool.RelayPool'
DEQUE = 'slimta.util.deque.BlockingDeque'
SMTPC = 'slimta.relay.smtp.client.SmtpRelayClient'


def run(e: Engine, rep: Report):
    rep.rule('L1', '_add_client only from _check_idle (no idle client, '
             'unbounded or below pool_size) and from _remove_client (pool '
             'empty); pool.add only in _add_client')
    rep.rule('L2', 'every added client is started, linked to '
             '_remove_client and recorded; _remove_client drops the client '
             'first and respawns under pending requests and an empty pool')
    rep.rule('L4', 'semaphore delta equals size delta on every path of each '
             'BlockingDeque override; un-overridden size-changing deque '
             'methods are never called on a pool queue')
    rep.rule('L5', 'request variables are rebound only from poll(); the '
             'error arm of _deliver resets the transaction')
    rep.rule('L6', 'after re-queuing on a server timeout no further '
             'delivery or poll happens in this client')
    rep.rule('L7', 'no silent `with Timeout(t, False)` encloses a protocol '
             'exchange of the relay client: a swallowed timeout leaves a '
             'reply owed on a connection that is then reused')
    rep.rule('L8', 'the failure reported for an attempt is built from this '
             'attempt: the error reply is a fresh 4xx or the 421 the server '
             'just sent, never an earlier non-421 reply kept on the reused '
             'connection (= C11 N4 for _get_error_reply)')
    rep.not_decided += ['real interleavings of greenlets (the rules decide '
                        'the per-function structure those interleavings '
                        'rely on)', 'numeric pool sizes']
    l1_l2(e, rep)
    pool.request_typestate(e, rep, 'L3')
    l4(e, rep)
    l5_l6(e, rep)
    l7(e, rep)
    from . import c11
    sub = Report(rep.prop, rep.tier, rep.repo)
    c11.n4_catch_all(e, sub)
    for o in sub.obls:
        rep.add('L8', o.where, o.text, o.status, o.what, o.loc, o.witness,
                o.nontrivial, o.reason)
    rep.errors += sub.errors
    rep.evaluations += sub.evaluations
    rep.functions |= sub.functions
    rep.rule('L9', 'a pool client cannot keep its place for ever or outlive '
             'its greenlet: (a) = C14-T1 on the pool-client _run chains; '
             '(b) no spawn(self.<method that talks to the peer>) in a pool '
             'client')
    l9(e, rep)
    rep.rule('L10', 'pools do not share state: no class-level mutable '
             'object of the pool / client / deque classes is changed in '
             'place through self without __init__ giving each instance its '
             'own')
    common.shared_state_rule(
        e, rep, 'L10', ['slimta.relay.pool', 'slimta.util.deque',
                        'slimta.relay.smtp', 'slimta.relay.http'],
        'requests or clients of one relay are seen by another: a request '
        'is served over a connection to the wrong destination, or a pool '
        'counts clients that are not its own')
    rep.floor('L1', 4, 'pool growth sites')
    rep.floor('L4', 9, 'deque overrides')
    rep.rule('L11', 'who-may-settle: a request (AsyncResult) is settled - '
             'set / set_exception - only by the pool client that polled '
             'it (methods of RelayPoolClient subclasses, where L3 decides '
             'exactly-once); the pool itself never settles a request a '
             'client may still hold or may have given back')
    l11(e, rep)
    rep.rule('L12', 'who-may-kill: in the relay modules a pool / relayer / '
             'client is killed only from a kill() method (shutdown): never '
             'on the attempt path, where the clients killed may hold '
             'requests that nobody settles any more')
    l12(e, rep)
    rep.rule('L13', 'an HTTP client that goes on to the next request after '
             'a failed exchange has dropped its connection first: no except '
             'arm of _run resumes the polling loop with self.conn as the '
             'failed exchange left it (http.client keeps a half-done '
             'request: every later message on that client fails unsent)')
    l13(e, rep)
    rep.rule('L14', 'test and growth are one step: between the bound test of '
             '_check_idle and pool.add() nothing can switch greenlets - '
             '_add_client and every add_client() of the package call none of '
             'the yielding primitives of table POOL_GROWTH_YIELDERS (name '
             'resolution, connecting, sleeping, waiting): a burst of '
             'attempts would all pass the test before the first client is '
             'in the pool')
    rep.tables.add('c19.POOL_GROWTH_YIELDERS')
    l14(e, rep)
    rep.rule('L15', 'a request is taken off the pool queue by poll() only '
             '(and its private helpers): a client that empties the queue by '
             'other means settles requests nobody attempted - with another '
             'envelope\'s outcome - and takes them away from the clients '
             'that would have delivered them')
    l15(e, rep)
    rep.rule('L16', 'a reused connection starts every message with a clean '
             'slate: a container a relay client keeps on itself, fills while '
             'a message is delivered and reads into that message\'s result '
             'is emptied at the top of _deliver (or in a finally of it) - a '
             'reset that only some ways out of the transaction pass (the '
             'success path, one helper) leaves the refusals of a message '
             'that failed at end-of-data to be merged into the result of '
             'the next envelope on the same connection')
    l16(e, rep)



def l1_l2(e: Engine, rep: Report):
    p = e.p
    # who may call add_client / pool.add / _add_client
    adders, spawners, callers = [], [], []
    for f in p.functions.values():
        if not f.module.name.startswith('slimta.relay'):
            continue
        ctx = Ctx(f)
        for n in walk_own(f.node):
            if not isinstance(n, ast.Call) or \
                    not isinstance(n.func, ast.Attribute):
                continue
            if n.func.attr == 'add_client' and \
                    isinstance(n.func.value, ast.Name) and \
                    n.func.value.id == f.self_name:
                spawners.append((f, n))
            if n.func.attr == '_add_client':
                callers.append((f, n))
            if n.func.attr in ('add', 'update') and \
                    ast.unparse(n.func.value) in ('self.pool',):
                adders.append((f, n))
    for f, n in spawners + adders:
        rep.evaluations += 1
        rep.check(f.qname == POOL + '._add_client', 'L1', f.qname,
                  'pool growth primitive %s' % ast.unparse(n.func),
                  'a client is created / recorded outside '
                  'RelayPool._add_client: the size bound of _check_idle '
                  'does not apply to it', loc=f.loc(n),
                  reason='only inside _add_client')
    # _add_client handed on as a value (spawn_later / a callback): it runs
    # when the test that allowed it no longer says anything
    for f in p.functions.values():
        if not f.module.name.startswith('slimta.relay'):
            continue
        called = {id(n.func) for n in walk_own(f.node)
                  if isinstance(n, ast.Call)}
        for x in walk_own(f.node):
            if isinstance(x, ast.Attribute) and x.attr == '_add_client' and \
                    isinstance(x.ctx, ast.Load) and id(x) not in called:
                rep.evaluations += 1
                rep.bad('L1', f.qname, 'deferred `%s`' % ast.unparse(x),
                        '_add_client is handed on to run later (timer / '
                        'callback) instead of being called under the test '
                        'that guards it: by the time it runs another '
                        'attempt may have started a client already, and the '
                        'pool holds more clients than pool_size',
                        loc=f.loc(x))
    allowed = {POOL + '._check_idle', POOL + '._remove_client'}
    for f, n in callers:
        rep.evaluations += 1
        rep.check(f.qname in allowed, 'L1', f.qname, 'caller of _add_client',
                  '_add_client is called from %s, outside the two guarded '
                  'sites' % f.qname, loc=f.loc(n),
                  reason='guarded call site')
    # at most one client is added per call of either site: _check_idle adds
    # one below the bound, _remove_client replaces the one it dropped
    for meth in ('_check_idle', '_remove_client'):
        cx = e.method_ctx(POOL, meth)
        gg = e.build(cx, raises=lambda b, n, r: set(),
                     inline=e.inline_same_self(deny=['_add_client']),
                     max_depth=4)
        adds = [n for n in gg.calls() if e.call_name(n) == '_add_client']
        cnt = dataflow.count_events(gg, lambda n: 1 if n in adds else 0,
                                    cap=3).get(gg.exit.id)
        rep.evaluations += 1
        rep.check(cnt is not None and cnt <= frozenset([0, 1]), 'L1',
                  cx.func.qname, 'at most one client is added per call',
                  '%s can add %s clients in one call: the test that guards '
                  'the first _add_client (below pool_size / pool empty) no '
                  'longer holds for the following ones, so the pool grows '
                  'past its configured size' % (
                      meth, sorted(cnt) if cnt else '?'),
                  loc=cx.func.loc(), reason='0 or 1 _add_client per call')
    # _check_idle guard
    ctx = e.method_ctx(POOL, '_check_idle')
    g = e.build(ctx, inline=e.inline_same_self(deny=['_add_client']),
                max_depth=4)
    fxi = e.facts(g)
    where = ctx.func.qname
    rep.functions.add(where)
    sites = [n for n in g.calls() if e.call_name(n) == '_add_client']
    if not sites:
        rep.error('anchor vanished: _add_client call in _check_idle')
    alts = [parse_atom('not self.pool_size'),
            parse_atom('len(self.pool) < self.pool_size')]
    scans = [n for n in g.of_kind('iter')
             if isinstance(n.ast, ast.For) and
             canon(n.ast.iter, n.frame) == 'self.pool']
    before = dataflow.must_events_before(
        g, lambda n: ['scan'] if n in scans else [])
    for n in sites:
        rep.evaluations += 1
        w = common.unguarded_path(e, g, n, alts)
        rep.check(w is None, 'L1', where, 'spawn below the bound',
                  'a new client can be spawned although pool_size is set '
                  'and len(pool) >= pool_size: more connections than '
                  'configured', loc=n.loc(),
                  reason='not pool_size or len(pool) < pool_size on every '
                  'path', witness=dataflow.render_path(w) if w else None)
        ok_scan = 'scan' in (before.get(n.id) or ())

        def step(x, label, st):
            if x.kind == 'test' and label == 'T' and \
                    ast.unparse(x.ast).endswith('.idle'):
                return True
            return st
        w2 = dataflow.typestate_witness(
            g, False, step, lambda x, st: x is n and st)
        # the same guard written as an expression: not any(c.idle for c in
        # self.pool)
        st_n = fxi.at(n) or frozenset()
        any_form = any(not p and k.startswith('any(') and '.idle' in k and
                       'self.pool' in k for p, k in st_n)
        rep.check((ok_scan and w2 is None) or any_form, 'L1', where,
                  'spawn only when no client is idle',
                  'a client is spawned although an idle client exists (or '
                  'the idle scan over self.pool is gone)', loc=n.loc(),
                  reason='idle scan dominates; idle hit never reaches the '
                  'spawn', witness=dataflow.render_path(w2) if w2 else None)
    # _remove_client
    ctx = e.method_ctx(POOL, '_remove_client')
    g = e.build(ctx)
    fx = e.facts(g)
    where = ctx.func.qname
    rep.functions.add(where)
    sites = [n for n in g.calls() if e.call_name(n) == '_add_client']
    removes = [n for n in g.nodes if n.kind == 'call' and
               e.call_name(n) in ('remove', 'discard') and
               canon(n.ast.func.value, n.frame) == 'self.pool']
    rep.evaluations += 2
    rep.check(bool(removes) and 'rm' in (dataflow.must_events_after(
        g, lambda n: ['rm'] if n in removes else [],
        edge=c07.no_call_exc).get(g.entry.id) or ()), 'L2', where,
        'exited client leaves the pool',
        '_remove_client does not drop the client from self.pool on every '
        'path: the pool never shrinks and the bound blocks new clients',
        reason='pool.remove(client) on every path', loc=ctx.func.loc())
    rep.check(bool(sites), 'L2', where, 'respawn exists',
              '_remove_client never respawns: requests queued while the '
              'last client exits are stranded', loc=ctx.func.loc(),
              reason='_add_client call present')
    before = dataflow.must_events_before(
        g, lambda n: ['rm'] if n in removes else [])
    for n in sites:
        rep.evaluations += 1
        st = fx.at(n)
        need = [parse_atom('not self.pool'),
                parse_atom('0 < len(self.queue)')]
        ok = holds(st, need[0]) and 'rm' in (before.get(n.id) or ())
        rep.check(ok, 'L1', where, 'respawn only into an empty pool, after '
                  'the removal',
                  'respawn is not guarded by `not self.pool` after removing '
                  'the exited client: the pool can exceed its bound',
                  loc=n.loc(), reason='dominated by pool.remove and '
                  'not self.pool')
        # the respawn condition must not be stronger than "requests pending
        # and pool empty": every path that establishes both reaches it
        # any spelling of "requests are pending"
        pending = {parse_atom(t) for t in (
            '0 < len(self.queue)', 'len(self.queue) > 0',
            'len(self.queue) >= 1', 'len(self.queue) != 0',
            'not len(self.queue) == 0', 'self.queue', 'len(self.queue)')}
        extra = [a for a in (st or ()) if a not in need and
                 a not in pending and
                 ('self.queue' in a[1] or 'self.pool' in a[1] or any(
                     isinstance(y, ast.Name) and
                     y.id in ctx.func.params and y.id != 'self'
                     for y in _names_of(a[1])))]
        rep.check(not extra, 'L2', where,
                  'respawn whenever requests are pending and no client is '
                  'left', 'the respawn is subject to an additional '
                  'condition %s: a pending request can be left with no '
                  'client' % extra, loc=n.loc(),
                  reason='no further condition on queue/pool')
    # _add_client: start, link(_remove_client), pool.add on every path
    ctx = e.method_ctx(POOL, '_add_client')
    g = e.build(ctx)
    where = ctx.func.qname
    rep.functions.add(where)

    def ev(n):
        if n.kind != 'call':
            return []
        nm = e.call_name(n)
        if nm == 'link' and any(
                ast.unparse(a).endswith('._remove_client')
                for a in n.ast.args):
            return ['link']
        if nm == 'start':
            return ['start']
        if nm == 'add' and canon(n.ast.func.value, n.frame) == 'self.pool':
            return ['add']
        if nm == 'add_client':
            return ['create']
        return []
    st = dataflow.must_events_after(g, ev, edge=c07.no_call_exc).get(
        g.entry.id) or frozenset()
    for need, what in (('link', 'linked to _remove_client'),
                       ('start', 'started'),
                       ('add', 'recorded in self.pool'),
                       ('create', 'created through add_client()')):
        rep.evaluations += 1
        rep.check(isinstance(st, dataflow.Top) or need in st, 'L2', where,
                  'new client is ' + what,
                  'a new pool client is not %s on every path: its exit is '
                  'never noticed / it is never counted' % what,
                  loc=ctx.func.loc(), reason='on every path of _add_client')


# ---------------------------------------------------------------- L4
DEQUE_SPEC = {
    # method: (semaphore op, count per call, order relative to super call)
    'append': ('release', 1, 'after'),
    'appendleft': ('release', 1, 'after'),
    'pop': ('acquire', 1, 'before'),
    'popleft': ('acquire', 1, 'before'),
    'remove': ('acquire', 1, 'after'),
}
UNOVERRIDDEN_MUTATORS = {'insert', '__delitem__', '__iadd__', '__imul__',
                         '__setitem__'}


def l4(e: Engine, rep: Report):
    c = e.p.cls(DEQUE)
    rep.tables.add('c19.DEQUE_SPEC')

    def sema_op(n: Node):
        if n.kind == 'call' and isinstance(n.ast.func, ast.Attribute) and \
                n.ast.func.attr in ('release', 'acquire') and \
                canon(n.ast.func.value, n.frame) == 'self.sema':
            return n.ast.func.attr
        return None

    def is_super(n: Node, name, g=None):
        # super().name(...), also when the bound method was first put in a
        # local / handed to a helper that calls it
        if n.kind != 'call':
            return False
        f = n.ast.func
        fr = n.frame
        if g is not None and isinstance(f, ast.Name):
            f, fr = common.origin(g, f, n.frame)
        if isinstance(f, ast.Call) and isinstance(f.func, ast.Name) and \
                not f.keywords:
            # _inherited(self, 'append')(...): a module-level helper that
            # hands back getattr(super(...), <its parameter>)
            hf = e.p.functions.get(fr.ctx.func.module.name + '.' +
                                   f.func.id)
            if hf is not None and hf.cls is None:
                body = [st for st in hf.node.body
                        if not (isinstance(st, ast.Expr) and
                                isinstance(st.value, ast.Constant))]
                if len(body) == 1 and isinstance(body[0], ast.Return):
                    rv = body[0].value
                    if isinstance(rv, ast.Call) and \
                            isinstance(rv.func, ast.Name) and \
                            rv.func.id == 'getattr' and len(rv.args) == 2 \
                            and isinstance(rv.args[0], ast.Call) and \
                            ast.unparse(rv.args[0].func) == 'super' and \
                            isinstance(rv.args[1], ast.Name) and \
                            rv.args[1].id in hf.params:
                        i = hf.params.index(rv.args[1].id)
                        return i < len(f.args) and \
                            isinstance(f.args[i], ast.Constant) and \
                            f.args[i].value == name
            return False
        if not (isinstance(f, ast.Attribute) and f.attr == name):
            return False
        v = f.value
        if g is not None and isinstance(v, ast.Name):
            # parent = super(...); parent.append
            v, _ = common.origin(g, v, fr)
        return isinstance(v, ast.Call) and ast.unparse(v.func) == 'super'
    for name, (op, cnt, order) in DEQUE_SPEC.items():
        where = DEQUE + '.' + name
        if name not in c.methods and name in getattr(c, 'class_attrs', {}):
            rep.unknown('L4', where, 'override present',
                        '%s is bound in the class body to `%s`: a method '
                        'built at class-creation time is not read'
                        % (name, ' '.join(ast.unparse(
                            c.class_attrs[name]).split())[:50]))
            continue
        if name not in c.methods:
            rep.bad('L4', where, 'override present',
                    'BlockingDeque no longer overrides %s: the deque '
                    'changes size without the semaphore following' % name)
            continue
        ctx = e.method_ctx(DEQUE, name)
        g = e.build(ctx, raises=lambda b, n, r: set(),
                    inline=e.inline_same_self(), max_depth=3)
        rep.functions.add(where)
        sup = [n for n in g.nodes if is_super(n, name, g)]
        other = 'acquire' if op == 'release' else 'release'
        cs = dataflow.count_events(g, lambda n: 1 if sema_op(n) == op
                                   else 0).get(g.exit.id)
        co = dataflow.count_events(g, lambda n: 1 if sema_op(n) == other
                                   else 0).get(g.exit.id)
        csup = dataflow.count_events(g, lambda n: 1 if n in sup else 0
                                     ).get(g.exit.id)
        rep.evaluations += 3
        rep.check(cs == frozenset([cnt]) and co == frozenset([0]) and
                  csup == frozenset([1]), 'L4', where,
                  'one %s per %s' % (op, name),
                  'on some path %s changes the deque by one element but the '
                  'semaphore by %s %s / %s %s (super calls %s)' % (
                      name, sorted(cs or []), op, sorted(co or []), other,
                      sorted(csup or [])), loc=ctx.func.loc(),
                  reason='exactly one %s, one super().%s, no %s' % (
                      op, name, other))
        # order: blocking acquire before the pop; bookkeeping after the
        # mutation otherwise (so that a failing mutation changes nothing)
        ops = [n for n in g.nodes if sema_op(n) == op]
        if order == 'before':
            before = dataflow.must_events_before(
                g, lambda n: ['op'] if n in ops else [])
            ok = all('op' in (before.get(s.id) or ()) for s in sup)
        else:
            before = dataflow.must_events_before(
                g, lambda n: ['sup'] if n in sup else [])
            ok = all('sup' in (before.get(o.id) or ()) for o in ops)
        rep.check(ok and bool(sup) and bool(ops), 'L4', where,
                  'semaphore %s %s the mutation' % (op, order),
                  'the semaphore %s does not come %s super().%s on every '
                  'path: a failing/blocked operation leaves count and '
                  'length out of step' % (op, order, name),
                  loc=ctx.func.loc(), reason='order on every path')
        if op == 'acquire' and order == 'before':
            nb = [o for o in ops if any(
                k.arg == 'blocking' and isinstance(k.value, ast.Constant)
                and not k.value.value for k in o.ast.keywords) or (
                o.ast.args and isinstance(o.ast.args[0], ast.Constant)
                and not o.ast.args[0].value)]
            rep.check(not nb, 'L4', where, 'pop waits for an element',
                      '%s acquires the semaphore without blocking: it pops '
                      'from an empty deque instead of waiting' % name,
                      loc=ctx.func.loc(), reason='blocking acquire')
    # extend / extendleft: one release per added element - the number of
    # releases is len(self) after the super call minus len(self) before it
    for name in ('extend', 'extendleft'):
        where = DEQUE + '.' + name
        if name not in c.methods and name in getattr(c, 'class_attrs', {}):
            rep.unknown('L4', where, 'override present',
                        '%s is bound in the class body to `%s`: a method '
                        'built at class-creation time is not read'
                        % (name, ' '.join(ast.unparse(
                            c.class_attrs[name]).split())[:50]))
            continue
        if name not in c.methods:
            rep.bad('L4', where, 'override present',
                    'BlockingDeque no longer overrides %s' % name)
            continue
        ctx = e.method_ctx(DEQUE, name)
        g = e.build(ctx, raises=lambda b, n, r: set(),
                    inline=e.inline_same_self(), max_depth=3)
        sup = [n for n in g.nodes if is_super(n, name, g)]
        before = dataflow.must_events_before(
            g, lambda n: ['sup'] if n in sup else [])

        def when(node):
            st = before.get(node.id)
            if st is None:
                return None
            return 'after' if 'sup' in st else 'before'

        def enter_of(frame):
            for n in g.nodes:
                if n.kind == 'call_enter' and \
                        n.extra.get('callee_frame') is frame:
                    return n
            return None

        def is_len_self(x, frame):
            return isinstance(x, ast.Call) and \
                isinstance(x.func, ast.Name) and x.func.id == 'len' and \
                len(x.args) == 1 and \
                canon(x.args[0], frame) == 'self'

        def shape(x, frame, at, depth=0):
            """'before' / 'after': len(self) taken before / after the super
            call; ('diff',): after - before; None: something else.  `at` is
            the node at which an inline expression is evaluated."""
            if depth > 6 or x is None:
                return None
            if is_len_self(x, frame):
                return when(at) if at is not None else None
            if isinstance(x, ast.BinOp) and isinstance(x.op, ast.Sub):
                l = shape(x.left, frame, at, depth + 1)
                r = shape(x.right, frame, at, depth + 1)
                return ('diff',) if (l, r) == ('after', 'before') else None
            if isinstance(x, ast.Name):
                fn = frame.ctx.func
                stores = [d for d in g.of_kind('stmt')
                          if d.frame is frame and
                          isinstance(d.ast, ast.Assign) and any(
                              isinstance(t, ast.Name) and t.id == x.id
                              for t in d.ast.targets)]
                anystore = any(isinstance(y, ast.Name) and y.id == x.id and
                               isinstance(y.ctx, ast.Store)
                               for y in walk_own(fn.node))
                if x.id in fn.params and not anystore and \
                        x.id in frame.arg_exprs:
                    a, af = frame.arg_exprs[x.id]
                    return shape(a, af, enter_of(frame), depth + 1)
                if len(stores) == 1:
                    return shape(stores[0].ast.value, frame, stores[0],
                                 depth + 1)
            return None
        ok = False
        for lp in g.of_kind('iter'):
            it = lp.ast.iter if isinstance(lp.ast, ast.For) else None
            if not (isinstance(it, ast.Call) and
                    isinstance(it.func, ast.Name) and it.func.id == 'range'):
                continue
            counts = common.per_iteration_counts(
                g, lp, lambda n: 1 if sema_op(n) == 'release' else 0)
            if counts != frozenset([1]) or when(lp) != 'after':
                continue
            a = it.args
            if len(a) == 2 and shape(a[0], lp.frame, lp) == 'before' and \
                    shape(a[1], lp.frame, lp) == 'after':
                ok = True
            elif len(a) == 1 and shape(a[0], lp.frame, lp) == ('diff',):
                ok = True
        # the same count-down written as `while count > 0: release();
        # count -= 1` with count = len(self) after - before
        for h, w in common.while_heads(g):
            t = w.test
            if not (isinstance(t, ast.Compare) and len(t.ops) == 1 and
                    isinstance(t.ops[0], ast.Gt) and
                    isinstance(t.left, ast.Name) and
                    isinstance(t.comparators[0], ast.Constant) and
                    t.comparators[0].value == 0):
                continue
            cv = t.left.id
            rel = common.while_iteration_counts(
                g, h, lambda n: 1 if sema_op(n) == 'release' else 0)
            dec = common.while_iteration_counts(
                g, h, lambda n: 1 if n.kind == 'stmt' and
                isinstance(n.ast, ast.AugAssign) and
                isinstance(n.ast.op, ast.Sub) and
                isinstance(n.ast.target, ast.Name) and
                n.ast.target.id == cv and
                isinstance(n.ast.value, ast.Constant) and
                n.ast.value.value == 1 else 0)
            other = [y for y in walk_own(h.frame.ctx.func.node)
                     if isinstance(y, ast.Name) and y.id == cv and
                     isinstance(y.ctx, ast.Store)]
            if rel != frozenset([1]) or dec != frozenset([1]) or \
                    len(other) != 1 or when(h) != 'after':
                continue
            fr2 = h.frame
            if cv in fr2.ctx.func.params and cv in fr2.arg_exprs:
                a0, af0 = fr2.arg_exprs[cv]
                if shape(a0, af0, enter_of(fr2)) == ('diff',):
                    ok = True
        # no release outside such a loop
        stray = [n for n in g.nodes if sema_op(n) in ('release', 'acquire')
                 and not any(sc.kind == 'loop' for sc in n.scopes)]
        rep.evaluations += 1
        rep.check(ok and not stray and len(sup) >= 1, 'L4', where,
                  'one release per added element',
                  '%s does not release the semaphore once per element '
                  'actually added (len before/after the super call)' % name,
                  loc=c.methods[name].loc(),
                  reason='for range(len_before, len_after): release')
    # clear: drain the semaphore
    where = DEQUE + '.clear'
    ok = False
    if 'clear' in c.methods:
        ctx = e.method_ctx(DEQUE, 'clear')
        g = e.build(ctx, raises=lambda b, n, r: set(),
                    inline=e.inline_same_self(), max_depth=3)
        has_super = any(is_super(n, 'clear', g) for n in g.nodes)
        for t in g.of_kind('test'):
            if not ('locked()' in ast.unparse(t.ast)):
                continue
            wl = [sc for sc in t.scopes if sc.kind == 'loop' and
                  isinstance(sc.ast, ast.While)]
            if not wl or wl[-1].ast.test is not t.ast and \
                    not any(x is t.ast for x in ast.walk(wl[-1].ast.test)):
                continue
            if not isinstance(wl[-1].ast.test, ast.UnaryOp):
                continue
            acq = [n for n in g.nodes if sema_op(n) == 'acquire' and any(
                sc.kind == 'loop' and sc.ast is wl[-1].ast
                for sc in n.scopes)]
            if acq and has_super:
                ok = True
    rep.evaluations += 1
    rep.check(ok, 'L4', where, 'clear drains the semaphore',
              'clear() empties the deque without draining the semaphore: '
              'a later popleft() returns from acquire on an empty deque',
              reason='while not locked(): acquire(blocking=False)')
    # un-overridden size-changing methods never used on a pool queue
    hits = []
    for f in e.p.functions.values():
        if not f.module.name.startswith('slimta.'):
            continue
        ctx = Ctx(f)
        for n in walk_own(f.node):
            recv = None
            what = None
            if isinstance(n, ast.Call) and isinstance(n.func, ast.Attribute) \
                    and n.func.attr in UNOVERRIDDEN_MUTATORS | {'insert',
                                                                'rotate_'}:
                recv, what = n.func.value, n.func.attr
            elif isinstance(n, ast.AugAssign):
                recv, what = n.target, 'augmented assignment'
            elif isinstance(n, ast.Delete):
                for t in n.targets:
                    if isinstance(t, ast.Subscript):
                        recv, what = t.value, 'del [...]'
            elif isinstance(n, ast.Assign):
                for t in n.targets:
                    if isinstance(t, ast.Subscript):
                        recv, what = t.value, 'item assignment'
            if recv is None:
                continue
            if f.cls is not None and f.cls.qname == DEQUE:
                continue
            ts = e.r.infer(recv, ctx)
            if any(t[0] == 'inst' and e.p.is_subclass(t[1], DEQUE)
                   for t in ts):
                hits.append((f, n, what))
    rep.evaluations += 1
    if not hits:
        rep.ok('L4', DEQUE, 'no un-overridden mutator used on a '
               'BlockingDeque', reason='who-may-call over the whole package')
    for f, n, what in hits:
        rep.bad('L4', f.qname, 'un-overridden deque mutator: ' + what,
                '%s changes the size of a BlockingDeque without touching '
                'its semaphore' % what, loc=f.loc(n))


# ----------------------------------------------------------- L5 / L6
def l5_l6(e: Engine, rep: Report):
    for cq in e.concrete_classes(SMTPC):
        short = cq.rpartition('.')[2]
        ctx = e.method_ctx(cq, '_run')
        where = '%s[%s]' % (ctx.func.qname, short)
        g = e.build(ctx, inline=e.inline_same_self(deny=['poll']),
                    max_depth=6)
        rep.functions.add(ctx.func.qname)
        polls = pool._poll_sites(e, g)
        names = set()
        role = {}
        for s in polls:
            for el in ast.walk(s.ast.targets[0]):
                if isinstance(el, ast.Name):
                    names.add(path_of(el, s.frame))
            t0 = s.ast.targets[0]
            if isinstance(t0, (ast.Tuple, ast.List)):
                for i, el in enumerate(t0.elts):
                    q = path_of(el, s.frame)
                    if q:
                        role[q] = i

        def same_pair(n):
            """`result, envelope = result, envelope` of a request pair
            handed on as it is (what a `for` over an inlined generator
            receives from `yield result, envelope`): the pairing stays"""
            a = n.ast
            if not (isinstance(a, ast.Assign) and len(a.targets) == 1 and
                    isinstance(a.targets[0], (ast.Tuple, ast.List)) and
                    isinstance(a.value, (ast.Tuple, ast.List)) and
                    len(a.value.elts) == len(a.targets[0].elts)):
                return False
            vf = n.extra.get('yield_frame') or n.frame
            for t, v in zip(a.targets[0].elts, a.value.elts):
                rt = role.get(path_of(t, n.frame))
                rv = role.get(path_of(v, vf))
                if rt is None or rv is None or rt != rv:
                    return False
            return True
        for n in g.of_kind('stmt', 'iter', 'handler', 'with_enter'):
            tg = []
            if n.kind == 'stmt' and isinstance(n.ast, ast.Assign) and \
                    same_pair(n):
                continue
            if n.kind == 'stmt' and isinstance(n.ast, ast.Assign):
                tg = n.ast.targets
            elif n.kind == 'stmt' and isinstance(n.ast, (ast.AugAssign,
                                                         ast.AnnAssign)):
                tg = [n.ast.target]
            elif n.kind == 'iter':
                tg = [n.ast.target]
            for t in tg:
                for el in ast.walk(t):
                    if isinstance(el, ast.Name) and \
                            path_of(el, n.frame) in names and \
                            n not in polls:
                        rep.bad('L5', where, 'request variable rebound: ' +
                                n.text(50),
                                'the (result, envelope) pair is rebound '
                                'outside poll(): a result can be paired '
                                'with another message', loc=n.loc())
        rep.ok('L5', where, 'request pair bound only by poll()',
               reason='%d poll sites' % len(polls))
        rep.evaluations += 1
        # error arm of _deliver: RSET after failing the request
        dctx = e.method_ctx(cq, '_deliver')
        def settles(builder, call, target, frame):
            # helpers of the same object that fail the request themselves
            return target.recv_is_self and frame.self_same and \
                target.func.name != '_rset' and any(
                    isinstance(x, ast.Attribute) and
                    x.attr == 'set_exception' and isinstance(x.ctx, ast.Load)
                    for x in ast.walk(target.func.node))
        dg = e.build(dctx, inline=settles, raises=pool.make_raises(e),
                     assert_raises=False, max_depth=3)
        dwhere = '%s[%s]' % (dctx.func.qname, short)
        rep.functions.add(dctx.func.qname)
        fails = [n for n in dg.nodes if n.kind == 'call' and
                 e.call_name(n) == 'set_exception']
        rsets = [n for n in dg.calls() if e.call_name(n) == '_rset']
        after = dataflow.must_events_after(
            dg, lambda n: ['rset'] if n in rsets else [],
            edge=c07.no_call_exc)
        if not fails:
            rep.error('anchor vanished: set_exception in %s' % dwhere)
        for n in fails:
            rep.evaluations += 1
            st = after.get(n.id)
            rep.check(isinstance(st, dataflow.Top) or 'rset' in (st or ()),
                      'L5', dwhere, 'failed transaction is reset',
                      'after a failed transaction the connection is reused '
                      'without RSET: the next message inherits the sender/'
                      'recipients of the failed one', loc=n.loc(),
                      reason='_rset() on every path after set_exception')
        # per-recipient failures (LMTP): a flag set to True must lead to rset
        flags = [n for n in dg.of_kind('stmt')
                 if isinstance(n.ast, ast.Assign) and
                 isinstance(n.ast.value, ast.Constant) and
                 n.ast.value.value is True and
                 isinstance(n.ast.targets[0], ast.Name)]
        for fl in flags:
            nm = path_of(fl.ast.targets[0], fl.frame)

            def step(x, label, st, fl=fl, nm=nm):
                if x is fl:
                    return True
                if x in rsets:
                    return False
                if x.kind == 'test' and label == 'F' and st and \
                        path_of(x.ast, x.frame) == nm:
                    return None      # the flag is set: branch infeasible
                return st
            w = dataflow.typestate_witness(
                dg, False, step, lambda x, st: x is dg.exit and st)
            rep.evaluations += 1
            rep.check(w is None, 'L5', dwhere,
                      'per-recipient failure flag `%s` leads to RSET'
                      % nm.split('#')[0],
                      'a transaction with per-recipient failures ends '
                      'without RSET', loc=fl.loc(),
                      reason='_rset() before return whenever the flag is '
                      'set', witness=dataflow.render_path(w) if w else None)
        # L6
        req = [n for n in g.nodes if n.kind == 'call' and
               e.call_name(n) in ('appendleft',) and
               canon(n.ast.func.value, n.frame) == 'self.queue']
        if not req:
            rep.bad('L6', where, 'server timeout re-queues the request',
                    'no queue.appendleft((result, envelope)) in _run: a '
                    'request taken while the server had timed out is lost',
                    loc=ctx.func.loc())
        more = [n for n in g.calls()
                if e.call_name(n) in ('_deliver', 'poll')]
        for n in req:
            rep.evaluations += 1
            pth = dataflow.find_path(
                g, n, lambda x: x in more,
                edge_ok=lambda a, l, s: not isinstance(l, tuple))
            rep.check(pth is None, 'L6', where,
                      're-queue is followed by leaving the loop',
                      'after putting the request back the client goes on '
                      'delivering / polling on the dead connection',
                      loc=n.loc(), reason='no path to _deliver / poll',
                      witness=dataflow.render_path(pth) if pth else None)
            # and it is put back unresolved, under the server-timeout test
            w = common.unguarded_path(
                e, g, n, [(True, 'self._check_server_timeout()')])
            rep.check(w is None, 'L6', where,
                      're-queue only on a server-initiated timeout',
                      'the request is put back although '
                      '_check_server_timeout() did not report a timeout',
                      loc=n.loc(), reason='dominated by the timeout test',
                      witness=dataflow.render_path(w) if w else None)



def l7(e: Engine, rep: Report):
    from ..cfg import _swallows_timeout
    n = 0
    for cq in e.concrete_classes(SMTPC):
        c = e.p.classes[cq]
        for mname, m in sorted(c.methods.items()):
            for w in walk_own(m.node):
                if not isinstance(w, ast.With):
                    continue
                for it in w.items:
                    if not _swallows_timeout(it.context_expr):
                        continue
                    calls = [x for s_ in w.body for x in ast.walk(s_)
                             if isinstance(x, ast.Call) and
                             isinstance(x.func, ast.Attribute) and
                             ast.unparse(x.func.value) == 'self.client']
                    if not calls:
                        continue
                    n += 1
                    rep.evaluations += 1
                    rep.bad('L7', m.qname,
                            'silent Timeout around client.%s()'
                            % calls[0].func.attr,
                            'a timeout of this exchange is swallowed '
                            '(Timeout(..., False)): the client carries on '
                            'with a reply still owed, the connection is '
                            'reused and every later reply is paired with '
                            'the wrong command / message', loc=m.loc(w))
    if n == 0:
        rep.ok('L7', SMTPC, 'no silent timeout around a client exchange',
               reason='every Timeout around self.client.* raises')


# --------------------------------------------------------------------- L9
def l9(e: Engine, rep: Report):
    """A pool client occupies one of pool_size places for as long as its
    greenlet lives.  (a) Every blocking exchange with the peer inside its
    _run lies within a Timeout scope (= C14-T1 on the pool-client entries):
    a client that can block for ever keeps its place, and with the pool at
    its bound every later request waits with nobody to serve it.  (b) It
    does its own tearing down: no method of a pool client hands a method
    that talks to the peer to another greenlet - the pool counts greenlets,
    so a connection that outlives its client's greenlet is one more than
    the bound allows."""
    from . import c14, c11
    sub = Report(rep.prop, rep.tier, rep.repo)
    c14.run(e, sub)
    n = 0
    for o in sub.obls:
        if o.rule == 'T1' and ('RelayClient' in o.where):
            n += 1
            rep.add('L9', o.where, o.text, o.status,
                    (o.what + ' - the pool client never finishes, keeps '
                     'its place in the pool and later requests are '
                     'stranded') if o.what else '', o.loc, o.witness,
                    o.nontrivial, o.reason)
    rep.evaluations += n
    rep.functions |= sub.functions
    if n < 6:
        rep.error('anchor vanished: blocking primitives on the pool-client '
                  'chains (%d < 6)' % n)
    # (b)
    m = 0
    for cq in e.concrete_classes(POOL_CLIENT) if 'POOL_CLIENT' in globals() \
            else e.concrete_classes('slimta.relay.pool.RelayPoolClient'):
        talk = c11._peer_talkers(e, cq)
        seen = set()
        for k in e.p.mro(cq):
            c = e.p.classes.get(k)
            if c is None:
                continue
            for mname, f in sorted(c.methods.items()):
                if mname in seen:
                    continue
                seen.add(mname)
                for x in walk_own(f.node):
                    if not (isinstance(x, ast.Call) and
                            ast.unparse(x.func).rpartition('.')[2] in (
                                'spawn', 'spawn_later', 'spawn_raw',
                                'apply_async')):
                        continue
                    for a in x.args:
                        if isinstance(a, ast.Attribute) and \
                                isinstance(a.value, ast.Name) and \
                                a.value.id == 'self' and a.attr in talk:
                            m += 1
                            rep.evaluations += 1
                            rep.bad('L9', f.qname,
                                    'peer exchange handed to another '
                                    'greenlet: `%s`' % ' '.join(
                                        ast.unparse(x).split())[:60],
                                    '%s runs self.%s, which talks to the '
                                    'peer, in a greenlet of its own: the '
                                    'client\'s greenlet can end - and the '
                                    'pool start a replacement - while this '
                                    'connection is still open; more '
                                    'connections than pool_size are live'
                                    % (f.qname, a.attr), loc=f.loc(x))
    rep.evaluations += 1
    if m == 0:
        rep.ok('L9', 'slimta.relay.pool.RelayPoolClient', 'no pool client '
               'hands a peer exchange to another greenlet',
               reason='no spawn(self.<peer talker>) in the client classes',
               nontrivial=False)


# --------------------------------------------------------------------- L11
def l11(e: Engine, rep: Report):
    n = 0
    for f in e.p.functions.values():
        if not f.module.name.startswith('slimta.relay'):
            continue
        owner = f.cls.qname if f.cls is not None else None
        client = owner is not None and (
            owner == pool.POOL_CLIENT or
            e.p.is_subclass(owner, pool.POOL_CLIENT))
        for c in walk_own(f.node):
            if not (isinstance(c, ast.Call) and
                    isinstance(c.func, ast.Attribute) and
                    c.func.attr in ('set', 'set_exception') and
                    isinstance(c.func.value, ast.Name)):
                continue
            # only results that are requests: not an Event().set()
            recv = c.func.value.id
            if 'result' not in recv.lower() and 'request' not in \
                    recv.lower():
                continue
            n += 1
            rep.evaluations += 1
            rep.functions.add(f.qname)
            rep.check(client, 'L11', f.qname, '`%s`' % ' '.join(
                ast.unparse(c).split())[:50],
                '%s settles a request although it is not the client that '
                'polled it: the client may have given the request back to '
                'the queue (server timed out the idle session) or be about '
                'to settle it itself - the attempt is told one outcome '
                'while the request goes on to another' % f.qname,
                loc=f.loc(c), reason='inside a pool client')
    if n < 5:
        rep.error('anchor vanished: request settle sites (%d < 5)' % n)


# --------------------------------------------------------------------- L12
def l12(e: Engine, rep: Report, rule: str = 'L12'):
    n = 0
    for f in e.p.functions.values():
        if not f.module.name.startswith('slimta.relay'):
            continue
        for c in walk_own(f.node):
            if not (isinstance(c, ast.Call) and
                    isinstance(c.func, ast.Attribute) and
                    c.func.attr in ('kill', 'killall', 'killone')):
                continue
            n += 1
            rep.evaluations += 1
            rep.functions.add(f.qname)
            own = {'kill', '__del__'}
            if f.cls is not None:
                own = common.owner_closure(e, f.cls.qname, own)
            rep.check(f.name in own, rule, f.qname,
                      '`%s`' % ' '.join(ast.unparse(c).split())[:50],
                      '%s kills relay greenlets outside shutdown: a client '
                      'killed in the middle of a delivery (or with requests '
                      'waiting in its pool\'s queue) never settles them - '
                      'the attempt waits for ever, the message stays in '
                      'flight and is neither retried nor bounced'
                      % f.qname, loc=f.loc(c), reason='inside kill()')
    if n < 1:
        rep.error('anchor vanished: kill sites of the relay modules (%d < 1)'
                  % n)


# --------------------------------------------------------------------- L13
def l13(e: Engine, rep: Report):
    HC = 'slimta.relay.http.HttpRelayClient'
    ctx = e.method_ctx(HC, '_run')
    g = e.build(ctx, inline=e.inline_same_self(
        deny=['poll', '_handle_request', '_process_response']), max_depth=3,
        raises=lambda b, n, r: {'ANY'} if n.kind == 'call' and
        e.call_name(n) in ('_handle_request',) else set())
    where = ctx.func.qname
    rep.functions.add(where)
    polls = [n for n in g.calls() if e.call_name(n) == 'poll']
    hs = [h for h in g.of_kind('handler')]
    rep.evaluations += 1
    if not polls:
        rep.unknown('L13', where, 'failed exchange drops the connection',
                    'no poll() in the client loop', loc=ctx.func.loc())
        return

    def step(n, label, st):
        if isinstance(label, tuple):
            return st
        if n.kind == 'stmt' and isinstance(n.ast, ast.Assign) and any(
                (path_of(t, n.frame) or '') == 'self.conn'
                for t in n.ast.targets):
            return True
        if n.kind in ('call', 'call_enter') and e.call_name(n) in (
                '_close_conn', '_discard_conn', '_new_conn'):
            return True
        return st
    bad = None
    for h in hs:
        w = dataflow.typestate_witness(
            g, False, step, lambda n, st: n in polls and not st, start=h)
        if w:
            bad = (h, w)
            break
    rep.check(bad is None, 'L13', where,
              'no arm resumes the loop with the connection as it was',
              'after `%s` the client polls for the next request without '
              'having closed or replaced self.conn: the HTTPConnection is '
              'still in the middle of the failed request, so the next '
              'message is refused by http.client itself and reported as '
              'failed although the server is fine' % (
                  bad[0].text(40) if bad else ''),
              loc=bad[0].loc() if bad else ctx.func.loc(),
              reason='every arm ends the loop or resets the connection',
              witness=dataflow.render_path(bad[1], 12) if bad else None)


# --------------------------------------------------------------------- L14
POOL_GROWTH_YIELDERS = {
    'getaddrinfo': 'gevent.socket.getaddrinfo resolves in the hub / a thread',
    'gethostbyname': 'name resolution',
    'gethostbyname_ex': 'name resolution',
    'gethostbyaddr': 'name resolution',
    'getfqdn': 'name resolution',
    'create_connection': 'connects',
    'connect': 'connects',
    'sleep': 'gevent.sleep',
    'wait': 'Event / AsyncResult wait',
    'wait_read': 'waits on a socket',
    'wait_write': 'waits on a socket',
    'join': 'waits for a greenlet',
    'joinall': 'waits for greenlets',
    'get': None,            # judged only on AsyncResult-like receivers
    'query': 'DNS query',
    'recv': 'socket read',
    'send': 'socket write',
    'sendall': 'socket write',
    'acquire': 'may wait for a lock',
    'wrap_socket': 'TLS handshake',
}


def l14(e: Engine, rep: Report):
    n = 0
    for cq in sorted(set([POOL] + list(e.concrete_classes(POOL)))):
        c = e.p.classes.get(cq)
        if c is None:
            continue
        ctx = e.method_ctx(cq, '_add_client')
        g = e.build(ctx, raises=lambda b, nn, r: set(),
                    inline=e.inline_same_self(), max_depth=4)
        adds = [x for x in g.calls() if e.call_name(x) in ('add', 'update')
                and canon(x.ast.func.value, x.frame) == 'self.pool']
        if not adds:
            continue
        n += 1
        where = '%s[%s]' % (ctx.func.qname, cq.rpartition('.')[2])
        for fr in {x.frame for x in g.nodes}:
            rep.functions.add(fr.ctx.func.qname)
        # what can run before the client is in the pool
        pre = dataflow.reachable(
            g, g.entry, lambda p0, l, s2: not isinstance(l, tuple) and
            p0 not in adds)
        for x in g.calls():
            nm = e.call_name(x)
            if nm not in POOL_GROWTH_YIELDERS or x.id not in pre:
                continue
            if nm == 'get' and not any(
                    w in ast.unparse(x.ast.func.value).lower()
                    for w in ('result', 'event', 'async', 'greenlet')):
                continue
            # (calls on the client object that was just made are its own
            # start-up: Greenlet.start() does not switch)
            rep.evaluations += 1
            rep.bad('L14', where, '`%s` before the client is in the pool'
                    % x.text(40),
                    '%s calls %s() (%s) between the size test of '
                    '_check_idle and pool.add(): the greenlet can be '
                    'switched out there, and every attempt that arrives '
                    'meanwhile also finds the pool below its bound - more '
                    'connections are opened at once than pool_size allows'
                    % (x.frame.ctx.func.qname, nm,
                       POOL_GROWTH_YIELDERS.get(nm) or 'blocks'),
                    loc=x.loc())
    rep.evaluations += 1
    if n < 2:
        rep.error('anchor vanished: _add_client / pool.add of the relay '
                  'pools (%d < 2)' % n)
    else:
        rep.ok('L14', POOL, 'growth paths scanned', reason='%d pool classes'
               % n, nontrivial=False)


# --------------------------------------------------------------------- L15
def l15(e: Engine, rep: Report):
    takers = {'popleft', 'pop', 'clear', 'remove', 'get', 'get_nowait'}
    owners = common.owner_closure(e, pool.POOL_CLIENT, {'poll'})
    n = 0
    for f in sorted(e.p.functions.values(), key=lambda f: f.qname):
        if not f.module.name.startswith('slimta.relay'):
            continue
        for x in walk_own(f.node):
            # (called, or handed to a runner as a bound method)
            if not (isinstance(x, ast.Attribute) and
                    isinstance(x.ctx, ast.Load) and x.attr in takers and
                    ast.unparse(x.value) in ('self.queue',
                                             'self.relay.queue')):
                continue
            n += 1
            rep.evaluations += 1
            rep.functions.add(f.qname)
            ok = f.cls is not None and (
                f.cls.qname == pool.POOL_CLIENT and f.name in owners)
            rep.check(ok, 'L15', f.qname, '`%s`' % ' '.join(
                ast.unparse(x).split())[:40],
                '%s takes requests off the pool queue outside poll(): they '
                'are settled (or dropped) without having been attempted by '
                'anybody, the outcome reported for them is that of another '
                'envelope' % f.qname, loc=f.loc(x),
                reason='inside RelayPoolClient.poll')
    if n < 1:
        rep.error('anchor vanished: queue.popleft() in RelayPoolClient.poll')


def _names_of(text):
    import re as _re
    try:
        return list(ast.walk(ast.parse(_re.sub(r'#\d+', '', text),
                                       mode='eval')))
    except SyntaxError:
        return []


# ---------------------------------------------------------------------- L16
def l16(e: Engine, rep: Report):
    FILL = ('update', 'append', 'add', 'setdefault', 'extend', 'insert',
            'appendleft')
    classes = [cq for cq in sorted(e.p.classes) if cq.startswith(
        ('slimta.relay.smtp.client.', 'slimta.relay.smtp.lmtpclient.'))]
    if not classes:
        rep.error('anchor vanished: relay client classes')
        return

    def self_attr(x, name=None):
        return isinstance(x, ast.Attribute) and \
            isinstance(x.value, ast.Name) and x.value.id == 'self' and \
            (name is None or x.attr == name)
    found = 0
    for cq in classes:
        c = common.merged_class(e, cq)
        rep.evaluations += 1
        filled = {}
        for mname, m in c.methods.items():
            if mname == '__init__':
                continue
            for x in walk_own(m.node):
                if isinstance(x, ast.Call) and \
                        isinstance(x.func, ast.Attribute) and \
                        x.func.attr in FILL and self_attr(x.func.value):
                    filled.setdefault(x.func.value.attr, (m, x))
                if isinstance(x, (ast.Assign, ast.AugAssign)):
                    tg = x.targets if isinstance(x, ast.Assign) \
                        else [x.target]
                    for t in tg:
                        if isinstance(t, ast.Subscript) and \
                                self_attr(t.value):
                            filled.setdefault(t.value.attr, (m, x))
        for attr, (fm, fx_) in sorted(filled.items()):
            # read into a result?
            into = False
            for m in c.methods.values():
                for st in walk_own(m.node):
                    if isinstance(st, ast.stmt) and not isinstance(
                            st, (ast.If, ast.For, ast.While, ast.Try,
                                 ast.With, ast.FunctionDef)):
                        names = {y.id for y in ast.walk(st)
                                 if isinstance(y, ast.Name)}
                        if any(self_attr(y, attr) for y in ast.walk(st)) \
                                and names & {'rcpt_results', 'result',
                                             'results'}:
                            into = True
            if not into:
                continue
            # the client's own container: created empty in an __init__ of
            # the class (the pool's request queue is handed in, not owned)
            own = False
            for k in e.p.mro(cq):
                kc = e.p.classes.get(k)
                init = kc.methods.get('__init__') if kc else None
                for st in (walk_own(init.node) if init else ()):
                    if isinstance(st, ast.Assign) and any(
                            self_attr(t, attr) for t in st.targets) and (
                            isinstance(st.value, (ast.Dict, ast.List,
                                                  ast.Set)) or (
                                isinstance(st.value, ast.Call) and
                                not st.value.args and
                                ast.unparse(st.value.func).rpartition(
                                    '.')[2] in ('dict', 'list', 'set',
                                                'OrderedDict', 'deque',
                                                'defaultdict'))):
                        own = True
            if not own:
                continue
            found += 1
            d = c.methods.get('_deliver')
            ok = False
            if d is not None:
                def resets(st):
                    if isinstance(st, ast.Assign) and any(
                            self_attr(t, attr) for t in st.targets):
                        return True
                    return isinstance(st, ast.Expr) and \
                        isinstance(st.value, ast.Call) and \
                        isinstance(st.value.func, ast.Attribute) and \
                        st.value.func.attr == 'clear' and \
                        self_attr(st.value.func.value, attr)
                for st in d.node.body:
                    if resets(st):
                        ok = True
                        break
                    if isinstance(st, ast.Try) and any(
                            resets(z) for z in st.finalbody):
                        ok = True
                        break
                    if any(self_attr(y, attr) for y in ast.walk(st)):
                        break
            rep.check(ok, 'L16', fm.qname,
                      'per-message container self.%s is emptied where a '
                      'message starts' % attr,
                      'self.%s is filled while a message is delivered and '
                      'read into its result, but _deliver does not empty it '
                      'before using it (nor in a finally): whatever way out '
                      'of a transaction misses the reset - a message refused '
                      'at end-of-data, a dropped connection that is answered '
                      'by a retry - leaves its entries to be reported for '
                      'the next envelope on this connection (a recipient '
                      'the server accepted is reported with the previous '
                      'message\'s refusal)' % attr, loc=fm.loc(fx_),
                      reason='reset at the top of _deliver / in its finally')
    if not found:
        rep.ok('L16', ', '.join(x.rpartition('.')[2] for x in classes),
               'the relay clients keep no per-message container on '
               'themselves', reason='%d classes looked at' % len(classes))
