"""Helpers shared by several rule modules."""
from __future__ import annotations

import ast
from typing import Optional

from ..cfg import Node, Scope, TIMEOUT, ANY
from ..engine import Engine
from ..resolve import Ctx

TIMEOUT_QNAMES = ('gevent.Timeout', 'gevent.timeout.Timeout')


def is_timeout_ctor(e: Engine, expr, ctx: Ctx) -> bool:
    if not isinstance(expr, ast.Call):
        return False
    q = e.p.resolve_expr_qname(ctx.func.module, expr.func)
    return q in TIMEOUT_QNAMES


def timeout_scope(e: Engine, sc: Scope) -> bool:
    """`with Timeout(<something that is not the constant None>)`."""
    if sc.kind != 'with':
        return False
    ce = sc.ast.context_expr
    if not is_timeout_ctor(e, ce, sc.frame.ctx):
        return False
    if not ce.args and not ce.keywords:
        return False
    a0 = ce.args[0] if ce.args else ce.keywords[0].value
    if isinstance(a0, ast.Constant) and a0.value is None:
        return False
    return True


def timeout_arg_text(sc: Scope) -> str:
    ce = sc.ast.context_expr
    a0 = ce.args[0] if ce.args else (ce.keywords[0].value if ce.keywords
                                     else None)
    return ast.unparse(a0) if a0 is not None else ''


def reply_constant_code(e: Engine, expr, ctx: Ctx) -> Optional[str]:
    """Code of a module-level `NAME = Reply('<code>', ...)` constant that
    `expr` (a Name / Attribute) refers to."""
    q = e.p.resolve_expr_qname(ctx.func.module, expr)
    if not q:
        return None
    mod, _, name = q.rpartition('.')
    m = e.p.modules.get(mod)
    if m is None or name not in m.globals:
        return None
    v = m.globals[name]
    if isinstance(v, ast.Call) and ast.unparse(v.func).endswith('Reply') \
            and v.args and isinstance(v.args[0], ast.Constant):
        return v.args[0].value
    return None


def chain_text(node: Node) -> list:
    """Inline stack of a node as 'file:line func' entries."""
    out = []
    for fr in node.frame.chain():
        if fr.call is not None and fr.parent is not None:
            out.append('%s: %s' % (fr.parent.ctx.func.loc(fr.call),
                                   ' '.join(ast.unparse(fr.call).split())[:70]))
    out.append('%s: %s' % (node.loc(), node.text(70)))
    return out


def chain_funcs(node: Node) -> str:
    return ' -> '.join(fr.ctx.func.name for fr in node.frame.chain())
