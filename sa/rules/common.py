"""Helpers shared by several rule modules."""
from __future__ import annotations

import ast
from typing import Optional

from ..cfg import Node, Scope, TIMEOUT, ANY
from ..engine import Engine
from ..resolve import Ctx

TIMEOUT_QNAMES = ('gevent.Timeout', 'gevent.timeout.Timeout')


def is_timeout_ctor(e: Engine, expr, ctx: Ctx) -> bool:
    if not isinstance(expr, ast.Call):
        return False
    q = e.p.resolve_expr_qname(ctx.func.module, expr.func)
    return q in TIMEOUT_QNAMES


def timeout_scope(e: Engine, sc: Scope) -> bool:
    """`with Timeout(<something that is not the constant None>)`."""
    if sc.kind != 'with':
        return False
    ce = sc.ast.context_expr
    fac = timeout_factory(e, ce, sc.frame.ctx)
    if fac is not None:
        ce = fac
    elif not is_timeout_ctor(e, ce, sc.frame.ctx):
        return False
    if not ce.args and not ce.keywords:
        return False
    a0 = ce.args[0] if ce.args else ce.keywords[0].value
    if isinstance(a0, ast.Constant) and a0.value is None:
        return False
    return True


def timeout_factory(e: Engine, ce, ctx: Ctx):
    """`with self._bounded_wait():` - the Timeout(...) constructor call a
    helper whose whole body is `return Timeout(...)` hands back"""
    if not isinstance(ce, ast.Call) or is_timeout_ctor(e, ce, ctx):
        return None
    try:
        r = e.r.resolve_call(ce, ctx)
    except Exception:
        return None
    if len(r.targets) != 1:
        return None
    t = r.targets[0]
    body = [st for st in t.func.node.body
            if not (isinstance(st, ast.Expr) and
                    isinstance(st.value, ast.Constant))]
    if len(body) == 1 and isinstance(body[0], ast.Return) and \
            body[0].value is not None and \
            is_timeout_ctor(e, body[0].value, Ctx(t.func, t.self_cls)
                            if hasattr(t, 'self_cls') else Ctx(t.func)):
        return body[0].value
    return None


def timeout_arg_text(sc: Scope) -> str:
    ce = sc.ast.context_expr
    if isinstance(ce, ast.Call) and not (ce.args or ce.keywords):
        return ast.unparse(ce)
    a0 = ce.args[0] if ce.args else (ce.keywords[0].value if ce.keywords
                                     else None)
    return ast.unparse(a0) if a0 is not None else ''


def reply_constant_code(e: Engine, expr, ctx: Ctx) -> Optional[str]:
    """Code of a module-level `NAME = Reply('<code>', ...)` constant that
    `expr` (a Name / Attribute) refers to."""
    q = e.p.resolve_expr_qname(ctx.func.module, expr)
    if not q:
        return None
    mod, _, name = q.rpartition('.')
    m = e.p.modules.get(mod)
    if m is None or name not in m.globals:
        return None
    v = m.globals[name]
    if isinstance(v, ast.Call) and ast.unparse(v.func).endswith('Reply') \
            and v.args and isinstance(v.args[0], ast.Constant):
        return v.args[0].value
    return None


def chain_text(node: Node) -> list:
    """Inline stack of a node as 'file:line func' entries."""
    out = []
    for fr in node.frame.chain():
        if fr.call is not None and fr.parent is not None:
            out.append('%s: %s' % (fr.parent.ctx.func.loc(fr.call),
                                   ' '.join(ast.unparse(fr.call).split())[:70]))
    out.append('%s: %s' % (node.loc(), node.text(70)))
    return out


def chain_funcs(node: Node) -> str:
    return ' -> '.join(fr.ctx.func.name for fr in node.frame.chain())


def decided_tests(e, g, w):
    """tests on the witness path w whose outcome the tracked values settle
    (`kind in _SETTLED` with kind = the constant a helper returned on this
    very path): they are evidence, not guesses"""
    nul = Nullness(g, e)
    ns = frozenset()
    out = set()
    for n, label in w or []:
        if n.kind == 'test' and label in ('T', 'F') and \
                nul._eval(n.ast, n.frame, ns) is not None:
            out.add(n)
        if label is None:
            break
        r = nul.step(n, label, ns)
        if r == 'infeasible':
            break
        ns = r
    return out


def unguarded_path(e, g, site, alternatives, start=None, site_ok=None):
    """Path from entry to `site` on which none of the alternative atoms
    (list of (pol, key)) was established by a branch test, or None.
    Use for disjunctive guards (`if not a or b < c: site()`), which a
    must-facts intersection cannot express."""
    from ..facts import atoms_of_test, key_paths
    from .. import dataflow
    alts = set(alternatives)
    paths = set()
    for p, k in alts:
        paths |= set(key_paths(k))

    nul = Nullness(g, e)

    def assigns_mentioned(n):
        if n.kind != 'stmt':
            return False
        import ast as _ast
        from ..facts import path_of
        a = n.ast
        tg = a.targets if isinstance(a, _ast.Assign) else (
            [a.target] if isinstance(a, (_ast.AugAssign, _ast.AnnAssign))
            else [])
        return any(path_of(el, n.frame) in paths for t in tg
                   for el in _ast.walk(t))

    def step(n, label, st0):
        st, ns, seen = st0
        ns2 = nul.step(n, label, ns)
        if ns2 == 'infeasible':
            return None
        # what the path has already learnt about the guarded value: a later
        # test of the same thing cannot come out the other way (the same
        # condition tested twice, `ok = a or b; if ok or c: ...; if not ok`)
        if assigns_mentioned(n) or n.kind == 'iter':
            seen = frozenset()
        elif n.kind == 'test' and label in ('T', 'F'):
            new = set(seen)
            for p0, k0 in atoms_of_test(n.ast, label == 'T', n.frame):
                if not (set(key_paths(k0)) & paths):
                    continue
                if (not p0, k0) in seen:
                    return None
                new.add((p0, k0))
            seen = frozenset(new)
        r = step1(n, label, st)
        return (r, ns2, seen)

    def step1(n, label, st):
        if st:
            # an assignment to a mentioned path invalidates the guard
            if n.kind == 'stmt':
                import ast as _ast
                a = n.ast
                tg = []
                if isinstance(a, _ast.Assign):
                    tg = a.targets
                elif isinstance(a, (_ast.AugAssign, _ast.AnnAssign)):
                    tg = [a.target]
                from ..facts import path_of
                for t in tg:
                    if path_of(t, n.frame) in paths:
                        return False
            return True
        if n.kind == 'call_return' and n.extra.get('ret_class') and \
                not isinstance(label, tuple):
            from ..facts import canon as _canon
            try:
                atom = (n.extra['ret_class'] == 'T', _canon(n.ast, n.frame))
            except Exception:
                atom = None
            if atom in alts:
                return True
        if n.kind == 'test' and label in ('T', 'F'):
            for atom in atoms_of_test(n.ast, label == 'T', n.frame):
                if atom in alts:
                    return True
            # the edge establishes a disjunction (false edge of `a and b`,
            # true edge of `a or b`) every member of which is an alternative
            import ast as _ast
            t = n.ast
            if isinstance(t, _ast.BoolOp) and (
                    (label == 'F' and isinstance(t.op, _ast.And)) or
                    (label == 'T' and isinstance(t.op, _ast.Or))):
                ok = True
                for v in t.values:
                    ats = atoms_of_test(v, label == 'T', n.frame)
                    if len(ats) != 1 or ats[0] not in alts:
                        ok = False
                if ok:
                    return True
        return False
    # site_ok(get): restricts the search to arrivals at the site with
    # certain tracked values (get(path) = 'none' / ('c', repr) / None)
    return dataflow.typestate_witness(
        g, (False, frozenset(), frozenset()), step,
        lambda n, st: n is site and not st[0] and (
            site_ok is None or site_ok(lambda q: nul._get(st[1], q))),
        start=start)


def per_iteration_counts(g, lp, count, cap=3):
    """Set of possible numbers of counted events in ONE iteration of the loop
    headed by iter node `lp` (paths from the 'body' edge back to the head;
    iterations left by break/return/raise are not included)."""
    from .. import dataflow
    starts = [s for l, s in lp.succ if l == 'body']
    if not starts:
        return frozenset()
    out = set()
    for st0 in starts:
        def transfer(n, st):
            if n is lp:
                return None           # do not run into the next iteration
            c = count(n)
            if not c:
                return st
            new = frozenset(min(cap, x + c) for x in st)
            return {None: new, 'exc': st}
        IN = dataflow.forward(g, frozenset([0]), transfer,
                              lambda a, b: a | b, start=st0)
        for l, p in lp.pred:
            if p.id in IN and p is not lp and l != 'body':
                st = IN[p.id]
                c = count(p)
                if isinstance(l, tuple):
                    continue
                out |= set(min(cap, x + c) for x in st) if c else set(st)
    return frozenset(out)


SNAPSHOT_CALLS = {'list', 'tuple', 'sorted', 'copy', 'deepcopy'}


def _snapshot_of(x: ast.AST):
    """text of L when x is a copy of L taken for iteration, else None"""
    if isinstance(x, ast.Call):
        fn = x.func
        nm = fn.attr if isinstance(fn, ast.Attribute) else (
            fn.id if isinstance(fn, ast.Name) else '')
        if nm in SNAPSHOT_CALLS and len(x.args) == 1 and \
                isinstance(fn, (ast.Name, ast.Attribute)) and not (
                    isinstance(fn, ast.Attribute) and nm == 'copy' and
                    not x.args):
            return ast.unparse(x.args[0])
        if isinstance(fn, ast.Attribute) and nm == 'copy' and not x.args:
            return ast.unparse(fn.value)
    if isinstance(x, ast.Subscript) and isinstance(x.slice, ast.Slice) and \
            x.slice.lower is None and x.slice.upper is None:
        return ast.unparse(x.value)
    return None


def stale_index_sites(fn: ast.AST):
    """Positional updates of a list L that can change its length, made with
    an index that enumerates a *snapshot* of L taken before the loop: after
    the first length-changing update the index no longer denotes the element
    it was paired with.  Yields (loop, site, list text, index name)."""
    for lp in ast.walk(fn):
        if not isinstance(lp, ast.For):
            continue
        it = lp.iter
        if not (isinstance(it, ast.Call) and
                ast.unparse(it.func) == 'enumerate' and it.args and
                isinstance(lp.target, ast.Tuple) and lp.target.elts and
                isinstance(lp.target.elts[0], ast.Name)):
            continue
        L = _snapshot_of(it.args[0])
        if L is None:
            continue
        i = lp.target.elts[0].id

        def uses_i(x):
            return any(isinstance(y, ast.Name) and y.id == i
                       for y in ast.walk(x))
        for st in lp.body:
            for n in ast.walk(st):
                tgs = []
                if isinstance(n, ast.Assign):
                    tgs = [t for t in n.targets
                           if isinstance(t, ast.Subscript) and
                           isinstance(t.slice, ast.Slice)]
                elif isinstance(n, ast.Delete):
                    tgs = [t for t in n.targets
                           if isinstance(t, ast.Subscript)]
                for t in tgs:
                    if ast.unparse(t.value) == L and uses_i(t.slice):
                        yield lp, n, L, i
                if isinstance(n, ast.Call) and \
                        isinstance(n.func, ast.Attribute) and \
                        n.func.attr in ('insert', 'pop') and \
                        ast.unparse(n.func.value) == L and n.args and \
                        uses_i(n.args[0]):
                    yield lp, n, L, i


def while_heads(g, fn_frame=None):
    """[(head nop node, ast.While)] of the while loops in the graph"""
    return [(n, n.extra['loop_head']) for n in g.nodes
            if n.kind == 'nop' and n.extra.get('loop_head') is not None
            and (fn_frame is None or n.frame is fn_frame)]


def while_iteration_counts(g, head, count, cap=3):
    """Like per_iteration_counts, for a `while` loop given by its head node:
    possible numbers of counted events on one trip from the head back to the
    head (trips that leave the loop are not included)."""
    from .. import dataflow

    def transfer(n, st):
        c = count(n)
        if not c:
            return st
        new = frozenset(min(cap, x + c) for x in st)
        return {None: new, 'exc': st}
    out = set()
    wast = head.extra.get('loop_head')

    def inside(n):
        return n is head or any(sc.kind == 'loop' and sc.ast is wast
                                for sc in n.scopes)
    for l0, s0 in head.succ:
        def tr(n, st):
            if n is head or not inside(n):
                return None
            return transfer(n, st)
        IN = dataflow.forward(g, frozenset([0]), tr, lambda a, b: a | b,
                              start=s0)
        for l, p in head.pred:
            if p.id in IN and not isinstance(l, tuple):
                st = IN[p.id]
                c = count(p)
                out |= set(min(cap, x + c) for x in st) if c else set(st)
    return frozenset(out)


def value_of(g, stmt_or_expr, frame, depth=0):
    """(expression, frame) a value really is: follows `x = helper(...)` /
    `return helper(...)` into a helper that was inlined and has a single
    return statement."""
    import ast as _ast
    ex = stmt_or_expr
    if depth > 4 or not isinstance(ex, _ast.Call):
        return ex, frame
    kids = [c for c in getattr(frame, 'children', ())
            if c.call is ex or getattr(c.call, '_orig', None) is ex]
    if len(kids) != 1:
        return ex, frame
    callee = kids[0]
    from ..model import walk_own
    rets = [r for r in walk_own(callee.ctx.func.node)
            if isinstance(r, _ast.Return)]
    if len(rets) != 1 or rets[0].value is None:
        return ex, frame
    return value_of(g, rets[0].value, callee, depth + 1)


def values_of(g, ex, frame, depth=0):
    """All (expression, frame) pairs a value may be: follows an inlined
    helper into each of its return statements."""
    import ast as _ast
    if depth > 4 or not isinstance(ex, _ast.Call):
        return [(ex, frame)]
    kids = [c for c in getattr(frame, 'children', ())
            if c.call is ex or getattr(c.call, '_orig', None) is ex]
    if len(kids) != 1:
        return [(ex, frame)]
    callee = kids[0]
    from ..model import walk_own
    out = []
    for r in walk_own(callee.ctx.func.node):
        if isinstance(r, _ast.Return) and r.value is not None:
            out += values_of(g, r.value, callee, depth + 1)
    return out or [(ex, frame)]


def owner_closure(e, cls_qname: str, owners):
    """`owners` (method names of the class) plus every private method of the
    class that is referenced from members of the closure only: a helper
    extracted from an owner is part of it."""
    import ast as _ast
    from ..model import walk_own
    out = set(owners)
    if e.p.classes.get(cls_qname) is None:
        return out
    c = merged_class(e, cls_qname)
    refs = {}
    for mname, m in c.methods.items():
        for x in walk_own(m.node):
            if isinstance(x, _ast.Attribute) and isinstance(
                    x.value, _ast.Name) and x.value.id in (
                        'self', 'cls', c.name) and \
                    x.attr in c.methods and x.attr != mname:
                refs.setdefault(x.attr, set()).add(mname)
    changed = True
    while changed:
        changed = False
        for mname in c.methods:
            if mname not in out and mname.startswith('_') and \
                    refs.get(mname) and refs[mname] <= out:
                out.add(mname)
                changed = True
    return out


def class_constants(e, cls_qname: str):
    """{attribute name: constant value} assigned in the class body"""
    import ast as _ast
    c = e.p.classes.get(cls_qname)
    out = {}
    if c is None:
        return out
    def folded(x):
        # CONST + EARLIER_NAME (bytes / str built from earlier constants)
        if isinstance(x, _ast.Constant):
            return x.value
        if isinstance(x, _ast.Name) and x.id in out:
            return out[x.id]
        if isinstance(x, _ast.BinOp) and isinstance(x.op, _ast.Add):
            a, b = folded(x.left), folded(x.right)
            if type(a) is type(b) and isinstance(a, (bytes, str)):
                return a + b
        return _MC_MISSING
    for st in c.node.body:
        if isinstance(st, _ast.Assign) and isinstance(st.value,
                                                       _ast.Constant):
            for t in st.targets:
                if isinstance(t, _ast.Name):
                    out[t.id] = st.value.value
        elif isinstance(st, _ast.Assign) and \
                isinstance(st.value, _ast.BinOp) and \
                folded(st.value) is not _MC_MISSING:
            for t in st.targets:
                if isinstance(t, _ast.Name):
                    out[t.id] = folded(st.value)
        elif isinstance(st, _ast.Assign) and len(st.targets) == 1 and \
                isinstance(st.targets[0], (_ast.Tuple, _ast.List)) and all(
                    isinstance(t, _ast.Name) for t in st.targets[0].elts):
            names = [t.id for t in st.targets[0].elts]
            v = st.value
            vals = None
            if isinstance(v, (_ast.Tuple, _ast.List)) and all(
                    isinstance(x, _ast.Constant) for x in v.elts):
                vals = [x.value for x in v.elts]
            elif isinstance(v, _ast.Call) and isinstance(v.func, _ast.Name) \
                    and v.func.id == 'range' and len(v.args) == 1 and \
                    isinstance(v.args[0], _ast.Constant) and \
                    isinstance(v.args[0].value, int):
                # A, B, C = range(3)
                vals = list(range(v.args[0].value))
            if vals is not None and len(vals) == len(names):
                out.update(zip(names, vals))
    return out


def derived_paths(g, seeds):
    """Paths of locals whose value is computed from one of `seeds`
    (canonical paths), transitively, by an assignment somewhere in g."""
    import ast as _ast
    import re as _re
    from ..facts import path_of, canon
    out = set(seeds)
    assigns = []
    for n in g.of_kind('stmt'):
        if isinstance(n.ast, _ast.Assign):
            try:
                text = canon(n.ast.value, n.frame)
            except Exception:
                text = _ast.unparse(n.ast.value)
            tps = []
            for t in n.ast.targets:
                for el in (t.elts if isinstance(t, (_ast.Tuple, _ast.List))
                           else [t]):
                    q = path_of(el, n.frame)
                    if q:
                        tps.append(q)
            assigns.append((tps, text))

    def mentions(text, p):
        return _re.search(_re.escape(p) + r'(?![\w#])', text) is not None
    changed = True
    while changed:
        changed = False
        for tps, text in assigns:
            if any(mentions(text, p) for p in out):
                for q in tps:
                    if q not in out:
                        out.add(q)
                        changed = True
    return out - set(seeds)


def content_paths(g, seeds):
    """Paths of locals that merely name a part of one of `seeds`: bound
    (only) to an attribute chain of it - `reply = res.reply`.  A test of
    such a value looks at the CONTENT of the classified object, it is not a
    tag its class was mapped to."""
    import ast as _ast
    from ..facts import path_of
    out = set(seeds)
    changed = True
    while changed:
        changed = False
        for n in g.of_kind('stmt'):
            if not (isinstance(n.ast, _ast.Assign) and
                    len(n.ast.targets) == 1 and
                    isinstance(n.ast.targets[0], _ast.Name)):
                continue
            v = n.ast.value
            base = v
            while isinstance(base, _ast.Attribute):
                base = base.value
            if not isinstance(v, _ast.Attribute) or \
                    not isinstance(base, _ast.Name):
                continue
            try:
                from ..facts import canon as _canon
                bp = _canon(base, n.frame)
            except Exception:
                bp = path_of(base, n.frame)
            q = path_of(n.ast.targets[0], n.frame)
            if (bp in out or path_of(base, n.frame) in out) and q and \
                    q not in out:
                out.add(q)
                changed = True
    return out - set(seeds)


def opaque_tests(w, derived, content=()):
    """tests on the witness path w that look at a value computed from the
    classified one (a tag, a flag): the path may be infeasible for reasons
    this analysis cannot see.  Tests of the classified object's own content
    (`reply.code == '552'` with `reply = res.reply`) are not tags: they do
    not make the path undecidable."""
    import re as _re
    from ..facts import canon
    out = []
    for n, label in w or []:
        if n.kind != 'test':
            continue
        try:
            text = canon(n.ast, n.frame)
        except Exception:
            continue
        if any(_re.search(_re.escape(p) + r'(?![\w#])', text)
               for p in derived if p not in content):
            out.append(n)
    return out


def tolerates(n, names=('OSError', 'IOError', 'EnvironmentError',
                        'Exception', 'BaseException',
                        'FileNotFoundError')):
    """Is CFG node n inside `try ... except <one of names>` or
    `with suppress(<one of names>)`?"""
    import ast as _ast
    for sc in n.scopes:
        if sc.kind == 'try':
            for types, h in sc.data.get('handlers', []):
                if any(t.rpartition('.')[2] in names for t in types) or \
                        not types:
                    return True
        if sc.kind == 'with':
            items = getattr(sc.ast, 'items', None) or [sc.ast]
            for it in items:
                if not hasattr(it, 'context_expr'):
                    continue
                ce = it.context_expr
                if isinstance(ce, _ast.Call) and \
                        _ast.unparse(ce.func).endswith('suppress') and any(
                            _ast.unparse(a).rpartition('.')[2] in names
                            for a in ce.args):
                    return True
    return False


class Nullness:
    """Path-sensitive tracking of whether a local is None, for locals that
    are assigned from an inlined helper with several returns
    (`x = self._next()`; `while x is not None:`).  Use as a component of a
    typestate: st = nul.step(node, label, st) returns the new component or
    the string 'infeasible'.  Component: dict-like frozenset of
    (var path, 'none'|'obj') plus ('$ret', ...) for the value in flight."""

    def __init__(self, g, e=None):
        import ast as _ast
        from ..facts import path_of
        self.g = g
        self.e = e
        self._cc = {}
        self.assign_of_call = {}     # id(call ast) -> var path
        for n in g.of_kind('stmt'):
            if isinstance(n.ast, _ast.Assign) and \
                    isinstance(n.ast.value, _ast.Call) and \
                    len(n.ast.targets) == 1 and \
                    isinstance(n.ast.targets[0], _ast.Name):
                self.assign_of_call[id(n.ast.value)] = (
                    path_of(n.ast.targets[0], n.frame), n)
            elif isinstance(n.ast, _ast.Assign) and \
                    isinstance(n.ast.value, _ast.Call) and \
                    len(n.ast.targets) == 1 and \
                    isinstance(n.ast.targets[0], (_ast.Tuple, _ast.List)) \
                    and all(isinstance(x, _ast.Name)
                            for x in n.ast.targets[0].elts):
                # a, b = helper(): one value per element
                self.assign_of_call[id(n.ast.value)] = (
                    [path_of(x, n.frame) for x in n.ast.targets[0].elts], n)
        # helper(other_helper(...)): the value in flight is what the
        # parameter is bound to
        self.param_of_call = {}
        for n in g.of_kind('bind'):
            a = n.extra.get('arg')
            if isinstance(a, _ast.Call) and not n.extra.get('is_self'):
                q = path_of(_ast.Name(id=n.extra['param'], ctx=_ast.Load()),
                            n.frame)
                if q:
                    self.param_of_call[id(a)] = q

    @staticmethod
    def _set(st, key, val):
        return frozenset((k, v) for k, v in st if k != key) | (
            frozenset([(key, val)]) if val is not None else frozenset())

    @staticmethod
    def _get(st, key):
        for k, v in st:
            if k == key:
                return v
        return None

    def step(self, n, label, st):
        import ast as _ast
        from ..facts import atoms_of_test
        if isinstance(label, tuple):
            return st
        if n.kind == 'bind' and isinstance(n.extra.get('arg'), _ast.Call) \
                and id(n.extra['arg']) in self.param_of_call:
            r = self._get(st, '$ret')
            st = self._set(st, '$ret', None)
            if isinstance(r, tuple) and r[0] == 't':
                r = 'obj'
            return self._set(st, self.param_of_call[id(n.extra['arg'])], r)
        if n.kind == 'stmt' and isinstance(n.ast, _ast.Return) and \
                n.frame.call is not None and (
                    id(n.frame.call) in self.assign_of_call or
                    id(n.frame.call) in self.param_of_call):
            v = n.ast.value
            if v is None or (isinstance(v, _ast.Constant) and
                             v.value is None):
                return self._set(st, '$ret', 'none')
            cv = self._const(v, n.frame)
            if cv is not None:
                return self._set(st, '$ret', cv)
            if isinstance(v, _ast.Name) and \
                    self._module_identity(v, n.frame) is not None:
                # one particular object of the module (a sentinel, a canned
                # reply): identity tests against it can be decided
                return self._set(st, '$ret',
                                 self._module_identity(v, n.frame))
            if isinstance(v, _ast.Name) and self._module_object(v, n.frame):
                # a canned object of the module (bad_sequence = Reply(...))
                return self._set(st, '$ret', 'obj')
            if isinstance(v, _ast.Name):
                # a local whose none-ness a test on this path has settled
                from ..facts import path_of as _po
                known = self._get(st, _po(v, n.frame))
                if known in ('none', 'obj'):
                    return self._set(st, '$ret', known)
            if isinstance(v, _ast.Tuple) and isinstance(
                    self.assign_of_call.get(id(n.frame.call), (None,))[0],
                    list):
                return self._set(st, '$ret', ('t', tuple(
                    self._const(x, n.frame) or (
                        'obj' if isinstance(x, (_ast.Tuple, _ast.List,
                                                _ast.Dict)) else None)
                    for x in v.elts)))
            if isinstance(v, (_ast.Call, _ast.Tuple, _ast.List, _ast.Dict)) \
                    or (isinstance(v, _ast.Constant) and v.value is not None):
                # a call result is not known to be None; containers and
                # non-None constants are objects
                kind = 'obj' if not isinstance(v, _ast.Call) else 'obj?'
                if isinstance(v, _ast.Call) and (
                        (isinstance(v.func, _ast.Attribute) and
                         v.func.attr in ('decode', 'encode', 'format',
                                         'join', 'lower', 'upper', 'strip',
                                         'lstrip', 'rstrip', 'split',
                                         'partition', 'rpartition',
                                         'replace', 'items', 'keys',
                                         'values', 'copy')) or
                        (isinstance(v.func, _ast.Name) and
                         v.func.id in ('str', 'bytes', 'int', 'float',
                                       'list', 'dict', 'tuple', 'set',
                                       'frozenset', 'len', 'bool', 'repr',
                                       'sorted', 'bytearray'))):
                    # (what str / bytes methods and the builtin
                    # constructors give is never None)
                    kind = 'obj'
                return self._set(st, '$ret', kind)
            return self._set(st, '$ret', None)
        if n.kind == 'stmt' and isinstance(n.ast, _ast.Assign) and \
                id(n.ast.value) in self.assign_of_call:
            # (threading may have made several copies of the statement)
            var, node = self.assign_of_call[id(n.ast.value)]
            r = self._get(st, '$ret')
            st = self._set(st, '$ret', None)
            if isinstance(var, list):
                vals = r[1] if isinstance(r, tuple) and r[0] == 't' and \
                    len(r[1]) == len(var) else [None] * len(var)
                for q, v2 in zip(var, vals):
                    st = self._set(st, q, v2)
                return st
            if isinstance(r, tuple) and r[0] == 't':
                r = 'obj'
            return self._set(st, var, r)
        if n.kind == 'stmt' and isinstance(n.ast, _ast.Assign):
            from ..facts import path_of
            v = n.ast.value
            val = None
            if self._const(v, n.frame) is not None:
                val = self._const(v, n.frame)
            elif isinstance(v, (_ast.Tuple, _ast.List, _ast.Dict, _ast.Set)):
                val = 'obj'
            for t in n.ast.targets:
                if isinstance(t, _ast.Name):
                    st = self._set(st, path_of(t, n.frame), val)
                elif isinstance(t, (_ast.Tuple, _ast.List)):
                    for x in _ast.walk(t):
                        if isinstance(x, _ast.Name):
                            st = self._set(st, path_of(x, n.frame), None)
        if n.kind == 'iter':
            from ..facts import path_of
            for x in _ast.walk(n.ast.target):
                if isinstance(x, _ast.Name):
                    st = self._set(st, path_of(x, n.frame), None)
        if n.kind == 'test' and label in ('T', 'F'):
            r = self._eval(n.ast, n.frame, st)
            if r is not None and r != (label == 'T'):
                return 'infeasible'
            learnt = []
            for pol, k in atoms_of_test(n.ast, label == 'T', n.frame):
                for var, val in list(st):
                    if var.startswith('$') or val not in ('none', 'obj'):
                        continue
                    if k == var + ' is None':
                        if (val == 'none') != pol:
                            return 'infeasible'
                    elif k == var:
                        # truthiness: None is falsy
                        if val == 'none' and pol:
                            return 'infeasible'
                # what the test itself says about a plain local
                import re as _re
                if k.endswith(' is None') and _re.fullmatch(
                        r'[A-Za-z_]\w*#\d+', k[:-len(' is None')]):
                    learnt.append((k[:-len(' is None')],
                                   'none' if pol else 'obj'))
                elif pol and _re.fullmatch(r'[A-Za-z_]\w*#\d+', k):
                    learnt.append((k, 'obj'))
            for var, val in learnt:
                if self._get(st, var) is None:
                    st = self._set(st, var, val)
        return st


_MC_MISSING = object()


def local_dict_keys(fn, name):
    """key expressions of `name = {K1: ..., K2: ...}` when that is the only
    binding of the local in function fn and no statement adds or removes a
    key (`name[k] = v`, del, update / setdefault / pop / clear ...); None
    otherwise"""
    import ast as _ast
    from ..model import walk_own
    if name in fn.params:
        return None
    stores = [x for x in walk_own(fn.node) if isinstance(x, _ast.Name) and
              x.id == name and isinstance(x.ctx, (_ast.Store, _ast.Del))]
    ds = [a for a in walk_own(fn.node) if isinstance(a, _ast.Assign) and
          len(a.targets) == 1 and isinstance(a.targets[0], _ast.Name) and
          a.targets[0].id == name]
    if len(stores) != 1 or len(ds) != 1 or \
            not isinstance(ds[0].value, _ast.Dict) or \
            any(k is None for k in ds[0].value.keys):
        return None
    for x in walk_own(fn.node):
        if isinstance(x, _ast.Subscript) and \
                isinstance(x.ctx, (_ast.Store, _ast.Del)) and \
                isinstance(x.value, _ast.Name) and x.value.id == name:
            return None
        if isinstance(x, _ast.Call) and isinstance(x.func, _ast.Attribute) \
                and isinstance(x.func.value, _ast.Name) and \
                x.func.value.id == name and x.func.attr in (
                    'update', 'setdefault', 'pop', 'popitem', 'clear',
                    '__setitem__', '__delitem__'):
            return None
    return list(ds[0].value.keys)


def module_const(mod, name, depth=0):
    """Python value of a module-level constant: NAME = <literal>, one of
    `A, B, C = range(3)` / `A, B = 1, 2`, or a tuple of such names
    (`BOTH = (A, B)`), assigned once at module level and never declared
    global in a function.  _MC_MISSING when it cannot be read."""
    import ast as _ast
    if depth > 4 or mod is None:
        return _MC_MISSING
    hits = []
    for st in mod.tree.body:
        if not isinstance(st, _ast.Assign):
            continue
        for t in st.targets:
            if isinstance(t, _ast.Name) and t.id == name:
                hits.append((st.value, None))
            elif isinstance(t, (_ast.Tuple, _ast.List)):
                for i, el in enumerate(t.elts):
                    if isinstance(el, _ast.Name) and el.id == name:
                        hits.append((st.value, (i, len(t.elts))))
    if len(hits) != 1:
        return _MC_MISSING
    for x in _ast.walk(mod.tree):
        if isinstance(x, _ast.Global) and name in x.names:
            return _MC_MISSING
    v, pos = hits[0]

    def lit(x):
        if isinstance(x, _ast.Constant):
            return x.value
        if isinstance(x, _ast.UnaryOp) and isinstance(x.op, _ast.USub) and \
                isinstance(x.operand, _ast.Constant) and \
                isinstance(x.operand.value, (int, float)):
            return -x.operand.value
        if isinstance(x, _ast.Name):
            return module_const(mod, x.id, depth + 1)
        if isinstance(x, _ast.BinOp) and isinstance(x.op, _ast.Add):
            # b'\n' + _DOT: bytes / str built from earlier constants
            a, b = lit(x.left), lit(x.right)
            if a is not _MC_MISSING and b is not _MC_MISSING and \
                    type(a) is type(b) and isinstance(a, (bytes, str)):
                return a + b
            return _MC_MISSING
        if isinstance(x, (_ast.Tuple, _ast.List, _ast.Set)):
            vals = [lit(el) for el in x.elts]
            if any(y is _MC_MISSING for y in vals):
                return _MC_MISSING
            return tuple(vals)
        if isinstance(x, _ast.Call) and isinstance(x.func, _ast.Name) and \
                x.func.id in ('frozenset', 'set', 'tuple', 'list') and \
                len(x.args) == 1 and not x.keywords and \
                isinstance(x.args[0], (_ast.Tuple, _ast.List, _ast.Set)):
            # frozenset([A, B]): the members, for membership tests
            return lit(x.args[0])
        return _MC_MISSING
    if pos is None:
        return lit(v)
    i, n = pos
    if isinstance(v, (_ast.Tuple, _ast.List)) and len(v.elts) == n:
        return lit(v.elts[i])
    if isinstance(v, _ast.Call) and isinstance(v.func, _ast.Name) and \
            v.func.id == 'range' and len(v.args) == 1 and \
            isinstance(v.args[0], _ast.Constant) and v.args[0].value == n:
        return i
    return _MC_MISSING


def _nullness_const(self, v, frame):
    """('c', repr) for a literal or a class constant spelt self.X / cls.X /
    Class.X; 'none' for None; otherwise None (not a known constant)"""
    import ast as _ast
    if isinstance(v, _ast.Constant):
        return 'none' if v.value is None else ('c', repr(v.value))
    if isinstance(v, _ast.UnaryOp) and isinstance(v.op, _ast.USub) and \
            isinstance(v.operand, _ast.Constant) and \
            isinstance(v.operand.value, (int, float)) and \
            not isinstance(v.operand.value, bool):
        return ('c', repr(-v.operand.value))
    if isinstance(v, _ast.Name) and self.e is not None:
        # a module-level constant (not a local / parameter of the function)
        from ..model import walk_own as _wo
        fn = frame.ctx.func
        if v.id not in fn.params and not any(
                isinstance(x, _ast.Name) and x.id == v.id and
                isinstance(x.ctx, (_ast.Store, _ast.Del))
                for x in _wo(fn.node)):
            val = module_const(fn.module, v.id)
            if val is not _MC_MISSING and not isinstance(val, tuple):
                return 'none' if val is None else ('c', repr(val))
        return None
    if isinstance(v, _ast.Attribute) and isinstance(v.value, _ast.Name) and \
            self.e is not None:
        fc = frame.ctx.func.cls
        cq = fc.qname if fc is not None else frame.ctx.self_cls
        if not cq:
            return None
        cls_name = cq.rpartition('.')[2]
        if v.value.id not in ('self', 'cls', cls_name):
            return None
        if cq not in self._cc:
            self._cc[cq] = class_constants(self.e, cq)
            # an attribute that is also assigned elsewhere is no constant
            import ast as __ast
            c = self.e.p.classes.get(cq)
            for f in (c.methods.values() if c else []):
                for x in __ast.walk(f.node):
                    if isinstance(x, __ast.Attribute) and \
                            isinstance(x.ctx, (__ast.Store, __ast.Del)):
                        self._cc[cq].pop(x.attr, None)
        if v.attr in self._cc[cq]:
            val = self._cc[cq][v.attr]
            return 'none' if val is None else ('c', repr(val))
    return None


def _nullness_value(self, x, frame, st):
    from ..facts import path_of
    cv = self._const(x, frame)
    if cv is not None:
        return cv
    mi = self._module_identity(x, frame)
    if mi is not None:
        return mi
    q = path_of(x, frame)
    if q:
        return self._get(st, q)
    return None


def _nullness_eval(self, t, frame, st):
    """three-valued evaluation of a branch test over the tracked values"""
    import ast as _ast
    if isinstance(t, _ast.UnaryOp) and isinstance(t.op, _ast.Not):
        r = self._eval(t.operand, frame, st)
        return None if r is None else not r
    if isinstance(t, _ast.BoolOp):
        rs = [self._eval(v, frame, st) for v in t.values]
        if isinstance(t.op, _ast.And):
            if any(r is False for r in rs):
                return False
            return True if all(r is True for r in rs) else None
        if any(r is True for r in rs):
            return True
        return False if all(r is False for r in rs) else None
    if isinstance(t, _ast.Compare) and len(t.ops) == 1:
        op = t.ops[0]
        lv = self._value(t.left, frame, st)
        rt = t.comparators[0]
        if isinstance(op, (_ast.In, _ast.NotIn)):
            if isinstance(rt, _ast.Name):
                # a local dict with a fixed set of constant keys
                dk = local_dict_keys(frame.ctx.func, rt.id)
                if dk is not None:
                    rt = _ast.Tuple(elts=dk, ctx=_ast.Load())
            if isinstance(rt, _ast.Name) and self.e is not None:
                # a module-level tuple of constants
                tv = module_const(frame.ctx.func.module, rt.id)
                if isinstance(tv, tuple) and not any(
                        isinstance(y, tuple) for y in tv):
                    members = ['none' if y is None else ('c', repr(y))
                               for y in tv]
                    if lv is None or lv in ('obj', 'obj?') or \
                            (isinstance(lv, tuple) and lv[0] == 'm'):
                        return None
                    r = lv in members
                    return r if isinstance(op, _ast.In) else not r
                return None
            if not isinstance(rt, (_ast.Tuple, _ast.List, _ast.Set)):
                return None
            members = [self._const(x, frame) for x in rt.elts]
            if lv is None or lv in ('obj', 'obj?') or \
                    (isinstance(lv, tuple) and lv[0] == 'm') or \
                    any(m is None for m in members):
                return None
            r = lv in members
            return r if isinstance(op, _ast.In) else not r
        rv = self._value(rt, frame, st)
        if lv is None or rv is None:
            return None
        known = lambda v: v == 'none' or isinstance(v, tuple)
        ident = lambda v: isinstance(v, tuple) and v[0] == 'm'
        if isinstance(op, (_ast.Is, _ast.IsNot)) and (
                ident(lv) or ident(rv)):
            if ident(lv) and ident(rv):
                r = lv == rv
            elif 'obj' in (lv, rv) or 'obj?' in (lv, rv):
                return None          # some object: may be that one
            else:
                r = False            # None / a literal is never that object
            return r if isinstance(op, _ast.Is) else not r
        if isinstance(op, (_ast.Eq, _ast.NotEq)) and (
                ident(lv) or ident(rv)):
            if ident(lv) and lv == rv:
                return isinstance(op, _ast.Eq)
            return None
        if isinstance(op, (_ast.Is, _ast.IsNot)):
            if rv == 'none' and lv in ('obj', 'none') or (
                    rv == 'none' and isinstance(lv, tuple)):
                r = lv == 'none'
            elif lv == 'none' and (rv == 'obj' or isinstance(rv, tuple)):
                r = False
            else:
                return None
            return r if isinstance(op, _ast.Is) else not r
        if isinstance(op, (_ast.Eq, _ast.NotEq)):
            if not (known(lv) and known(rv)):
                return None
            r = lv == rv
            return r if isinstance(op, _ast.Eq) else not r
        return None
    v = self._value(t, frame, st)
    if v == 'none':
        return False
    if isinstance(v, tuple) and v[0] == 'c':
        try:
            return bool(eval(v[1], {'__builtins__': {}}))
        except Exception:
            return None
    return None


def _nullness_module_object(self, v, frame):
    """the name denotes an object made once at module level (NAME =
    SomeClass(...)), here or in the module it is imported from, and is not
    a local / parameter of the function"""
    import ast as _ast
    from ..model import walk_own as _wo
    if self.e is None:
        return False
    fn = frame.ctx.func
    if v.id in fn.params or any(
            isinstance(x, _ast.Name) and x.id == v.id and
            isinstance(x.ctx, (_ast.Store, _ast.Del)) for x in _wo(fn.node)):
        return False
    m = fn.module
    val = m.globals.get(v.id)
    if val is None and v.id in m.imports:
        q = m.imports[v.id]
        src, _, nm = q.rpartition('.')
        sm = self.e.p.modules.get(src)
        val = sm.globals.get(nm) if sm is not None else None
    return isinstance(val, _ast.Call) and isinstance(
        val.func, (_ast.Name, _ast.Attribute)) and \
        _ast.unparse(val.func).rpartition('.')[2][:1].isupper()


def _nullness_module_identity(self, v, frame):
    """('m', 'module.NAME') when the name denotes ONE object made at module
    level (NAME = object() / SomeClass(...), bound once, never declared
    global), here or where it is imported from; None otherwise.  Two such
    values are the same object exactly when the names agree."""
    import ast as _ast
    from ..model import walk_own as _wo
    if self.e is None or not isinstance(v, _ast.Name):
        return None
    fn = frame.ctx.func
    if v.id in fn.params or any(
            isinstance(x, _ast.Name) and x.id == v.id and
            isinstance(x.ctx, (_ast.Store, _ast.Del)) for x in _wo(fn.node)):
        return None
    m, nm = fn.module, v.id
    if nm not in m.globals and nm in m.imports:
        src, _, nm = m.imports[nm].rpartition('.')
        m = self.e.p.modules.get(src)
    if m is None:
        return None
    binds = [st for st in m.tree.body if isinstance(st, _ast.Assign) and any(
        isinstance(x, _ast.Name) and x.id == nm
        for t in st.targets for x in _ast.walk(t))]
    other = [x for x in _ast.walk(m.tree)
             if (isinstance(x, _ast.Global) and nm in x.names) or
             (isinstance(x, (_ast.AugAssign, _ast.AnnAssign)) and
              isinstance(x.target, _ast.Name) and x.target.id == nm and
              x in m.tree.body)]
    if len(binds) != 1 or other or len(binds[0].targets) != 1 or \
            not isinstance(binds[0].targets[0], _ast.Name):
        return None
    val = binds[0].value
    if isinstance(val, _ast.Call) and isinstance(
            val.func, (_ast.Name, _ast.Attribute)):
        cn = _ast.unparse(val.func).rpartition('.')[2]
        if cn == 'object' or cn[:1].isupper():
            return ('m', m.name + '.' + nm)
    return None


Nullness._module_identity = _nullness_module_identity
Nullness._module_object = _nullness_module_object
Nullness._const = _nullness_const
Nullness._value = _nullness_value
Nullness._eval = _nullness_eval


def _timer_started(e, func_node, name, ctx):
    """the local `name` is bound (only) to a started gevent Timeout:
    Timeout.start_new(x) with x not the constant None.  Returns the text of
    x or None."""
    import ast as _ast
    from ..model import walk_own
    defs = [n for n in walk_own(func_node) if isinstance(n, _ast.Assign) and
            any(isinstance(t, _ast.Name) and t.id == name
                for t in n.targets)]
    if len(defs) != 1:
        return None
    v = defs[0].value
    if isinstance(v, _ast.Call) and isinstance(v.func, _ast.Attribute) and \
            v.func.attr == 'start_new' and v.args:
        q = e.p.resolve_expr_qname(ctx.func.module, v.func.value)
        a0 = v.args[0]
        if q in TIMEOUT_QNAMES and not (isinstance(a0, _ast.Constant) and
                                        a0.value is None):
            return _ast.unparse(a0)
    return None


def _timeout_decorator(e, func):
    """the function is wrapped by a decorator of the shape
        def deco(fn):
            def wrapper(...):
                with Timeout(x): return fn(...)
            return wrapper
    Returns the text of x or None."""
    import ast as _ast
    for d in getattr(func.node, 'decorator_list', []):
        name = d.id if isinstance(d, _ast.Name) else None
        if name is None:
            continue
        deco = func.module.functions.get(name) if hasattr(
            func.module, 'functions') else None
        if deco is None:
            continue
        dn = deco.node if hasattr(deco, 'node') else deco
        if not dn.args.args:
            continue
        fnp = dn.args.args[0].arg
        for w in _ast.walk(dn):
            if isinstance(w, _ast.With):
                for it in w.items:
                    ce = it.context_expr
                    if isinstance(ce, _ast.Call) and _ast.unparse(
                            ce.func).endswith('Timeout') and (
                                ce.args or ce.keywords) and any(
                            isinstance(c, _ast.Call) and
                            isinstance(c.func, _ast.Name) and
                            c.func.id == fnp for s2 in w.body
                            for c in _ast.walk(s2)):
                        a0 = ce.args[0] if ce.args else ce.keywords[0].value
                        if not (isinstance(a0, _ast.Constant) and
                                a0.value is None):
                            return _ast.unparse(a0)
    return None


def covering_timeout(e, n):
    """Description of the timeout that bounds CFG node n, or None.  Idioms:
    `with Timeout(x)`; `t = Timeout.start_new(x); try: ... finally:
    t.cancel()`; `with_timeout(x, fn, ...)`; a decorator that runs the
    function under `with Timeout(x)`."""
    import ast as _ast
    for sc in n.scopes:
        if timeout_scope(e, sc):
            return 'with Timeout(%s) in %s' % (timeout_arg_text(sc),
                                              sc.frame.ctx.func.name)
    for sc in n.scopes:
        if sc.kind == 'finally' and isinstance(sc.ast, _ast.Try) and \
                not any(s2.kind == 'finally_body' and s2.ast is sc.ast
                        for s2 in n.scopes):
            for st in sc.ast.finalbody:
                for c in _ast.walk(st):
                    if isinstance(c, _ast.Call) and \
                            isinstance(c.func, _ast.Attribute) and \
                            c.func.attr in ('cancel', 'close') and \
                            isinstance(c.func.value, _ast.Name):
                        x = _timer_started(e, sc.frame.ctx.func.node,
                                           c.func.value.id, sc.frame.ctx)
                        if x:
                            return 'Timeout.start_new(%s) ... finally ' \
                                '%s() in %s' % (x, c.func.attr,
                                                sc.frame.ctx.func.name)
    for fr in n.frame.chain():
        via = getattr(fr.call, '_via_with_timeout', None)
        if via is not None and via.args:
            a0 = via.args[0]
            if not (isinstance(a0, _ast.Constant) and a0.value is None):
                return 'with_timeout(%s, ...) in %s' % (
                    _ast.unparse(a0), fr.parent.ctx.func.name
                    if fr.parent else '?')
        x = _timeout_decorator(e, fr.ctx.func)
        if x:
            return 'decorator running %s under Timeout(%s)' % (
                fr.ctx.func.name, x)
    return None


def deref(expr, frame, depth=0):
    """(expression, frame) a plain parameter name stands for: the argument
    it was bound to when its function was inlined (followed upwards)."""
    import ast as _ast
    while depth < 6 and isinstance(expr, _ast.Name) and \
            expr.id in getattr(frame, 'bindings', {}) and \
            expr.id in frame.ctx.func.params:
        expr, frame = frame.bindings[expr.id]
        depth += 1
    return expr, frame


def private_helpers(e, cls_qname, primitives=()):
    """Private methods of the class that are only ever *called* as
    `self.m(...)` from other methods of the class (never passed around,
    spawned, or named in `primitives`): when a rule inlines same-self calls
    they are seen in the context of each caller, so a site inside one is
    judged there and not on the helper taken alone."""
    import ast as _ast
    from ..model import walk_own
    c = merged_class(e, cls_qname)
    called, other = {}, set()
    for mname, m in c.methods.items():
        funcs = set()
        for x in walk_own(m.node):
            if isinstance(x, _ast.Call) and \
                    isinstance(x.func, _ast.Attribute) and \
                    isinstance(x.func.value, _ast.Name) and \
                    x.func.value.id == 'self' and x.func.attr in c.methods:
                funcs.add(id(x.func))
                if x.func.attr != mname:
                    called.setdefault(x.func.attr, set()).add(mname)
        for x in walk_own(m.node):
            if isinstance(x, _ast.Attribute) and id(x) not in funcs and \
                    isinstance(x.value, _ast.Name) and \
                    x.value.id == 'self' and x.attr in c.methods:
                other.add(x.attr)
    # overridden / overriding methods are entry points of their own
    out = set()
    for mname in c.methods:
        if mname.startswith('_') and not mname.startswith('__') and \
                mname in called and mname not in other and \
                mname not in primitives:
            out.add(mname)
    return out


# the disposition / dispatch primitives of slimta.queue.Queue: the events of
# the queue rules, never inlined into the function that calls them
QUEUE_PRIMITIVES = ['_attempt', '_retry_later', '_handle_partial_relay',
                    '_remove', '_perm_fail', '_pool_spawn', '_pool_run',
                    '_pool_imap', '_add_queued', '_bounce', '_split_by_reply',
                    '_dequeue', '_check_ready', 'enqueue', 'flush', 'kill',
                    '_run', '_load_all', '_wait_store', '_wait_ready',
                    '_run_policies']


def queue_inline(e, also=()):
    """inlining policy for Queue methods: private helpers a method was split
    into are part of it; the primitives stay call events"""
    return e.inline_same_self(deny=list(QUEUE_PRIMITIVES) + list(also))


def origin(g, expr, frame, depth=0, follow_locals=True):
    """(expression, frame) where a value comes from: a parameter of an
    inlined helper stands for the caller's argument, a local assigned once
    for what it was assigned, a call of an inlined helper with one return
    for what that returns.  Stops at the first thing it cannot follow."""
    import ast as _ast
    from ..model import walk_own
    while depth < 8:
        depth += 1
        if isinstance(expr, _ast.Name):
            fn = frame.ctx.func
            stores = [x for x in walk_own(fn.node)
                      if isinstance(x, _ast.Name) and x.id == expr.id and
                      isinstance(x.ctx, (_ast.Store, _ast.Del))]
            if expr.id in fn.params and not stores and \
                    expr.id in getattr(frame, 'arg_exprs', {}):
                expr, frame = frame.arg_exprs[expr.id]
                continue
            if len(stores) == 1 and expr.id not in fn.params and \
                    follow_locals:
                a = [x for x in walk_own(fn.node)
                     if isinstance(x, _ast.Assign) and len(x.targets) == 1
                     and x.targets[0] is stores[0]]
                if a:
                    expr = a[0].value
                    continue
            return expr, frame
        if isinstance(expr, _ast.Call):
            e2, f2 = value_of(g, expr, frame)
            if e2 is expr:
                return expr, frame
            expr, frame = e2, f2
            continue
        return expr, frame
    return expr, frame


def reaching_defs(g, node, path):
    """stmt nodes that assign the local `path` and reach `node` with no
    other assignment to it in between (plus None when the function entry
    reaches it unassigned)"""
    import ast as _ast
    from ..facts import path_of

    def assigns(n):
        if n.kind != 'stmt':
            return False
        a = n.ast
        tg = a.targets if isinstance(a, _ast.Assign) else (
            [a.target] if isinstance(a, (_ast.AugAssign, _ast.AnnAssign))
            else [])
        for t in tg:
            for el in (t.elts if isinstance(t, (_ast.Tuple, _ast.List))
                       else [t]):
                if path_of(el, n.frame) == path:
                    return True
        return False
    out, seen, work = [], {node.id}, [node]
    while work:
        cur = work.pop()
        for label, pr in cur.pred:
            if isinstance(label, tuple) and assigns(pr):
                continue       # the assignment did not complete
            if pr.id in seen:
                continue
            seen.add(pr.id)
            if assigns(pr):
                out.append(pr)
                continue
            if pr is g.entry:
                out.append(None)
            work.append(pr)
    return out


class _MergedClass:
    pass


def merged_class(e, cls_qname):
    """the class with the methods it inherits from base classes defined in
    the repository folded in (a mixin extracted from the class is still the
    class): .methods maps each name to the definition the MRO selects"""
    c = e.p.cls(cls_qname)
    methods = {}
    for q in reversed(e.p.mro(cls_qname)):
        k = e.p.classes.get(q)
        if k is not None:
            methods.update(k.methods)
    m = _MergedClass()
    m.__dict__.update(c.__dict__)
    m.methods = methods
    return m


def comp_entry_writes(g):
    """Mapping entries produced by comprehensions in the functions of g:
    `{k: v for ... if c}` and generators / lists of `(k, v)` pairs (the
    functional spelling of `for ...: if c: d[k] = v`).  Yields
    (frame, comprehension node, key, value, guard atoms) - a conditional
    value `a if t else b` gives one entry per arm with the test among the
    guards.  Names bound by the comprehension stay unqualified."""
    import ast as _ast
    from ..model import walk_own
    from ..facts import atoms_of_test
    seen = set()
    out = []
    for fr in sorted({n.frame for n in g.nodes}, key=lambda f: f.id):
        fn = fr.ctx.func.node
        if (id(fn), fr.id) in seen:
            continue
        seen.add((id(fn), fr.id))
        for x in walk_own(fn):
            key = val = None
            if isinstance(x, _ast.DictComp):
                key, val = x.key, x.value
            elif isinstance(x, (_ast.GeneratorExp, _ast.ListComp)) and \
                    isinstance(x.elt, _ast.Tuple) and len(x.elt.elts) == 2:
                key, val = x.elt.elts
            if key is None:
                continue
            guards = []
            for gen in x.generators:
                for c in gen.ifs:
                    try:
                        guards += list(atoms_of_test(c, True, fr))
                    except Exception:
                        pass

            def arms(v, gs):
                if isinstance(v, _ast.IfExp):
                    try:
                        t = list(atoms_of_test(v.test, True, fr))
                        f = list(atoms_of_test(v.test, False, fr))
                    except Exception:
                        t = f = []
                    yield from arms(v.body, gs + t)
                    yield from arms(v.orelse, gs + f)
                else:
                    yield v, gs
            for v, gs in arms(val, guards):
                out.append((fr, x, key, v, gs))
    return out


def bouncers(e, cls_qname='slimta.queue.Queue'):
    """names of the Queue methods a call of which stands for "bounce this
    (part of a) message once": the method that hands self._bounce to a pool
    (or calls it), `_perm_fail`, and wrappers that call such a method
    exactly once outside any loop"""
    import ast as _ast
    from ..model import walk_own
    c = merged_class(e, cls_qname)
    out = set()
    for mname, m in c.methods.items():
        for x in walk_own(m.node):
            if isinstance(x, _ast.Call) and (
                    any(_ast.unparse(a).endswith('._bounce')
                        for a in x.args) or
                    _ast.unparse(x.func) == 'self._bounce'):
                out.add(mname)
    if '_perm_fail' in c.methods:
        out.add('_perm_fail')
    changed = True
    while changed:
        changed = False
        for mname, m in c.methods.items():
            if mname in out:
                continue
            calls = [x for x in walk_own(m.node) if isinstance(x, _ast.Call)
                     and isinstance(x.func, _ast.Attribute) and
                     isinstance(x.func.value, _ast.Name) and
                     x.func.value.id == 'self' and x.func.attr in out]
            if len(calls) != 1:
                continue
            in_loop = any(isinstance(l, (_ast.For, _ast.While)) and any(
                y is calls[0] for y in _ast.walk(l))
                for l in walk_own(m.node))
            if not in_loop:
                out.add(mname)
                changed = True
    return out


def bounce_event(e, n, names):
    """CFG node that is one bounce: the call (or, when the method was
    inlined, the entry) of a bouncer; the spawn of self._bounce itself when
    it is met outside any bouncer frame"""
    import ast as _ast
    if n.kind not in ('call', 'call_enter'):
        return False
    if e.call_name(n) in names:
        return True
    if n.kind == 'call' and any(_ast.unparse(a).endswith('._bounce')
                                for a in n.ast.args):
        # not already counted through an enclosing inlined bouncer
        return not any(fr.ctx.func.name in names
                       for fr in n.frame.chain() if fr.parent is not None)
    return False


def expand(g, x, fr, depth=0):
    """The expression with local names replaced by what they were assigned
    (once), parameters of inlined helpers by the arguments, calls of inlined
    helpers with one return by what they return, elements of unpacked tuples
    by the corresponding element - so that `a, b = self._partition()` ...
    `b''.join(a)` reads `b''.join(self.lines[:self.EOD])`.  Returns a new
    AST; names it cannot follow stay as they are."""
    import ast as _ast
    import copy as _copy
    from ..model import walk_own
    if depth > 10 or x is None:
        return x

    def defs_of(name, frame):
        fn = frame.ctx.func
        out = []
        for a in walk_own(fn.node):
            if isinstance(a, _ast.Assign) and len(a.targets) == 1:
                t = a.targets[0]
                if isinstance(t, _ast.Name) and t.id == name:
                    out.append((a, None))
                elif isinstance(t, (_ast.Tuple, _ast.List)):
                    for i, el in enumerate(t.elts):
                        if isinstance(el, _ast.Name) and el.id == name:
                            out.append((a, i))
        stores = [y for y in walk_own(fn.node) if isinstance(y, _ast.Name)
                  and y.id == name and isinstance(y.ctx, (_ast.Store,
                                                            _ast.Del))]
        return out if len(stores) == 1 and len(out) == 1 else []

    if isinstance(x, _ast.Name) and isinstance(x.ctx, _ast.Load):
        fn = fr.ctx.func
        stored = any(isinstance(y, _ast.Name) and y.id == x.id and
                     isinstance(y.ctx, (_ast.Store, _ast.Del))
                     for y in walk_own(fn.node))
        if x.id in fn.params and not stored and \
                x.id in getattr(fr, 'arg_exprs', {}):
            a, af = fr.arg_exprs[x.id]
            return expand(g, a, af, depth + 1)
        ds = defs_of(x.id, fr)
        if ds:
            a, idx = ds[0]
            v = a.value
            if idx is None:
                return expand(g, v, fr, depth + 1)
            if isinstance(v, (_ast.Tuple, _ast.List)) and \
                    idx < len(v.elts):
                return expand(g, v.elts[idx], fr, depth + 1)
            if isinstance(v, _ast.Call):
                v2, f2 = value_of(g, v, fr)
                if v2 is not v and isinstance(v2, (_ast.Tuple, _ast.List)) \
                        and idx < len(v2.elts):
                    return expand(g, v2.elts[idx], f2, depth + 1)
        return x
    if isinstance(x, _ast.Call):
        v2, f2 = value_of(g, x, fr)
        if v2 is not x:
            return expand(g, v2, f2, depth + 1)
    if isinstance(x, _ast.AST):
        new = _copy.copy(x)
        for field, val in _ast.iter_fields(x):
            if isinstance(val, _ast.AST):
                if isinstance(val, (_ast.expr_context, _ast.operator,
                                    _ast.boolop, _ast.unaryop, _ast.cmpop)):
                    continue
                setattr(new, field, expand(g, val, fr, depth + 1))
            elif isinstance(val, list):
                setattr(new, field, [
                    expand(g, v, fr, depth + 1)
                    if isinstance(v, _ast.AST) and not isinstance(
                        v, (_ast.expr_context, _ast.cmpop)) else v
                    for v in val])
        return new
    return x


def expand_text(g, x, fr):
    import ast as _ast
    try:
        return _ast.unparse(expand(g, x, fr))
    except Exception:
        return _ast.unparse(x)


def bytes_shape(g, x, fr):
    """A bytes (or str) expression as a sequence of segments: literal
    constants and opaque parts, after expand(): concatenation and
    sep.join((a, b, ...)) are flattened, adjacent literals merged.
    [('lit', b'MAIL FROM:<'), ('opaque', <ast>), ('lit', b'>')]"""
    import ast as _ast
    from ..model import walk_own
    grown = False
    if isinstance(x, _ast.Name):
        # cmd = <start>; cmd += <more> (under conditions): the start, then
        # possibly more
        fn = fr.ctx.func
        asg = [a for a in walk_own(fn.node) if isinstance(a, _ast.Assign)
               and len(a.targets) == 1 and
               isinstance(a.targets[0], _ast.Name) and
               a.targets[0].id == x.id]
        aug = [a for a in walk_own(fn.node) if isinstance(a, _ast.AugAssign)
               and isinstance(a.target, _ast.Name) and a.target.id == x.id
               and isinstance(a.op, _ast.Add)]
        stores = [y for y in walk_own(fn.node) if isinstance(y, _ast.Name)
                  and y.id == x.id and isinstance(y.ctx, (_ast.Store,
                                                            _ast.Del))]
        if len(asg) == 1 and aug and len(stores) == 1 + len(aug):
            x = asg[0].value
            grown = True
    x = expand(g, x, fr)

    def flat(y):
        if isinstance(y, _ast.Constant) and isinstance(y.value,
                                                       (bytes, str)):
            return [('lit', y.value)]
        if isinstance(y, _ast.BinOp) and isinstance(y.op, _ast.Add):
            return flat(y.left) + flat(y.right)
        if isinstance(y, _ast.Call) and isinstance(y.func, _ast.Attribute) \
                and y.func.attr == 'join' and \
                isinstance(y.func.value, _ast.Constant) and \
                len(y.args) == 1 and \
                isinstance(y.args[0], (_ast.Tuple, _ast.List)):
            sep = y.func.value.value
            out = []
            for i, el in enumerate(y.args[0].elts):
                if i and sep:
                    out.append(('lit', sep))
                out += flat(el)
            if isinstance(y.args[0], _ast.List):
                # a list may have been extended before the join
                out.append(('more', sep))
            return out
        if isinstance(y, _ast.Call) and isinstance(y.func, _ast.Attribute) \
                and y.func.attr == 'join' and \
                isinstance(y.func.value, _ast.Constant) and \
                len(y.args) == 1 and isinstance(y.args[0], _ast.Name):
            # parts = [a, b, c]; parts += [...] (under conditions);
            # sep.join(parts): the start, then possibly more
            nm = y.args[0].id
            fn = fr.ctx.func
            asg = [a for a in walk_own(fn.node)
                   if isinstance(a, _ast.Assign) and len(a.targets) == 1 and
                   isinstance(a.targets[0], _ast.Name) and
                   a.targets[0].id == nm]
            stores = [z for z in walk_own(fn.node)
                      if isinstance(z, _ast.Name) and z.id == nm and
                      isinstance(z.ctx, (_ast.Store, _ast.Del))]
            aug = [a for a in walk_own(fn.node)
                   if isinstance(a, _ast.AugAssign) and
                   isinstance(a.target, _ast.Name) and a.target.id == nm and
                   isinstance(a.op, _ast.Add)]
            if len(asg) == 1 and nm not in fn.params and \
                    isinstance(asg[0].value, _ast.List) and \
                    len(stores) == 1 + len(aug):
                lst = _ast.Call(func=y.func, args=[asg[0].value],
                                keywords=[])
                return flat(_ast.copy_location(lst, y))
        return [('opaque', y)]
    segs = flat(x)
    if grown:
        segs.append(('more', b''))
    out = []
    for k, v in segs:
        if k == 'lit' and out and out[-1][0] == 'lit' and \
                type(out[-1][1]) is type(v):
            out[-1] = ('lit', out[-1][1] + v)
        else:
            out.append((k, v))
    return out


def applied_call(e, ctx, call):
    """(function expression, argument list) a call stands for when its
    callee does nothing with its arguments but `return func(*args)` -
    possibly inside with blocks - for one of its parameters `func` and its
    star parameter (e.g. `self._run_timed(seconds, f, a)` -> f(a));
    None otherwise"""
    import ast as _ast
    from ..model import walk_own
    try:
        r = e.r.resolve_call(call, ctx)
    except Exception:
        return None
    if len(r.targets) != 1:
        return None
    f = r.targets[0].func
    node = f.node
    va = node.args.vararg.arg if node.args.vararg else None
    if va is None:
        # `return func()` for a parameter func that this call site binds to
        # partial(F, a, b) / lambda: F(a, b) / a bound method
        rets = [x for x in walk_own(node) if isinstance(x, _ast.Return)]
        own = f.params[1:] if f.params[:1] in (['self'], ['cls']) and \
            f.cls is not None and f.kind != 'staticmethod' else \
            list(f.params)
        if len(rets) != 1 or not (
                isinstance(rets[0].value, _ast.Call) and
                isinstance(rets[0].value.func, _ast.Name) and
                rets[0].value.func.id in own and
                not rets[0].value.args and not rets[0].value.keywords):
            return None
        name = rets[0].value.func.id
        if any(isinstance(y, _ast.Name) and y.id == name and
               isinstance(y.ctx, _ast.Store) for y in walk_own(node)) or \
                any(isinstance(a, _ast.Starred) for a in call.args):
            return None
        i = own.index(name)
        arg = call.args[i] if i < len(call.args) else None
        for kw in call.keywords:
            if kw.arg == name:
                arg = kw.value
        if isinstance(arg, _ast.Call) and \
                _ast.unparse(arg.func).endswith('partial') and arg.args and \
                not arg.keywords:
            return arg.args[0], list(arg.args[1:])
        if isinstance(arg, _ast.Lambda) and not arg.args.args and \
                isinstance(arg.body, _ast.Call) and not arg.body.keywords:
            return arg.body.func, list(arg.body.args)
        if isinstance(arg, (_ast.Attribute, _ast.Name)):
            return arg, []
        return None
    rets = [x for x in walk_own(node) if isinstance(x, _ast.Return)]
    calls = [x for x in walk_own(node) if isinstance(x, _ast.Call) and
             isinstance(x.func, _ast.Name) and x.func.id in f.params and
             len(x.args) == 1 and isinstance(x.args[0], _ast.Starred) and
             isinstance(x.args[0].value, _ast.Name) and
             x.args[0].value.id == va and not x.keywords]
    if len(rets) != 1 or len(calls) != 1 or rets[0].value is not calls[0]:
        return None
    own = f.params[1:] if f.params[:1] in (['self'], ['cls']) and \
        f.cls is not None else list(f.params)
    own = [p for p in own if p != va]
    name = calls[0].func.id
    if name not in own or call.keywords or any(
            isinstance(a, _ast.Starred) for a in call.args):
        return None
    i = own.index(name)
    if i >= len(call.args):
        return None
    return call.args[i], list(call.args[len(own):])


def loop_alias_attrs(func_node, name):
    """attributes of self a local stands for when its only binding is
    `for <name> in (self.a, self.b, ...)`; None otherwise"""
    import ast as _ast
    from ..model import walk_own
    stores = [x for x in walk_own(func_node) if isinstance(x, _ast.Name)
              and x.id == name and isinstance(x.ctx, (_ast.Store, _ast.Del))]
    loops = [f for f in walk_own(func_node) if isinstance(f, _ast.For) and
             isinstance(f.target, _ast.Name) and f.target.id == name]
    if len(stores) != 1 or len(loops) != 1:
        return None
    it = loops[0].iter
    if not isinstance(it, (_ast.Tuple, _ast.List)) or not it.elts:
        return None
    out = []
    for el in it.elts:
        if isinstance(el, _ast.Attribute) and \
                isinstance(el.value, _ast.Name) and el.value.id == 'self':
            out.append(el.attr)
        else:
            return None
    return out


_INPLACE = {'append', 'extend', 'insert', 'remove', 'pop', 'clear', 'sort',
            'reverse', 'update', 'add', 'discard', 'setdefault', 'popitem',
            'appendleft', 'extendleft', 'popleft'}


def shared_class_state(e, module_prefixes):
    """Class-level attributes bound to a mutable object (`x = []`, `{}`,
    `set()`, `deque()` ...) that some method of the class (or of a subclass)
    changes IN PLACE through `self.x` although no `__init__` in the MRO gives
    the instance its own: one object shared by every instance.
    Yields (class qname, attribute, class-level statement, FuncInfo of the
    mutating method, mutating node)."""
    import ast as _ast
    from ..model import walk_own

    def mutable(v):
        if isinstance(v, (_ast.List, _ast.Dict, _ast.Set, _ast.ListComp,
                          _ast.DictComp, _ast.SetComp)):
            return True
        return isinstance(v, _ast.Call) and \
            _ast.unparse(v.func).rpartition('.')[2] in (
                'list', 'dict', 'set', 'bytearray', 'deque', 'OrderedDict',
                'defaultdict', 'Counter', 'BlockingDeque')
    def always_assigns(block, attr):
        """every way through the statements binds self.<attr> (an
        assignment under a condition only does not make the object the
        instance's own)"""
        for a in block:
            if isinstance(a, (_ast.Assign, _ast.AnnAssign)):
                tg = a.targets if isinstance(a, _ast.Assign) else [a.target]
                for t0 in tg:
                    for tt in (t0.elts if isinstance(
                            t0, (_ast.Tuple, _ast.List)) else [t0]):
                        if isinstance(tt, _ast.Attribute) and \
                                tt.attr == attr and \
                                isinstance(tt.value, _ast.Name) and \
                                tt.value.id == 'self':
                            return True
            elif isinstance(a, _ast.If):
                if a.orelse and always_assigns(a.body, attr) and \
                        always_assigns(a.orelse, attr):
                    return True
            elif isinstance(a, (_ast.With, _ast.Try)):
                if always_assigns(a.body, attr):
                    return True
        return False
    for cq, c in sorted(e.p.classes.items()):
        if not any(c.module.name == p or c.module.name.startswith(p + '.')
                   for p in module_prefixes):
            continue
        for st in c.node.body:
            if not (isinstance(st, _ast.Assign) and mutable(st.value)):
                continue
            for t in st.targets:
                if not isinstance(t, _ast.Name):
                    continue
                attr = t.id
                # classes that see this attribute: c and its subclasses
                users = [cq] + [k for k in e.p.subclasses(cq) if k != cq]
                for uq in users:
                    # does an __init__ in the MRO of the user rebind it?
                    own = False
                    for k in e.p.mro(uq):
                        kc = e.p.classes.get(k)
                        init = kc.methods.get('__init__') if kc else None
                        if init is not None and always_assigns(
                                init.node.body, attr):
                            own = True
                            break
                    if own:
                        continue
                    uc = e.p.classes.get(uq)
                    for m in (uc.methods.values() if uc else []):
                        for x in walk_own(m.node):
                            hit = None
                            if isinstance(x, _ast.Call) and \
                                    isinstance(x.func, _ast.Attribute) and \
                                    x.func.attr in _INPLACE and \
                                    isinstance(x.func.value,
                                               _ast.Attribute) and \
                                    x.func.value.attr == attr and \
                                    isinstance(x.func.value.value,
                                               _ast.Name) and \
                                    x.func.value.value.id == 'self':
                                hit = x
                            tg = []
                            if isinstance(x, _ast.Assign):
                                tg = x.targets
                            elif isinstance(x, _ast.AugAssign):
                                tg = [x.target]
                            elif isinstance(x, _ast.Delete):
                                tg = x.targets
                            for tt in tg:
                                b = tt
                                sub = False
                                while isinstance(b, _ast.Subscript):
                                    b, sub = b.value, True
                                if isinstance(b, _ast.Attribute) and \
                                        b.attr == attr and \
                                        isinstance(b.value, _ast.Name) and \
                                        b.value.id == 'self' and (
                                            sub or isinstance(
                                                x, _ast.AugAssign)):
                                    hit = x
                            if hit is not None:
                                yield cq, attr, st, m, hit


def shared_state_rule(e, rep, rule, module_prefixes, consequence):
    n = 0
    for cq, c in e.p.classes.items():
        if any(c.module.name == p or c.module.name.startswith(p + '.')
               for p in module_prefixes):
            n += 1
    rep.evaluations += 1
    seen = set()
    for cq, attr, st, m, hit in shared_class_state(e, module_prefixes):
        key = (cq, attr)
        if key in seen:
            continue
        seen.add(key)
        rep.evaluations += 1
        rep.bad(rule, m.qname, 'in-place change of class-level `%s.%s`' % (
            cq.rpartition('.')[2], attr),
            '`%s` is created once in the class body of %s and no __init__ '
            'gives an instance its own; %s changes it in place, so every '
            'instance shares one object: %s' % (
                attr, cq, m.name, consequence), loc=m.loc(hit))
    if n < 1:
        rep.error('anchor vanished: classes under %s' % (module_prefixes,))
    elif not seen:
        rep.ok(rule, ', '.join(module_prefixes), 'no instance state lives in '
               'a class-level mutable', reason='%d classes looked at' % n)


def assigned_from(g, call_ast):
    """[(local path, stmt node)] of the locals that receive the value of the
    call expression `call_ast`: `x = <call>`, or - when the call sits in a
    return of an inlined helper - the target (or the element of a tuple
    target) of the assignment that takes the helper's result"""
    import ast as _ast
    from ..facts import path_of
    out = []
    for s2 in g.of_kind('stmt'):
        if not (isinstance(s2.ast, _ast.Assign) and len(s2.ast.targets) == 1):
            continue
        tg, v = s2.ast.targets[0], s2.ast.value
        if v is call_ast and isinstance(tg, _ast.Name):
            out.append((path_of(tg, s2.frame), s2))
            continue
        if not isinstance(v, _ast.Call):
            continue
        vals = values_of(g, v, s2.frame)
        if len(vals) == 1 and vals[0][0] is v:
            continue
        for rv, rf in vals:
            if rv is call_ast and isinstance(tg, _ast.Name):
                out.append((path_of(tg, s2.frame), s2))
            elif isinstance(rv, _ast.Tuple) and \
                    isinstance(tg, (_ast.Tuple, _ast.List)) and \
                    len(rv.elts) == len(tg.elts):
                for a, b in zip(tg.elts, rv.elts):
                    if b is call_ast and isinstance(a, _ast.Name):
                        out.append((path_of(a, s2.frame), s2))
    return out


def reply_parser_func(e):
    """The function of IO that matches reply_line_pattern against the
    buffer: recv_reply itself, or the private helper the parsing loop was
    moved into (one level, called on self).  FuncInfo."""
    import ast as _ast
    from ..model import walk_own
    IOQ = 'slimta.smtp.io.IO'
    top = e.p.lookup_method(IOQ, 'recv_reply')
    if top is None:
        return None

    def matches(fn):
        return any(isinstance(x, _ast.Call) and
                   isinstance(x.func, _ast.Attribute) and
                   x.func.attr in ('match', 'search', 'fullmatch') and
                   isinstance(x.func.value, _ast.Name) and
                   x.func.value.id == 'reply_line_pattern'
                   for x in walk_own(fn.node))
    if matches(top):
        return top
    for x in walk_own(top.node):
        if isinstance(x, _ast.Call) and isinstance(x.func, _ast.Attribute) \
                and isinstance(x.func.value, _ast.Name) and \
                x.func.value.id == 'self':
            m = e.p.lookup_method(IOQ, x.func.attr)
            if m is not None and matches(m):
                return m
    return top


def reuse(e, rep, run, newrule, text, only=None, suffix=''):
    """Run another property's rule function `run(e, sub)` on a scratch
    report and take its obligations over under `newrule` (optionally only
    those of the source rule(s) `only`); errors and counts come along."""
    from ..report import Report
    rep.rule(newrule, text)
    sub = Report(rep.prop, rep.tier, rep.repo)
    run(e, sub)
    for o in sub.obls:
        if only is not None and o.rule not in only:
            continue
        rep.add(newrule, o.where, o.text, o.status,
                (o.what + suffix) if o.what else '', o.loc, o.witness,
                o.nontrivial, o.reason)
    rep.errors += sub.errors
    rep.evaluations += sub.evaluations
    rep.functions |= sub.functions
    rep.tables |= getattr(sub, 'tables', set())


# ------------------------------------------------------ try scope of _attempt
OUTCOME_RECORDERS = ('_handle_partial_relay', '_perm_fail', '_remove',
                     '_retry_later', '_bounce')


def attempt_try_scope(e, rep, rule, consequence,
                      cls_qname='slimta.queue.Queue'):
    """The catch-all arm of Queue._attempt files the *whole, unmodified*
    envelope for another attempt.  That is the right answer to a relay that
    raised - nothing was settled yet - and the wrong one once the outcome is
    being recorded: the try it belongs to covers the relay call only.  The
    statements of the try body are followed through `self.m(...)` calls; none
    of them may reach a method that records an outcome (bounce, removal,
    retry, settled marks)."""
    import ast as _ast
    from ..model import walk_own
    c = merged_class(e, cls_qname)
    m = c.methods.get('_attempt')
    if m is None:
        rep.error('anchor vanished: %s._attempt' % cls_qname)
        return

    def catch_all(h):
        t = h.type
        if t is None:
            return True
        names = [t] if not isinstance(t, _ast.Tuple) else list(t.elts)
        return any(isinstance(x, _ast.Name) and
                   x.id in ('Exception', 'BaseException') for x in names)

    def self_calls(node):
        for x in _ast.walk(node):
            if isinstance(x, _ast.Call) and \
                    isinstance(x.func, _ast.Attribute) and \
                    isinstance(x.func.value, _ast.Name) and \
                    x.func.value.id == 'self':
                yield x

    def reaches(stmts):
        seen, todo, hit = set(), [], None
        for s in stmts:
            for x in self_calls(s):
                todo.append((x.func.attr, x, x))
            for x in _ast.walk(s):
                if isinstance(x, _ast.Call) and \
                        isinstance(x.func, _ast.Attribute) and \
                        x.func.attr == 'set_recipients_delivered':
                    return x, 'set_recipients_delivered'
        while todo:
            name, site, first = todo.pop()
            if name in OUTCOME_RECORDERS:
                return first, name
            if name in seen or name not in c.methods:
                continue
            seen.add(name)
            for x in self_calls(c.methods[name].node):
                todo.append((x.func.attr, x, first))
            for x in _ast.walk(c.methods[name].node):
                if isinstance(x, _ast.Call) and \
                        isinstance(x.func, _ast.Attribute) and \
                        x.func.attr == 'set_recipients_delivered':
                    return first, 'set_recipients_delivered'
        return hit, None

    where = m.qname
    rep.functions.add(where)
    n = 0
    for t in walk_own(m.node):
        if not isinstance(t, _ast.Try):
            continue
        arms = [h for h in t.handlers if catch_all(h) and any(
            isinstance(x, _ast.Attribute) and x.attr == '_retry_later'
            for s in h.body for x in _ast.walk(s))]
        if not arms:
            continue
        n += 1
        rep.evaluations += 1
        site, name = reaches(t.body)
        rep.check(name is None, rule, where,
                  'the try whose catch-all arm files the whole envelope for '
                  'a retry covers the relay call only',
                  'a failure while the outcome of the attempt is being '
                  'recorded (%s reached from the try body) lands in the arm '
                  'written for a relay that raised: the whole, unmodified '
                  'envelope is filed for another attempt - %s'
                  % (name, consequence),
                  loc=m.loc(site or t),
                  reason='no outcome-recording method is reachable from the '
                  'try body')
    if n == 0:
        rep.ok(rule, where, 'no catch-all arm of _attempt files the '
               'envelope for a retry', nontrivial=False,
               reason='nothing to scope')
