"""Helpers shared by several rule modules."""
from __future__ import annotations

import ast
from typing import Optional

from ..cfg import Node, Scope, TIMEOUT, ANY
from ..engine import Engine
from ..resolve import Ctx

TIMEOUT_QNAMES = ('gevent.Timeout', 'gevent.timeout.Timeout')


def is_timeout_ctor(e: Engine, expr, ctx: Ctx) -> bool:
    if not isinstance(expr, ast.Call):
        return False
    q = e.p.resolve_expr_qname(ctx.func.module, expr.func)
    return q in TIMEOUT_QNAMES


def timeout_scope(e: Engine, sc: Scope) -> bool:
    """`with Timeout(<something that is not the constant None>)`."""
    if sc.kind != 'with':
        return False
    ce = sc.ast.context_expr
    if not is_timeout_ctor(e, ce, sc.frame.ctx):
        return False
    if not ce.args and not ce.keywords:
        return False
    a0 = ce.args[0] if ce.args else ce.keywords[0].value
    if isinstance(a0, ast.Constant) and a0.value is None:
        return False
    return True


def timeout_arg_text(sc: Scope) -> str:
    ce = sc.ast.context_expr
    a0 = ce.args[0] if ce.args else (ce.keywords[0].value if ce.keywords
                                     else None)
    return ast.unparse(a0) if a0 is not None else ''


def reply_constant_code(e: Engine, expr, ctx: Ctx) -> Optional[str]:
    """Code of a module-level `NAME = Reply('<code>', ...)` constant that
    `expr` (a Name / Attribute) refers to."""
    q = e.p.resolve_expr_qname(ctx.func.module, expr)
    if not q:
        return None
    mod, _, name = q.rpartition('.')
    m = e.p.modules.get(mod)
    if m is None or name not in m.globals:
        return None
    v = m.globals[name]
    if isinstance(v, ast.Call) and ast.unparse(v.func).endswith('Reply') \
            and v.args and isinstance(v.args[0], ast.Constant):
        return v.args[0].value
    return None


def chain_text(node: Node) -> list:
    """Inline stack of a node as 'file:line func' entries."""
    out = []
    for fr in node.frame.chain():
        if fr.call is not None and fr.parent is not None:
            out.append('%s: %s' % (fr.parent.ctx.func.loc(fr.call),
                                   ' '.join(ast.unparse(fr.call).split())[:70]))
    out.append('%s: %s' % (node.loc(), node.text(70)))
    return out


def chain_funcs(node: Node) -> str:
    return ' -> '.join(fr.ctx.func.name for fr in node.frame.chain())


def unguarded_path(e, g, site, alternatives, start=None):
    """Path from entry to `site` on which none of the alternative atoms
    (list of (pol, key)) was established by a branch test, or None.
    Use for disjunctive guards (`if not a or b < c: site()`), which a
    must-facts intersection cannot express."""
    from ..facts import atoms_of_test, key_paths
    from .. import dataflow
    alts = set(alternatives)
    paths = set()
    for p, k in alts:
        paths |= set(key_paths(k))

    def step(n, label, st):
        if st:
            # an assignment to a mentioned path invalidates the guard
            if n.kind == 'stmt':
                import ast as _ast
                a = n.ast
                tg = []
                if isinstance(a, _ast.Assign):
                    tg = a.targets
                elif isinstance(a, (_ast.AugAssign, _ast.AnnAssign)):
                    tg = [a.target]
                from ..facts import path_of
                for t in tg:
                    if path_of(t, n.frame) in paths:
                        return False
            return True
        if n.kind == 'test' and label in ('T', 'F'):
            for atom in atoms_of_test(n.ast, label == 'T', n.frame):
                if atom in alts:
                    return True
        return False
    return dataflow.typestate_witness(
        g, False, step, lambda n, st: n is site and not st, start=start)


def per_iteration_counts(g, lp, count, cap=3):
    """Set of possible numbers of counted events in ONE iteration of the loop
    headed by iter node `lp` (paths from the 'body' edge back to the head;
    iterations left by break/return/raise are not included)."""
    from .. import dataflow
    starts = [s for l, s in lp.succ if l == 'body']
    if not starts:
        return frozenset()
    out = set()
    for st0 in starts:
        def transfer(n, st):
            if n is lp:
                return None           # do not run into the next iteration
            c = count(n)
            if not c:
                return st
            new = frozenset(min(cap, x + c) for x in st)
            return {None: new, 'exc': st}
        IN = dataflow.forward(g, frozenset([0]), transfer,
                              lambda a, b: a | b, start=st0)
        for l, p in lp.pred:
            if p.id in IN and p is not lp and l != 'body':
                st = IN[p.id]
                c = count(p)
                if isinstance(l, tuple):
                    continue
                out |= set(min(cap, x + c) for x in st) if c else set(st)
    return frozenset(out)
