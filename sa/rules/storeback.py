"""Store-back discipline of storage backends that sit on a caller-supplied
mapping (DictStorage on a dict *or a shelve*).

A shelve - the documented way to persist DictStorage - hands out a fresh
copy of the stored record on every `db[key]`.  So a record is changed for
good only by assigning it back: `rec = db[key]; <change rec>; db[key] = rec`.
Changing what `db[key]` returned without storing it back (`db[key][f] = v`,
`db[key].update(..)`, passing `db[key]` to something that changes it) works
on a plain dict and silently does nothing on a shelve: attempt counters stop
counting (the backoff never gives up: C01), delivered marks are lost (settled
recipients are attempted again: C03).
"""
from __future__ import annotations

import ast

from ..engine import Engine
from ..report import Report
from ..facts import path_of
from ..model import walk_own
from ..resolve import Ctx
from .. import dataflow
from . import common, c07

STORAGE = 'slimta.queue.QueueStorage'
MUTATORS = {'update', 'append', 'extend', 'insert', 'pop', 'remove', 'clear',
            'setdefault', 'add', 'discard', 'sort', 'reverse', 'popitem'}


def substrate_attrs(e: Engine, cq: str):
    """attributes of the backend that hold a mapping the caller supplied:
    assigned in __init__ from a constructor parameter (also `p if p is not
    None else {}`)"""
    c = e.p.classes.get(cq)
    init = c.methods.get('__init__') if c else None
    out = set()
    if init is None:
        return out
    params = set(init.params[1:])
    for n in walk_own(init.node):
        if isinstance(n, ast.Assign) and len(n.targets) == 1 and \
                isinstance(n.targets[0], ast.Attribute) and \
                isinstance(n.targets[0].value, ast.Name) and \
                n.targets[0].value.id == 'self':
            if any(isinstance(x, ast.Name) and x.id in params
                   for x in ast.walk(n.value)):
                out.add(n.targets[0].attr)
    return out


def run(e: Engine, rep: Report, rule: str):
    rep.rule(rule, 'store-back discipline on caller-supplied mappings: a '
             'record read with db[key] is changed only through a local that '
             'is assigned back (db[key] = rec) on every path; never through '
             'the temporary db[key] itself')
    n_back = 0
    n_fetch = 0
    for cq in sorted(e.p.subclasses(STORAGE)):
        attrs = substrate_attrs(e, cq)
        if not attrs:
            continue
        c = e.p.classes[cq]
        for mname, m in sorted(c.methods.items()):
            if mname == '__init__':
                continue
            ctx = Ctx(m, cq)

            def is_fetch(x):
                return isinstance(x, ast.Subscript) and \
                    isinstance(x.value, ast.Attribute) and \
                    isinstance(x.value.value, ast.Name) and \
                    x.value.value.id == 'self' and x.value.attr in attrs

            def mutating_call(call, argnode):
                """does `call` change the object passed as `argnode`?"""
                fn = call.func
                if isinstance(fn, ast.Attribute) and fn.value is argnode:
                    return fn.attr in MUTATORS
                res = e.r.resolve_call(call, ctx)
                for t in res.targets:
                    prm = list(t.func.params)
                    if t.func.kind in ('method', 'classmethod') and \
                            isinstance(fn, ast.Attribute):
                        prm = prm[1:]
                    for i, a in enumerate(call.args):
                        if a is argnode and i < len(prm) and \
                                e.cg.mutates_param(t.ctx(), prm[i]):
                            return True
                return False
            def stores_back(call, argnode, depth=0):
                """does every callee of `call` (a method of this backend)
                that changes the object passed as `argnode` also assign it
                back into a substrate mapping on every path after the
                change (`meta.update(..); self.meta_db[id] = meta`)?"""
                res = e.r.resolve_call(call, ctx)
                if not res.targets or res.externals or res.unresolved:
                    return False
                for t in res.targets:
                    if t.func.cls is None or not e.p.is_subclass(
                            cq, t.func.cls.qname):
                        return False
                    prm = list(t.func.params)
                    if t.func.kind in ('method', 'classmethod') and \
                            isinstance(call.func, ast.Attribute):
                        prm = prm[1:]
                    pn = None
                    for i, a in enumerate(call.args):
                        if a is argnode and i < len(prm):
                            pn = prm[i]
                    if pn is None:
                        return False
                    tg = e.build(t.ctx(), raises=lambda b, n, r: set())

                    def mut(n, pn=pn):
                        a = n.ast
                        if n.kind == 'stmt':
                            tgs = a.targets if isinstance(a, ast.Assign) \
                                else ([a.target] if isinstance(
                                    a, ast.AugAssign) else (
                                    a.targets if isinstance(a, ast.Delete)
                                    else []))
                            for t0 in tgs:
                                for y in ast.walk(t0):
                                    if isinstance(y, (ast.Subscript,
                                                      ast.Attribute)) and \
                                            isinstance(y.value, ast.Name) \
                                            and y.value.id == pn and \
                                            isinstance(y.ctx, (ast.Store,
                                                               ast.Del)):
                                        return True
                        if n.kind == 'call':
                            f2 = a.func
                            if isinstance(f2, ast.Attribute) and \
                                    isinstance(f2.value, ast.Name) and \
                                    f2.value.id == pn and \
                                    f2.attr in MUTATORS:
                                return True
                        return False

                    def back(n, pn=pn):
                        a = n.ast
                        return n.kind == 'stmt' and \
                            isinstance(a, ast.Assign) and any(
                                is_fetch(t0) for t0 in a.targets) and \
                            isinstance(a.value, ast.Name) and a.value.id == pn
                    if any(isinstance(y, ast.Name) and y.id == pn and
                           isinstance(y.ctx, (ast.Store, ast.Del))
                           for y in walk_own(t.func.node)):
                        return False
                    muts = [n for n in tg.nodes if mut(n)]
                    # (a change made by a further helper is not followed)
                    if not muts or any(
                            n.kind == 'call' and any(
                                isinstance(a, ast.Name) and a.id == pn
                                for a in n.ast.args) and
                            mutating_call(n.ast, next(
                                a for a in n.ast.args
                                if isinstance(a, ast.Name) and a.id == pn))
                            for n in tg.nodes if not mut(n)):
                        return False
                    after = dataflow.must_events_after(
                        tg, lambda n: ['back'] if back(n) else [],
                        edge=c07.no_call_exc)
                    for mu in muts:
                        st = after.get(mu.id)
                        if not (isinstance(st, dataflow.Top) or
                                'back' in (st or ())):
                            return False
                return True
            fn = m.node
            n_fetch += sum(1 for x in walk_own(fn) if is_fetch(x))
            parents = {}
            for x in ast.walk(fn):
                for ch in ast.iter_child_nodes(x):
                    parents[id(ch)] = x
            # (a) mutation through the temporary
            for x in walk_own(fn):
                if not is_fetch(x) or not isinstance(x.ctx, ast.Load):
                    continue
                par = parents.get(id(x))
                bad = None
                if isinstance(par, ast.Subscript) and par.value is x and \
                        isinstance(par.ctx, (ast.Store, ast.Del)):
                    bad = 'item assignment / deletion'
                elif isinstance(par, ast.Attribute) and par.value is x:
                    gp = parents.get(id(par))
                    if isinstance(par.ctx, (ast.Store, ast.Del)):
                        bad = 'attribute assignment'
                    elif isinstance(gp, ast.Call) and gp.func is par and \
                            par.attr in MUTATORS:
                        bad = '.%s(...)' % par.attr
                elif isinstance(par, ast.Call) and x in par.args and \
                        mutating_call(par, x) and not stores_back(par, x):
                    bad = 'passed to `%s`, which changes it' % \
                        ast.unparse(par.func)
                elif isinstance(par, ast.AugAssign) and par.target is x:
                    bad = None       # db[key] += v stores back by itself
                if bad:
                    rep.evaluations += 1
                    n_back += 1
                    rep.bad(rule, m.qname, 'record changed through the '
                            'temporary `%s`' % ast.unparse(x),
                            'the record `%s` returns is changed in place '
                            '(%s) and never assigned back: on a shelve - the '
                            'documented persistent substrate - that is a '
                            'copy, the change is lost (attempt counters do '
                            'not advance, delivered marks vanish)'
                            % (ast.unparse(x), bad), loc=m.loc(x))
            # (b) locals bound to a fetched record
            recs = {}
            for a in walk_own(fn):
                if isinstance(a, ast.Assign) and len(a.targets) == 1 and \
                        isinstance(a.targets[0], ast.Name) and \
                        is_fetch(a.value):
                    recs.setdefault(a.targets[0].id, []).append(a)
            if not recs:
                continue
            g = e.build(ctx, raises=lambda b, n, r: set())
            rep.functions.add(m.qname)
            for var, defs in sorted(recs.items()):
                db = defs[0].value.value.attr
                vp = '%s#%d' % (var, g.entry.frame.id)

                def is_mut(n):
                    a = n.ast
                    if n.kind == 'stmt':
                        tg = a.targets if isinstance(a, ast.Assign) else (
                            [a.target] if isinstance(a, ast.AugAssign) else (
                                a.targets if isinstance(a, ast.Delete)
                                else []))
                        for t in tg:
                            for y in ast.walk(t):
                                if isinstance(y, (ast.Subscript,
                                                  ast.Attribute)) and \
                                        isinstance(y.value, ast.Name) and \
                                        y.value.id == var and \
                                        isinstance(y.ctx, (ast.Store,
                                                           ast.Del)):
                                    return True
                    if n.kind == 'call':
                        f2 = a.func
                        if isinstance(f2, ast.Attribute) and \
                                isinstance(f2.value, ast.Name) and \
                                f2.value.id == var and f2.attr in MUTATORS:
                            return True
                        for arg in a.args:
                            if isinstance(arg, ast.Name) and arg.id == var \
                                    and mutating_call(a, arg) and \
                                    not stores_back(a, arg):
                                return True
                    return False

                def is_back(n):
                    a = n.ast
                    return n.kind == 'stmt' and isinstance(a, ast.Assign) \
                        and any(is_fetch(t) and t.value.attr == db
                                for t in a.targets) and \
                        isinstance(a.value, ast.Name) and a.value.id == var
                muts = [n for n in g.nodes if is_mut(n)]
                if not muts:
                    continue
                after = dataflow.must_events_after(
                    g, lambda n: ['back'] if is_back(n) else [],
                    edge=c07.no_call_exc)
                for mu in muts:
                    rep.evaluations += 1
                    n_back += 1
                    st = after.get(mu.id)
                    ok = isinstance(st, dataflow.Top) or 'back' in (st or ())
                    rep.check(ok, rule, m.qname,
                              'changed record `%s` is stored back into '
                              'self.%s' % (var, db),
                              '`%s` (read from self.%s) is changed by `%s` '
                              'but not assigned back on every path: on a '
                              'shelve the change is lost' % (
                                  var, db, mu.text(40)), loc=mu.loc(),
                              reason='self.%s[...] = %s on every path '
                              'after' % (db, var))
    # (vacuity guard: the rule looked at records read from a substrate)
    if n_fetch < 3:
        rep.error('anchor vanished: reads of records from caller-supplied '
                  'mappings (%d < 3)' % n_fetch)
