"""One module per claimed property; each exposes run(engine, report)."""
