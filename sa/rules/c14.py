"""C14 - no peer can hold a session or delivery attempt beyond its timeouts.

T1  every blocking receive-side primitive reachable from a session / attempt
    entry lies inside a `with Timeout(...)` scope somewhere on its inline
    chain (interprocedural scope coverage).
T2  on the server side the command / data timeout scope is entered once per
    phase, not once per recv (cumulative timeout).
T3  a timeout ends a relay attempt with a transient result (pipe relay arms
    here; pool clients through the request typestate of rules/pool.py).
T4  a server-side timeout is answered with 421, flushed, and ends the session.
"""
from __future__ import annotations

import ast

from ..engine import Engine
from ..model import walk_own
from ..report import Report
from ..cfg import Node, TIMEOUT, ANY
from .. import dataflow, tables
from . import common
from . import pool

DENY = ['_call_custom_handler', 'poll', 'log_exception']

PHASES = ('slimta.smtp.server.Server._recv_command',
          'slimta.smtp.server.Server._get_message_data')


def entries(e: Engine):
    out = [('server session', e.method_ctx('slimta.smtp.server.Server',
                                            'handle')),
           ('server session', e.method_ctx('slimta.edge.smtp.SmtpEdge',
                                           'handle'))]
    for c in e.concrete_classes('slimta.relay.smtp.client.SmtpRelayClient'):
        out.append(('relay attempt', e.method_ctx(c, '_run')))
    out.append(('relay attempt', e.method_ctx(
        'slimta.relay.http.HttpRelayClient', '_run')))
    for c in e.concrete_classes('slimta.relay.pipe.PipeRelay'):
        out.append(('relay attempt', e.method_ctx(c, 'attempt')))
    return out


def is_primitive(e: Engine, n: Node, sends=False):
    """(kind, reason) if the call node is a blocking receive-side primitive
    that no repo function implements (i.e. it leaves the analysed code)."""
    if n.kind != 'call' or n.extra.get('partial'):
        return None
    res = n.extra.get('res')
    if res is None or res.targets:
        return None
    name = e.call_name(n)
    if name in tables.BLOCKING_PRIMITIVES and \
            isinstance(n.ast.func, ast.Attribute):
        return name, tables.BLOCKING_PRIMITIVES[name]
    if sends and name in tables.BLOCKING_SEND_PRIMITIVES and \
            isinstance(n.ast.func, ast.Attribute):
        return name, tables.BLOCKING_SEND_PRIMITIVES[name]
    key = (n.frame.ctx.func.module.name, name)
    if key in tables.BLOCKING_PRIMITIVES_IN and \
            isinstance(n.ast.func, ast.Attribute):
        return name, tables.BLOCKING_PRIMITIVES_IN[key]
    for x in res.externals:
        if x.endswith('create_connection'):
            return 'connect', 'TCP connect blocks until the peer answers'
    return None


def build(e: Engine, ctx):
    depth = 14 if e.tier == 'thorough' else 12
    return e.build(ctx, inline=e.inline_all(
        deny=DENY, only_modules=None), max_depth=depth)


def skip_module(t):
    return t.func.module.name.startswith('slimta.logging')


def run(e: Engine, rep: Report):
    rep.rule('T1', 'every blocking receive primitive reachable from a '
             'session/attempt entry is covered by a `with Timeout(...)` '
             'scope on its call chain (or acts on a socket that was made '
             'non-blocking on every path before)')
    rep.rule('T2', 'server command/data timeout scope is entered once per '
             'phase (no loop between phase entry and the scope)')
    rep.rule('T3', 'a timeout ends the attempt with a transient result')
    rep.rule('T4', 'server Timeout handler sends a 421 constant, flushes '
             'and raises')
    rep.rule('T5', 'the duration of the data-phase Timeout scope falls back '
             'to the command timeout: with only command_timeout configured '
             'the data phase is still bounded')
    rep.tables.add('tables.BLOCKING_PRIMITIVES')
    rep.tables.add('c14.FALLBACKS')
    rep.not_decided += ['wall-clock values of the configured timeouts',
                        'send-side stalls on the server side (kernel send '
                        'buffers)',
                        'DNS resolver and idle poll() waits (bounded '
                        'elsewhere, exempt by table)']
    inline = e.inline_all(deny=DENY)

    def pol(builder, call, target, frame):
        if skip_module(target):
            return False
        return inline(builder, call, target, frame)

    nprim = 0
    for label, ctx in entries(e):
        depth = 14 if e.tier == 'thorough' else 12
        g = e.build(ctx, inline=pol, max_depth=depth)
        reach = dataflow.reachable(g)
        where = '%s[%s]' % (ctx.func.qname, (ctx.self_cls or '').rpartition(
            '.')[2])
        for fr in {n.frame for n in g.nodes}:
            rep.functions.add(fr.ctx.func.qname)
        seen = set()
        from ..facts import canon

        def nonblock(x):
            # <sock>.settimeout(0) / (0.0): later waits on it return at once
            if x.kind == 'call' and e.call_name(x) == 'settimeout' and \
                    x.ast.args and isinstance(x.ast.args[0], ast.Constant) \
                    and x.ast.args[0].value in (0, 0.0) and \
                    isinstance(x.ast.func, ast.Attribute):
                return ['nb:' + canon(x.ast.func.value, x.frame)]
            return []
        nb_before = dataflow.must_events_before(g, nonblock)
        for n in g.nodes:
            if n.id not in reach:
                continue
            prim = is_primitive(e, n, sends=(label == 'relay attempt'))
            if not prim:
                continue
            nprim += 1
            rep.evaluations += 1
            chain = common.chain_funcs(n)
            text = '%s :: %s' % (chain, n.text(60))
            if text in seen:
                continue      # same chain, other CFG copy (finally dup.)
            seen.add(text)
            cover = [sc for sc in n.scopes if common.timeout_scope(e, sc)]
            other = None if cover else common.covering_timeout(e, n)
            if other:
                rep.ok('T1', where, text, loc=n.loc(),
                       reason='inside ' + other)
                continue
            if not cover and isinstance(n.ast.func, ast.Attribute) and \
                    ('nb:' + canon(n.ast.func.value, n.frame)) in (
                        nb_before.get(n.id) or ()):
                rep.ok('T1', where, text, loc=n.loc(),
                       reason='the socket was made non-blocking '
                       '(settimeout(0)) on every path before')
                continue
            if cover:
                rep.ok('T1', where, text, loc=n.loc(),
                       reason='inside with Timeout(%s) in %s' % (
                           common.timeout_arg_text(cover[0]),
                           cover[0].frame.ctx.func.name))
            else:
                rep.bad('T1', where, text,
                        'blocking %s (%s) is reachable from the %s entry '
                        'with no enclosing `with Timeout(...)` on the call '
                        'chain: a silent peer holds it forever' % (
                            prim[0], prim[1], label),
                        loc=n.loc(), witness=common.chain_text(n))
            # T2: cumulative scope on the server phases
            if cover:
                fchain = [fr.ctx.func.qname for fr in n.frame.chain()]
                ph = [q for q in PHASES if q in fchain]
                if ph:
                    scopes = list(n.scopes)
                    k = max(i for i, sc in enumerate(scopes)
                            if sc.kind == 'func' and
                            sc.frame.ctx.func.qname == ph[0])
                    i = scopes.index(cover[0])
                    lo, hi = min(i, k), max(i, k)
                    loops = [sc for sc in scopes[lo + 1:hi]
                             if sc.kind == 'loop']
                    rep.check(not loops, 'T2', where, text,
                              'the Timeout scope covering this read is '
                              're-entered inside a loop of the %s phase: the '
                              'timeout is per read, not cumulative' %
                              ph[0].rpartition('.')[2],
                              reason='scope entered once per phase',
                              loc=n.loc(), witness=common.chain_text(n))
    if nprim < 12:
        rep.error('anchor vanished: only %d blocking primitives found '
                  '(>= 12 confirmed by hand)' % nprim)
    rep.extra['primitive_sites'] = nprim

    t4(e, rep)
    t3_pipe(e, rep)
    t5(e, rep)
    rep.rule('T6', 'a timeout given to a constructor reaches the base '
             'class under its own name: in every super().__init__(...) of '
             'the relay / edge / server classes an argument that is a '
             '`*timeout*` parameter is bound to the base parameter of the '
             'same name (positional forwarding that went out of step '
             'leaves the duration None: no timeout at all)')
    t6(e, rep)
    pool.request_typestate(e, rep, 'T3', only_exc=(TIMEOUT,))
    rep.rule('T7', 'the handlers that settle a request after a failed step '
             'do not need the connection: on no path from the start of '
             '_run to an `assert self.client ...` inside an except arm is '
             'self.client still unset while the request is unsettled (a '
             'connect that timed out would end in AssertionError, and the '
             'attempt would wait for ever)')
    t7(e, rep)
    rep.rule('T8', 'the blocking primitives of the relay modules are '
             'gevent\'s: no connection / sleep / subprocess call goes to '
             'the standard-library module of the same name (table '
             'STDLIB_BLOCKERS) - a call that blocks the whole process cannot '
             'be interrupted by any gevent.Timeout around it')
    rep.tables.add('c14.STDLIB_BLOCKERS')
    t8(e, rep)
    rep.rule('T9', 'a timeout bounds the step it is armed for: in the relay '
             'modules no `while` loop re-arms a Timeout scope round after '
             'round for the same request (the only unbounded loops around '
             'timed steps are the ones that take a NEW request with poll())')
    t9(e, rep)
    rep.rule('T10', 'one clock per pipe attempt: the `with Timeout('
             'self.timeout)` of the pipe relay is entered outside the loop '
             'over the recipients - a scope per recipient (or per child '
             'process) bounds each delivery, and the attempt by n times the '
             'configured timeout')
    t10(e, rep)
    rep.rule('T11', 'the work a timeout scope is there for runs inside it: '
             'nothing bound in the body of a `with Timeout(...)` is a lazy '
             'sequence (map / filter / zip / a generator expression) that '
             'is first consumed - or handed out - after the block; map() '
             'runs nothing until it is iterated, so the blocking calls '
             'happen with no clock armed')
    t11(e, rep)


def t4(e: Engine, rep: Report):
    ctx = e.method_ctx('slimta.smtp.server.Server', 'handle')
    where = ctx.func.qname
    g = e.build(ctx, inline=e.inline_same_self(
        deny=['_handle_command', '_recv_command', '_call_custom_handler',
              '_encrypt_session']), max_depth=3)
    rep.functions.add(where)

    # calls that must be protected by the Timeout handler
    need = [n for n in g.calls()
            if e.call_name(n) in ('_recv_command', '_handle_command')]
    if len(need) < 2:
        rep.error('anchor vanished: _recv_command/_handle_command calls in '
                  'Server.handle')
    for n in need:
        rep.evaluations += 1
        hs = [(sc, h) for sc in n.scopes if sc.kind == 'try'
              for h in sc.data['handlers']
              if any(t in common.TIMEOUT_QNAMES for t in h[0])]
        rep.check(bool(hs), 'T4', where, 'handler covers ' +
                  e.call_name(n),
                  'no `except Timeout` arm encloses the %s call: a timeout '
                  'ends the session without a 421' % e.call_name(n),
                  reason='enclosed by except Timeout', loc=n.loc())
    handlers = [n for n in g.of_kind('handler')
                if any(t in common.TIMEOUT_QNAMES
                       for t in n.extra.get('types', []))]
    def ev(n):
        out = []
        if n.kind == 'call' and e.call_name(n) == 'send' and \
                isinstance(n.ast.func, ast.Attribute):
            code = common.reply_constant_code(e, n.ast.func.value, n.ctx)
            if code == '421':
                out.append('send421')
                if any(isinstance(k.value, ast.Constant) and k.value.value
                       for k in n.ast.keywords if k.arg == 'flush'):
                    out.append('flush')
        if n.kind == 'call' and e.call_name(n) == 'flush_send':
            out.append('flush')
        return out
    # exception edges out of calls are disregarded (the reply could not be
    # sent at all); explicit raise statements terminate the path.
    for i, h in enumerate(handlers):
        rep.evaluations += 1
        hf0 = e.facts(g, start=h)
        after = dataflow.must_events_after(
            g, ev, on_exit=frozenset(), on_raise=frozenset(),
            edge=lambda p, l, s, si, hf0=hf0: (
                None if ((isinstance(l, tuple) and p.kind != 'stmt') or
                         hf0.infeasible(p, l)) else si))
        st = after.get(h.id)
        got = set() if st is None or isinstance(st, dataflow.Top) else st
        if isinstance(st, dataflow.Top):
            got = {'send421', 'flush'}    # no terminating path at all
        ok = 'send421' in got and 'flush' in got
        # the session must not go on: no way back to the command loop
        hf = e.facts(g, start=h)
        cont = dataflow.find_path(
            g, h, lambda n: n in need,
            edge_ok=lambda p, l, s: not (isinstance(l, tuple) and
                                         p.kind != 'stmt') and
            not hf.infeasible(p, l))
        text = 'except Timeout arm #%d' % (i + 1)
        w = dataflow.render_path(cont) if cont else None
        rep.check(ok and cont is None, 'T4', where, text,
                  'after a timeout the session must end with a flushed 421 '
                  'on every path (events guaranteed: %s; path back to the '
                  'command loop: %s)' % (sorted(got), 'yes' if cont else 'no'),
                  reason='flushed 421 constant on every path, never back to '
                  'the command loop', loc=h.loc(), witness=w)
    if not handlers:
        rep.bad('T4', where, 'except Timeout arm',
                'Server.handle has no `except Timeout` arm', loc=ctx.func.loc())


def t3_pipe(e: Engine, rep: Report):
    trans = 'slimta.relay.TransientRelayError'
    perm = 'slimta.relay.PermanentRelayError'
    for c in e.concrete_classes('slimta.relay.pipe.PipeRelay'):
        ctx = e.method_ctx(c, 'attempt')
        g = e.build(ctx, inline=e.inline_same_self())
        where = '%s[%s]' % (ctx.func.qname, c.rpartition('.')[2])
        comm = [n for n in g.nodes if n.kind == 'call' and
                e.call_name(n) == 'communicate']
        if not comm:
            rep.error('anchor vanished: communicate() under %s' % where)
            continue
        for n in comm:
            rep.evaluations += 1
            hs = [h for sc in n.scopes if sc.kind == 'try'
                  for h in sc.data['handlers']
                  if any(t in common.TIMEOUT_QNAMES for t in h[0])]
            text = common.chain_funcs(n) + ' :: except Timeout'
            if not hs:
                rep.bad('T3', where, text,
                        'no `except Timeout` arm around the subprocess wait: '
                        'a pipe timeout escapes as gevent.Timeout instead of '
                        'a transient relay error', loc=n.loc())
                continue
            for types, h in hs:
                inside = [m for m in g.nodes if any(
                    sc.kind == 'handler' and sc.ast is h.ast
                    for sc in m.scopes)]
                ctor = set()
                for m in inside:
                    if m.kind in ('call', 'call_enter'):
                        res = m.extra.get('res')
                        for cq in (res.ctor_of if res else []):
                            if e.p.is_subclass(cq, trans):
                                ctor.add('transient')
                            elif e.p.is_subclass(cq, perm):
                                ctor.add('permanent')
                rep.check(ctor == {'transient'}, 'T3', where, text,
                          'the Timeout arm must produce TransientRelayError '
                          'only (constructs: %s)' % sorted(ctor),
                          reason='Timeout arm builds TransientRelayError',
                          loc=h.loc())


# (class, attribute used as a Timeout duration, its own constructor
# parameter, the parameter it falls back to) - confirmed by reading both
# constructors; the docstrings call data_timeout optional
FALLBACKS = [
    ('slimta.smtp.server.Server', 'data_timeout', 'data_timeout',
     'command_timeout'),
    ('slimta.relay.smtp.client.SmtpRelayClient', 'data_timeout',
     'data_timeout', 'command_timeout'),
]


def _abs_none(x: ast.AST, env):
    """'none' | 'set' | None(unknown) for an expression over parameters that
    are either None or a configured number."""
    if isinstance(x, ast.Name):
        return env.get(x.id)
    if isinstance(x, ast.Constant):
        return 'none' if x.value is None else 'set'
    if isinstance(x, ast.BoolOp) and isinstance(x.op, ast.Or):
        for v in x.values:
            r = _abs_none(v, env)
            if r is None:
                return None
            if r == 'set':
                return 'set'
        return 'none'
    if isinstance(x, ast.IfExp):
        t = x.test
        cond = None
        if isinstance(t, ast.Compare) and len(t.ops) == 1 and \
                isinstance(t.comparators[0], ast.Constant) and \
                t.comparators[0].value is None:
            l = _abs_none(t.left, env)
            if l is not None:
                if isinstance(t.ops[0], ast.Is):
                    cond = l == 'none'
                elif isinstance(t.ops[0], ast.IsNot):
                    cond = l != 'none'
        else:
            l = _abs_none(t, env)
            if l is not None:
                cond = l == 'set'
        if cond is None:
            return None
        return _abs_none(x.body if cond else x.orelse, env)
    return None


def t5(e: Engine, rep: Report):
    for cq, attr, own, fb in FALLBACKS:
        c = e.p.classes.get(cq)
        init = c.methods.get('__init__') if c else None
        if init is None:
            rep.error('anchor vanished: %s.__init__' % cq)
            continue
        # the attribute really is the duration of a Timeout scope
        # the attribute is what some timeout is armed with (whatever the
        # idiom: Timeout(x), Timeout.start_new(x), with_timeout(x, ...), a
        # helper taking the duration): it is passed to a call outside
        # __init__
        used = any(isinstance(n, ast.Call) and any(
            ast.unparse(a) == 'self.' + attr for a in n.args)
            for mn, m in c.methods.items() if mn != '__init__'
            for n in walk_own(m.node))
        defs = [n for n in walk_own(init.node) if isinstance(n, ast.Assign)
                and any(ast.unparse(t) == 'self.' + attr
                        for t in n.targets)]
        rep.evaluations += 1
        if not used or not defs:
            rep.error('anchor vanished: Timeout(self.%s) / its assignment '
                      'in %s' % (attr, cq))
            continue
        for d in defs:
            r = _abs_none(d.value, {own: 'none', fb: 'set'})
            if r is None:
                rep.unknown('T5', init.qname, 'fallback of ' + attr,
                            'cannot evaluate `%s`' % ast.unparse(d.value),
                            loc=init.loc(d))
                continue
            rep.check(r == 'set', 'T5', init.qname,
                      '%s falls back to %s' % (attr, fb),
                      'with %s configured and %s left at its default, '
                      'self.%s is None: `with Timeout(None)` never fires, '
                      'so a peer that stalls during the data phase holds '
                      'the %s for ever' % (
                          fb, own, attr, 'session' if 'server' in cq
                          else 'delivery attempt'),
                      loc=init.loc(d),
                      reason='`%s` is set whenever %s is'
                      % (ast.unparse(d.value), fb))


# ---------------------------------------------------------------------- T6
def t6(e: Engine, rep: Report):
    n = 0
    for cq, c in sorted(e.p.classes.items()):
        if not c.module.name.startswith('slimta.'):
            continue
        init = c.methods.get('__init__')
        if init is None:
            continue
        for x in walk_own(init.node):
            if not (isinstance(x, ast.Call) and
                    isinstance(x.func, ast.Attribute) and
                    x.func.attr == '__init__'):
                continue
            # super(...).__init__(...) / Base.__init__(self, ...)
            base_init, skip = None, 0
            v = x.func.value
            if isinstance(v, ast.Call) and isinstance(v.func, ast.Name) and \
                    v.func.id == 'super':
                mro = e.p.mro(cq)[1:]
                for k in mro:
                    kc = e.p.classes.get(k)
                    if kc is not None and '__init__' in kc.methods:
                        base_init = kc.methods['__init__']
                        break
            elif isinstance(v, (ast.Name, ast.Attribute)):
                q = e.p.resolve_expr_qname(c.module, v)
                kc = e.p.classes.get(q) if q else None
                if kc is not None and '__init__' in kc.methods:
                    base_init = kc.methods['__init__']
                    skip = 1
            if base_init is None:
                continue
            bparams = list(base_init.params)[1:]
            args = list(x.args)[skip:]
            if any(isinstance(a, ast.Starred) for a in args):
                continue
            for i, a in enumerate(args):
                if not (isinstance(a, ast.Name) and 'timeout' in a.id and
                        a.id in init.params):
                    continue
                n += 1
                rep.evaluations += 1
                rep.functions.add(init.qname)
                bound = bparams[i] if i < len(bparams) else None
                rep.check(bound == a.id or a.id not in bparams, 'T6',
                          init.qname, 'argument `%s` reaches the base '
                          'parameter of that name' % a.id,
                          '`%s` is passed in position %d of %s, which is '
                          'the base parameter `%s`; the base constructor '
                          'also has a parameter `%s`, which stays at its '
                          'default: the configured duration never arrives '
                          'where the Timeout scope reads it, and the '
                          'operation it was to bound can hang for ever'
                          % (a.id, i + 1, base_init.qname, bound, a.id),
                          loc=init.loc(x), reason='same name on both sides')
            for k in x.keywords:
                if k.arg and 'timeout' in k.arg:
                    n += 1
    rep.evaluations += 1
    if n < 2:
        rep.error('anchor vanished: timeout arguments forwarded to base '
                  'constructors (%d < 2)' % n)


# ---------------------------------------------------------------------- T7
def t7(e: Engine, rep: Report):
    from ..facts import path_of
    n_cls = 0
    for c in e.concrete_classes(pool.POOL_CLIENT):
        if c == pool.POOL_CLIENT:
            continue
        ctx = e.method_ctx(c, '_run')
        k = e.p.classes[c]
        # does the class keep its connection in an attribute that starts
        # out as None?
        init = e.p.lookup_method(c, '__init__')
        attrs = set()
        if init is not None:
            for a in walk_own(init.node):
                if isinstance(a, ast.Assign) and \
                        isinstance(a.value, ast.Constant) and \
                        a.value.value is None:
                    for t in a.targets:
                        if isinstance(t, ast.Attribute) and \
                                isinstance(t.value, ast.Name) and \
                                t.value.id == 'self':
                            attrs.add('self.' + t.attr)
        where = '%s[%s]' % (ctx.func.qname, c.rpartition('.')[2])
        g = e.build(ctx, inline=e.inline_same_self(deny=['poll']),
                    raises=pool.make_raises(e), max_depth=8,
                    assert_raises=True)
        rep.functions.add(ctx.func.qname)
        asserts = [n for n in g.of_kind('stmt')
                   if isinstance(n.ast, ast.Assert) and any(
                       sc.kind == 'handler' for sc in n.scopes)]
        fx = e.facts(g)
        n_cls += 1
        if not asserts:
            rep.evaluations += 1
            rep.ok('T7', where, 'no assert inside an except arm',
                   reason='handlers do not assert', nontrivial=False,
                   loc=ctx.func.loc())
            continue
        for a in asserts:
            rep.evaluations += 1
            paths = {path_of(x, a.frame) for x in ast.walk(a.ast.test)
                     if isinstance(x, ast.Attribute)} & attrs
            if not paths:
                rep.ok('T7', where, '`%s` in an except arm' % ' '.join(
                    ast.unparse(a.ast).split())[:50], loc=a.loc(),
                    reason='not about state that starts out as None',
                    nontrivial=False)
                continue
            pth = sorted(paths)[0]

            def step(n, label, st, pth=pth):
                unset, settled = st
                if isinstance(label, tuple):
                    # this rule is about steps that time out (and asserts
                    # that fail): an arbitrary exception of an unresolved
                    # call is not followed
                    if label[1] == ANY:
                        return None
                    return st
                if n.kind == 'stmt' and isinstance(n.ast, ast.Assign):
                    for t in n.ast.targets:
                        if path_of(t, n.frame) == pth:
                            unset = isinstance(n.ast.value, ast.Constant) \
                                and n.ast.value.value is None
                if n.kind == 'test' and label in ('T', 'F'):
                    if fx.infeasible(n, label):
                        return None
                    t = n.ast
                    if path_of(t, n.frame) == pth:
                        if label == 'T' and unset:
                            return None
                        if label == 'F' and not unset:
                            return None
                if n.kind == 'call' and \
                        isinstance(n.ast.func, ast.Attribute) and \
                        n.ast.func.attr in ('set', 'set_exception',
                                            'appendleft'):
                    settled = True
                return (unset, settled)
            w = dataflow.typestate_witness(
                g, (True, False), step,
                lambda n, st, a=a: n is a and st[0] and not st[1])
            rep.check(w is None, 'T7', where,
                      '`%s` in an except arm' % ' '.join(
                          ast.unparse(a.ast).split())[:50],
                      'an except arm of _run runs `%s` before the request '
                      'is settled, and is reached while %s is still None '
                      '(the step that failed was the one that sets it): the '
                      'AssertionError leaves the arm, nobody settles the '
                      'request, and Relay.attempt() waits for ever - the '
                      'timeout did not end the attempt' % (
                          ' '.join(ast.unparse(a.ast).split())[:50], pth),
                      loc=a.loc(), reason='the attribute is set, or the '
                      'request settled, on every path here',
                      witness=dataflow.render_path(w, 14) if w else None)
    if n_cls < 3:
        rep.error('anchor vanished: pool clients (%d < 3)' % n_cls)


# ---------------------------------------------------------------------- T8
STDLIB_BLOCKERS = {
    'socket': {'create_connection', 'socket', 'socketpair', 'getaddrinfo',
               'gethostbyname', 'gethostbyaddr', 'create_server', 'fromfd'},
    'ssl': {'wrap_socket', 'create_default_context', 'SSLContext'},
    'time': {'sleep'},
    'select': {'select', 'poll', 'epoll'},
    'subprocess': {'Popen', 'run', 'call', 'check_call', 'check_output'},
    'threading': {'Lock', 'RLock', 'Event', 'Condition', 'Semaphore'},
    'queue': {'Queue'},
}


def t8(e: Engine, rep: Report):
    n = 0
    for mname, m in sorted(e.p.modules.items()):
        if not mname.startswith('slimta.relay'):
            continue
        n += 1
        # names bound to a standard-library module / function here
        mods, funcs = {}, {}
        for st in m.tree.body:
            if isinstance(st, ast.Import):
                for a in st.names:
                    if a.name in STDLIB_BLOCKERS:
                        mods[a.asname or a.name] = a.name
            elif isinstance(st, ast.ImportFrom) and st.level == 0 and \
                    st.module in STDLIB_BLOCKERS:
                for a in st.names:
                    if a.name in STDLIB_BLOCKERS[st.module]:
                        funcs[a.asname or a.name] = '%s.%s' % (st.module,
                                                               a.name)
        if not mods and not funcs:
            continue
        for x in ast.walk(m.tree):
            if not isinstance(x, ast.Call):
                continue
            f = x.func
            hit = None
            if isinstance(f, ast.Attribute) and \
                    isinstance(f.value, ast.Name) and f.value.id in mods \
                    and f.attr in STDLIB_BLOCKERS[mods[f.value.id]]:
                hit = '%s.%s' % (mods[f.value.id], f.attr)
            elif isinstance(f, ast.Name) and f.id in funcs:
                hit = funcs[f.id]
            if hit:
                rep.evaluations += 1
                rep.bad('T8', mname, '`%s`' % ' '.join(
                    ast.unparse(x).split())[:50],
                    'the relay calls the standard-library %s: in a process '
                    'that is not monkey-patched it blocks the gevent hub, '
                    'so no Timeout scope around the delivery can fire - a '
                    'destination that stalls holds the attempt (and the '
                    'whole process) for as long as it likes' % hit,
                    loc='%s:%d' % (m.relpath, x.lineno))
    rep.evaluations += 1
    if n < 5:
        rep.error('anchor vanished: relay modules (%d < 5)' % n)
    else:
        rep.ok('T8', 'slimta.relay', 'blocking primitives come from gevent',
               reason='%d modules scanned' % n, nontrivial=False)


# ---------------------------------------------------------------------- T9
def t9(e: Engine, rep: Report):
    n = 0

    def is_timeout_with(w, f):
        for it in w.items:
            ce = it.context_expr
            if isinstance(ce, ast.Call) and ast.unparse(ce.func).rpartition(
                    '.')[2] == 'Timeout':
                return True
        return False

    def features(nodes, f, depth=0, seen=()):
        """(arms a timeout, takes a new request) for the statements given
        and the methods of the same object they call"""
        tmo = poll = False
        for st in nodes:
            for x in ast.walk(st):
                if isinstance(x, ast.With) and is_timeout_with(x, f):
                    tmo = True
                if isinstance(x, ast.Call) and \
                        isinstance(x.func, ast.Attribute):
                    if x.func.attr in ('poll', 'popleft', 'pop'):
                        poll = True
                    if isinstance(x.func.value, ast.Name) and \
                            x.func.value.id == 'self' and f.cls is not None \
                            and depth < 3 and x.func.attr not in seen:
                        m = e.p.lookup_method(f.cls.qname, x.func.attr)
                        if m is not None:
                            t2, p2 = features(m.node.body, m, depth + 1,
                                              seen + (x.func.attr,))
                            tmo, poll = tmo or t2, poll or p2
        return tmo, poll
    for f in e.p.functions.values():
        if not f.module.name.startswith('slimta.relay'):
            continue
        for w in walk_own(f.node):
            if not isinstance(w, ast.While):
                continue
            n += 1
            rep.evaluations += 1
            rep.functions.add(f.qname)
            tmo, poll = features(w.body, f)
            rep.check(not tmo or poll, 'T9', f.qname,
                      '`while %s` does not re-arm a timeout for the same '
                      'request' % ' '.join(ast.unparse(w.test).split())[:30],
                      'every trip round `while %s` arms a fresh Timeout for '
                      'the same request: a peer that fails the same way '
                      'every time keeps the attempt going for ever, the '
                      'configured timeout never adds up'
                      % ' '.join(ast.unparse(w.test).split())[:30],
                      loc=f.loc(w), reason='no timed step inside' if not tmo
                      else 'takes a new request each round')
    if n < 2:
        rep.error('anchor vanished: while loops of the relay modules '
                  '(%d < 2)' % n)


# --------------------------------------------------------------------- T10
def t10(e: Engine, rep: Report):
    n = 0
    for c in e.concrete_classes('slimta.relay.pipe.PipeRelay'):
        ctx = e.method_ctx(c, 'attempt')
        g = e.build(ctx, inline=e.inline_same_self(), max_depth=4,
                    raises=lambda b, nn, r: set())
        where = '%s[%s]' % (ctx.func.qname, c.rpartition('.')[2])
        rep.functions.add(ctx.func.qname)
        scopes = [w for w in g.of_kind('with_enter')
                  if isinstance(w.ast.context_expr, ast.Call) and
                  ast.unparse(w.ast.context_expr.func).rpartition('.')[2]
                  == 'Timeout']
        # gevent.with_timeout(t, f, ...) arms the clock for one call of f
        scopes += [x for x in g.nodes if x.kind in ('call', 'call_enter') and
                   getattr(x.ast, '_via_with_timeout', None) is None and
                   ast.unparse(x.ast.func).rpartition('.')[2] ==
                   'with_timeout']
        scopes += [x for x in g.nodes if x.kind == 'call_enter' and
                   getattr(x.ast, '_via_with_timeout', None) is not None]
        for w in scopes:
            n += 1
            rep.evaluations += 1
            loops = [sc for sc in w.scopes if sc.kind == 'loop' and
                     isinstance(sc.ast, (ast.For, ast.comprehension)) and
                     'recipients' in ast.unparse(sc.ast.iter)]
            rep.check(not loops, 'T10', where,
                      'the timeout scope is entered once per attempt',
                      'the pipe relay enters `%s` inside its loop over the '
                      'recipients: every delivery gets the full timeout of '
                      'its own, an attempt for n recipients of a hanging '
                      'command lasts n times the configured timeout (and '
                      'keeps its slot of the relay pool that long)'
                      % w.text(40), loc=w.loc(),
                      reason='not inside the recipient loop')
    rep.evaluations += 1
    if n < 1:
        # (T1 reports a pipe relay whose child is not under a timeout)
        rep.ok('T10', 'slimta.relay.pipe', 'no timeout scope found in the '
               'pipe relay', reason='coverage is T1\'s obligation',
               nontrivial=False)


# ---------------------------------------------------------------------- T11
_LAZY = {'map', 'filter', 'zip', 'imap', 'starmap', 'chain', 'enumerate',
         'reversed', 'iter', 'islice'}


def t11(e: Engine, rep: Report):
    n = 0
    for f in sorted(e.p.functions.values(), key=lambda f: f.qname):
        if not f.module.name.startswith('slimta'):
            continue
        withs = [w for w in walk_own(f.node) if isinstance(w, ast.With) and
                 any(isinstance(i.context_expr, ast.Call) and
                     ast.unparse(i.context_expr.func).rpartition('.')[2]
                     == 'Timeout' for i in w.items)]
        for w in withs:
            n += 1
            rep.evaluations += 1
            rep.functions.add(f.qname)
            inside = [x for b in w.body for x in ast.walk(b)]
            lazy = {}

            def is_lazy(v):
                if isinstance(v, ast.GeneratorExp):
                    return True
                if isinstance(v, ast.Call) and \
                        isinstance(v.func, (ast.Name, ast.Attribute)):
                    nm = v.func.id if isinstance(v.func, ast.Name) \
                        else v.func.attr
                    if nm in ('map', 'filter', 'imap', 'starmap'):
                        return True
                    if nm in _LAZY:
                        return any(is_lazy(a) or (
                            isinstance(a, ast.Name) and a.id in lazy)
                            for a in v.args)
                return False
            bad = None
            for x in sorted((x for x in inside
                             if isinstance(x, (ast.Assign, ast.Return))),
                            key=lambda x: (x.lineno, x.col_offset)):
                if isinstance(x, ast.Return) and x.value is not None and \
                        is_lazy(x.value):
                    bad = (x, 'is returned from inside the block')
                    break
                if isinstance(x, ast.Assign) and is_lazy(x.value):
                    for t in x.targets:
                        if isinstance(t, ast.Name):
                            lazy[t.id] = x
            if bad is None:
                for nm, a in sorted(lazy.items()):
                    used_in = [y for y in inside if isinstance(y, ast.Name)
                               and y.id == nm and
                               isinstance(y.ctx, ast.Load) and
                               (y.lineno, y.col_offset) >
                               (a.lineno, a.col_offset)]
                    # handed on to another lazy wrapper only: still lazy
                    real = []
                    for y in used_in:
                        par = [p for p in inside if isinstance(p, ast.Assign)
                               and y in ast.walk(p.value) and
                               is_lazy(p.value)]
                        if not par:
                            real.append(y)
                    end = max((getattr(y, 'end_lineno', 0) or 0)
                              for y in inside) if inside else w.lineno
                    after = [y for y in walk_own(f.node)
                             if isinstance(y, ast.Name) and y.id == nm and
                             isinstance(y.ctx, ast.Load) and y.lineno > end]
                    if not real and after:
                        bad = (a, 'is first consumed after the block '
                               '(line %d)' % after[0].lineno)
                        break
            rep.check(bad is None, 'T11', f.qname,
                      'what `with %s` times runs inside it'
                      % ' '.join(ast.unparse(
                          w.items[0].context_expr).split())[:40],
                      '`%s` builds a lazy sequence under the timeout and it '
                      '%s: the calls it stands for (child processes, '
                      'network round trips) run when it is iterated, outside '
                      'the scope - a command that hangs is never timed out '
                      'and holds the attempt (and its slot) for good'
                      % (' '.join(ast.unparse(bad[0]).split())[:60]
                         if bad else '', bad[1] if bad else ''),
                      loc=f.loc(bad[0] if bad else w),
                      reason='no map / filter / generator leaves the block '
                      'unconsumed')
    if n < 3:
        rep.error('anchor vanished: `with Timeout(...)` scopes in slimta '
                  '(%d < 3)' % n)
