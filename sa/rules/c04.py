"""C04 - a crash at any point never loses an acknowledged message (disk
queue).  The crash-point quantifier ranges over file-system effects; which
effects can occur and in which order is fixed by the text of
slimta/diskstorage/__init__.py.

R4.1 atomic publish: files are created only by AioFile.dump, which writes a
     temp file completely and then renames it onto the final path
R4.2 DiskStorage.write: envelope file, then meta file, then return the id
R4.3 metadata updates are read-modify-write through the atomic writer only
R4.4 the start-up scan isolates per-id failures and discovers by *.env
R4.5 removal deletes the discovery key and tolerates absent files
R4.6 the file helpers have no path that skips the disk: write_env/write_meta
     publish through the atomic writer on every path, read_meta/read_env
     return what they read from the file on every path (no second copy of
     the metadata that a crash forgets)
R4.7 who-may-delete: delete_env / delete_meta are called by
     DiskStorage.remove only
"""
from __future__ import annotations

import ast

from ..engine import Engine
from ..report import Report
from ..cfg import Node
from ..facts import path_of, canon, holds
from ..model import walk_own
from ..resolve import Ctx
from .. import dataflow
from . import common, c07

MOD = 'slimta.diskstorage'
AIO = MOD + '.AioFile'
OPS = MOD + '.DiskOps'
DISK = MOD + '.DiskStorage'

FS_WRITE_PRIMS = {'aio_write': AIO + '._write_piece',
                  'mkstemp': AIO + '.dump',
                  'rename': AIO + '.dump',
                  'replace': AIO + '.dump'}
# deleting a published file is the business of the two delete helpers only
FS_DELETE_PRIMS = {'remove', 'unlink', 'rmtree', 'truncate', 'ftruncate'}
FS_DELETERS = {OPS + '.delete_env', OPS + '.delete_meta'}


def run(e: Engine, rep: Report):
    rep.rule('R4.1', 'file-creating primitives only inside AioFile.dump / '
             '_write_piece; in dump: mkstemp(dir=tmp_dir), then every '
             'write, then rename(temp, final) - only after the loop exited '
             'with offset >= data_len, never on an exception path')
    rep.rule('R4.2', 'DiskStorage.write: write_env before write_meta before '
             'returning the id')
    rep.rule('R4.3', 'set_timestamp / increment_attempts / '
             'set_recipients_delivered: read_meta, then write_meta; the '
             'envelope file is never touched')
    rep.rule('R4.4', 'load(): read_meta sits inside a try whose handler '
             'covers OSError and continues the scan; ids are discovered by '
             'the .env suffix only')
    rep.rule('R4.5', 'remove(): env file and meta file are both deleted, '
             'each tolerant of absence')
    rep.rule('R4.6', 'DiskOps.write_env / write_meta call AioFile.dump / '
             'pickle_dump on every path to their return; DiskOps.read_meta / '
             'read_env return the value of AioFile.load / pickle_load on '
             'every path')
    rep.rule('R4.8', 'DiskOps.write_env is referenced only from '
             'DiskStorage.write and its private helpers: the envelope file '
             'is written once, later changes go to the meta file alone (one '
             'rename per update)')
    rep.rule('R4.7', 'DiskOps.delete_env / delete_meta are referenced only '
             'from DiskStorage.remove')
    rep.not_decided += ['POSIX rename atomicity itself', 'page-cache '
                        'durability (the property speaks of process death)',
                        'pickle fidelity (C20)']
    r41(e, rep)
    r42(e, rep)
    r43(e, rep)
    r44(e, rep)
    r45(e, rep)
    r46(e, rep)
    r47(e, rep)
    r48(e, rep)
    from . import c03 as _c03
    rep.rule('R4.9', '= C03-R3.2 (writers): the timetable is written only '
             'by its enumerated writers, also where the write goes through '
             'a local alias - the start-up load hands every stored entry to '
             '_add_queued (an alias held across the yielding load() loop '
             'fills a list the scheduler has already replaced: the message '
             'is never retried)')
    sub = Report(rep.prop, rep.tier, rep.repo)
    _c03.r32(e, sub)
    for o in sub.obls:
        if o.text.startswith('writer of self.queued'):
            rep.add('R4.9', o.where, o.text, o.status, o.what, o.loc,
                    o.witness, o.nontrivial, o.reason)
    rep.errors += sub.errors
    rep.evaluations += sub.evaluations
    rep.functions |= sub.functions
    rep.rule('R4.10', '= C03-R3.4 for the disk backend: the delivered marks '
             'the store keeps are positions in the list get() removes them '
             'from (after a restart the outstanding recipients are the ones '
             'not yet settled, not others)')
    sub = Report(rep.prop, rep.tier, rep.repo)
    _c03.r34(e, sub, 'R4.10')
    for o in sub.obls:
        if 'diskstorage' in o.where:
            rep.add('R4.10', o.where, o.text, o.status, o.what, o.loc,
                    o.witness, o.nontrivial, o.reason)
    rep.evaluations += sub.evaluations
    rep.rule('R4.11', 'the keep-awake reference of AioFile is given back '
             'only where it was taken: on every path (exceptional ones '
             'included) a _stop_keep_awake_thread() follows a '
             '_start_keep_awake_thread() of the same call - a stop without '
             'a start trips the assertion in it, which replaces the '
             'OSError the start-up scan is prepared for (the scan dies at '
             'the first envelope without meta)')
    r411(e, rep)
    rep.rule('R4.12', 'what is handed to a greenlet is bound when it is '
             'handed over: no function defined inside a loop of the queue '
             'package reads that loop\'s variables freely and is given to '
             'spawn / _pool_spawn / a callback (it runs after the loop has '
             'moved on: every greenlet then works on the last entry, the '
             'other entries that were taken off the timetable are never '
             'looked at again)')
    r412(e, rep)
    from . import c02 as _c02
    common.reuse(e, rep, _c02.r26, 'R4.13',
                 '= C02-R2.6: enqueue() returns after the storage write it '
                 'acknowledges has finished (it joins the greenlet that '
                 'writes, not a helper that only starts it)', only={'R2.6'})
    rep.rule('R4.14', 'whatever the store wrote it can read back: the '
             'storage modules load their pickles with the loader that '
             'mirrors the dump (pickle.load / pickle.loads) - no Unpickler '
             'sub-class with a find_class of its own (an allow-list is a '
             'second statement of what an envelope may contain, and the '
             'first message that holds anything else - a datetime in a '
             'header object, an application value in envelope.client - is '
             'written, acknowledged and can never be loaded again)')
    r414(e, rep)
    rep.floor('R4.1', 6, 'file-system write sites / ordering obligations')


def r41(e: Engine, rep: Report):
    m = e.p.modules.get(MOD)
    if m is None:
        rep.error('anchor vanished: module ' + MOD)
        return
    for f in e.p.functions.values():
        if f.module is not m:
            continue
        for n in walk_own(f.node):
            if not isinstance(n, ast.Call):
                continue
            nm = n.func.attr if isinstance(n.func, ast.Attribute) else (
                n.func.id if isinstance(n.func, ast.Name) else '')
            if nm in FS_WRITE_PRIMS:
                rep.evaluations += 1
                # (a private helper only the owner refers to is part of it)
                oc, _, om = FS_WRITE_PRIMS[nm].rpartition('.')
                owners = {oc + '.' + x
                          for x in common.owner_closure(e, oc, {om})}
                rep.check(f.qname in owners, 'R4.1', f.qname,
                          'file-system write primitive %s' % nm,
                          '%s is used in %s, outside the temp-file + '
                          'rename writer: a crash can leave a half-written '
                          'file under its final name' % (nm, f.qname),
                          loc=f.loc(n), reason='only in ' +
                          FS_WRITE_PRIMS[nm])
            if nm in FS_DELETE_PRIMS and isinstance(n.func, ast.Attribute) \
                    and ast.unparse(n.func.value) in ('os', 'shutil'):
                rep.evaluations += 1
                deleters = {OPS + '.' + m for m in common.owner_closure(
                    e, OPS, {'delete_env', 'delete_meta'})}
                rep.check(f.qname in deleters, 'R4.1', f.qname,
                          'file deletion primitive %s' % nm,
                          '%s deletes/truncates a file outside the two '
                          'removal helpers: between that deletion and the '
                          'next publish a crash leaves the message without '
                          'its file (an update is no longer atomic)'
                          % f.qname, loc=f.loc(n),
                          reason='only in delete_env / delete_meta')
            if nm == 'open' and isinstance(n.func, ast.Name):
                mode = n.args[1] if len(n.args) > 1 else None
                for k in n.keywords:
                    if k.arg == 'mode':
                        mode = k.value
                if isinstance(mode, ast.Constant) and any(
                        c in str(mode.value) for c in 'wax+'):
                    rep.evaluations += 1
                    rep.bad('R4.1', f.qname, 'open(..., %r)' % mode.value,
                            'a file is opened for writing directly: not '
                            'atomic with respect to a crash', loc=f.loc(n))
            if nm == 'open' and isinstance(n.func, ast.Attribute) and \
                    ast.unparse(n.func.value) == 'os':
                flags = ast.unparse(n.args[1]) if len(n.args) > 1 else ''
                if any(x in flags for x in ('O_WRONLY', 'O_RDWR', 'O_CREAT',
                                            'O_TRUNC', 'O_APPEND')):
                    rep.evaluations += 1
                    rep.bad('R4.1', f.qname, 'os.open(..., %s)' % flags,
                            'a file is opened for writing directly: not '
                            'atomic with respect to a crash', loc=f.loc(n))
    ctx, g = dump_graph(e)
    fx = e.facts(g)
    where = ctx.func.qname
    rep.functions.add(where)
    mk = [n for n in g.nodes if n.kind == 'call' and
          e.call_name(n) == 'mkstemp']
    wr = [n for n in g.calls() if e.call_name(n) == '_write_piece']
    rn = [n for n in g.nodes if n.kind == 'call' and
          e.call_name(n) in ('rename', 'replace')]
    # a publish that is not a rename: moving / copying the temp file onto
    # the final path truncates the live file first when the two are on
    # different file systems (table NON_ATOMIC_PUBLISH)
    for n in g.nodes:
        if n.kind == 'call' and e.call_name(n) in NON_ATOMIC_PUBLISH and \
                len(n.ast.args) >= 2 and \
                path_of(n.ast.args[1], n.frame) == 'self.path':
            rep.evaluations += 1
            rep.bad('R4.1', where, 'publish by `%s`' % n.text(50),
                    'the final path is written by %s(), which is a rename '
                    'only when source and destination are on one file '
                    'system; otherwise it copies onto the live file: a '
                    'crash during the copy leaves a truncated file under '
                    'the final name (%s)' % (
                        e.call_name(n), NON_ATOMIC_PUBLISH[e.call_name(n)]),
                    loc=n.loc())
            rn = rn or [None]
    if rn == [None]:
        return
    if not mk or not wr or not rn:
        rep.error('anchor vanished: mkstemp / _write_piece / rename in '
                  'AioFile.dump')
        return
    for n in mk:
        rep.evaluations += 1
        d = [k.value for k in n.ast.keywords if k.arg == 'dir']
        # (called through partial(mkstemp, dir=...) handed to a helper: the
        # keywords the partial bound)
        via = getattr(n.extra.get('res'), 'via', None)
        if not d and via is not None:
            d = [k.value for k in via.keywords if k.arg == 'dir']
        rep.check(bool(d) and ast.unparse(d[0]) == 'self.tmp_dir', 'R4.1',
                  where, 'temp file is created in the scratch directory',
                  'mkstemp does not use dir=self.tmp_dir: the temp file '
                  'may land in the scanned directory or on another file '
                  'system', loc=n.loc(), reason='dir=self.tmp_dir')
    # names that hold the path mkstemp returned (second element), followed
    # through a helper that returns the pair and through `with ... as (fd,
    # name)` of a context manager that yields it
    tmpvars = tmp_names(g, mk)
    before = dataflow.must_events_before(
        g, lambda n: ['mkstemp'] if n in mk else (
            ['write'] if n in wr else []))
    _r41_rest(e, rep, g, fx, where, mk, wr, rn, tmpvars, before)


NON_ATOMIC_PUBLISH = {
    'move': 'shutil.move falls back to copy + unlink across file systems',
    'copy': 'copies onto the destination', 'copy2': 'copies onto the '
    'destination', 'copyfile': 'copies onto the destination',
    'copyfileobj': 'copies onto the destination',
    'link': 'fails when the destination exists'}


def tmp_names(g, mk):
    """paths (frame-qualified) of the names that hold the file name a
    unique-name maker returned"""
    tmpvars = set()
    changed = True
    while changed:
        changed = False
        for s in g.of_kind('stmt'):
            if isinstance(s.ast, ast.Assign) and \
                    isinstance(s.ast.targets[0], ast.Tuple) and \
                    len(s.ast.targets[0].elts) == 2:
                v, vf = common.value_of(g, s.ast.value, s.frame)
                if any(v is m2.ast for m2 in mk):
                    q = path_of(s.ast.targets[0].elts[1], s.frame)
                    if q and q not in tmpvars:
                        tmpvars.add(q)
                        changed = True
        for w in g.of_kind('with_enter'):
            yv, yf = w.extra.get('yield_value'), w.extra.get('yield_frame')
            ov = getattr(w.ast, 'optional_vars', None)
            if isinstance(yv, ast.Tuple) and isinstance(ov, ast.Tuple) and \
                    len(yv.elts) == len(ov.elts) and yf is not None:
                for a, b in zip(yv.elts, ov.elts):
                    if path_of(a, yf) in tmpvars:
                        q = path_of(b, w.frame)
                        if q and q not in tmpvars:
                            tmpvars.add(q)
                            changed = True
    return tmpvars


def dump_graph(e):
    ctx = e.method_ctx(AIO, 'dump')
    return ctx, e.build(ctx, inline=e.inline_same_self(
        deny=['_write_piece', '_start_keep_awake_thread',
              '_stop_keep_awake_thread']), max_depth=3)


def _r41_rest(e, rep, g, fx, where, mk, wr, rn, tmpvars, before):
    for n in rn:
        rep.evaluations += 1
        st = before.get(n.id) or ()
        args = [path_of(a, n.frame) for a in n.ast.args]
        ok_args = len(args) == 2 and args[0] in tmpvars and \
            args[1] == 'self.path'
        rep.check('mkstemp' in st and 'write' in st and ok_args, 'R4.1',
                  where, 'publish = rename(temp, final) after the writes',
                  'the final path is not published by renaming the fully '
                  'written temp file (args %s; events before: %s)'
                  % (args, sorted(st)), loc=n.loc(),
                  reason='mkstemp and _write_piece dominate; '
                  'rename(filename, self.path)')
        # complete: dominated by offset >= data_len
        facts = fx.at(n) or frozenset()
        # names that accumulate what _write_piece reported as written
        acc = set()
        for s2 in g.of_kind('stmt'):
            if isinstance(s2.ast, (ast.Assign, ast.AugAssign)):
                v = s2.ast.value
                tg = s2.ast.targets[0] if isinstance(s2.ast, ast.Assign) \
                    else s2.ast.target
                if isinstance(tg, ast.Name) and (
                        any(isinstance(x, ast.Call) and
                            ast.unparse(x.func).endswith('_write_piece')
                            for x in ast.walk(v)) or
                        (isinstance(s2.ast, ast.AugAssign) and any(
                            isinstance(x, ast.Name) and
                            path_of(x, s2.frame) in acc
                            for x in ast.walk(v)))):
                    acc.add(path_of(tg, s2.frame))
        # `ret = self._write_piece(...); offset += ret`
        for s2 in g.of_kind('stmt'):
            if isinstance(s2.ast, ast.AugAssign) and \
                    isinstance(s2.ast.target, ast.Name) and any(
                        isinstance(x, ast.Name) and
                        path_of(x, s2.frame) in acc
                        for x in ast.walk(s2.ast.value)):
                acc.add(path_of(s2.ast.target, s2.frame))

        def complete(fs):
            return [k for p, k in fs if p and ' <= ' in k and 'len' in
                    k.split(' <= ')[0] and k.split(' <= ')[1] in acc]
        done = complete(facts)
        if not done:
            # established inside a helper that does the writing: look at
            # the state in which the helper returns
            crs = [c for c in g.of_kind('call_return')
                   if any(w.frame is c.extra.get('callee_frame')
                          for w in wr)]
            cb = dataflow.must_events_before(
                g, lambda x: ['cr%d' % x.id] if x in crs else [])
            for c in crs:
                if ('cr%d' % c.id) in (cb.get(n.id) or ()):
                    done = done or complete(fx.at(c) or frozenset())
        rep.check(bool(done), 'R4.1', where,
                  'rename only after everything was written',
                  'the temp file can be renamed onto the final path before '
                  'offset >= data_len holds: a truncated file is published',
                  loc=n.loc(), reason='dominated by data_len <= offset')
        # never on an exception path / in cleanup code
        exc_scope = [sc for sc in n.scopes
                     if sc.kind in ('handler', 'finally_body')]
        rep.check(not exc_scope, 'R4.1', where,
                  'rename is not part of cleanup / error handling',
                  'rename sits in a finally/except block: it also runs '
                  'after a failed or partial write', loc=n.loc(),
                  reason='on the normal path only')
    # the write loop advances by what was written and writes from `offset`
    rep.evaluations += 1
    rep.check(any(any(sc.kind == 'loop' for sc in n.scopes) for n in wr),
              'R4.1', where, 'writes are repeated until complete',
              '_write_piece is never called in a loop: a short write '
              'publishes a truncated file', loc=wr[0].loc(),
              reason='a write inside a loop')


def _order(e, rep, rule, cls, meth, seq, what):
    ctx = e.method_ctx(cls, meth)
    g = e.build(ctx, inline=e.inline_same_self(), max_depth=3)
    where = ctx.func.qname
    rep.functions.add(where)

    def ev(n):
        if n.kind in ('call', 'call_enter'):
            nm = e.call_name(n)
            if nm in seq:
                return [nm]
        return []
    before = dataflow.must_events_before(g, ev)
    nodes = {nm: [n for n in g.calls() if e.call_name(n) == nm]
             for nm in seq}
    for i, nm in enumerate(seq):
        rep.evaluations += 1
        if not nodes[nm]:
            rep.bad(rule, where, '%s performs %s' % (meth, nm),
                    '%s no longer calls %s' % (meth, nm),
                    loc=ctx.func.loc())
            continue
        for n in nodes[nm]:
            need = set(seq[:i])
            rep.check(need <= set(before.get(n.id) or ()), rule, where,
                      '%s after %s' % (nm, ', '.join(seq[:i]) or 'entry'),
                      what % nm, loc=n.loc(),
                      reason='%s on every path before' % (sorted(need)
                                                          or 'n/a'))
    return g, before, nodes


def r42(e: Engine, rep: Report):
    g, before, nodes = _order(
        e, rep, 'R4.2', DISK, 'write', ['write_env', 'write_meta'],
        '%s is out of order: load() discovers messages through *.env and '
        'needs their meta file; a crash in between must leave either '
        'nothing or an env file without meta (skipped), never a meta '
        'without env')
    where = DISK + '.write'
    for r in g.of_kind('stmt'):
        if isinstance(r.ast, ast.Return) and r.ast.value is not None and \
                before.get(r.id) is not None and r.frame is g.entry.frame:
            rep.evaluations += 1
            rep.check({'write_env', 'write_meta'} <= set(before.get(r.id)),
                      'R4.2', where, 'id returned only after both files '
                      'are published', 'write() can return the id (= the '
                      'message is acknowledged) before envelope and meta '
                      'files are both on disk', loc=r.loc(),
                      reason='both writes dominate the return')


def r43(e: Engine, rep: Report):
    for meth in ('set_timestamp', 'increment_attempts',
                 'set_recipients_delivered'):
        g, before, nodes = _order(
            e, rep, 'R4.3', DISK, meth, ['read_meta', 'write_meta'],
            '%s is out of order in a metadata update (read-modify-write '
            'through the atomic writer)')
        bad = [n for n in g.calls()
               if e.call_name(n) in ('write_env', 'delete_env',
                                     'delete_meta')]
        rep.evaluations += 1
        rep.check(not bad, 'R4.3', DISK + '.' + meth,
                  'metadata update leaves the envelope file alone',
                  '%s touches the envelope file / deletes files: a crash '
                  'during a metadata update can lose the message'
                  % meth, reason='only read_meta / write_meta',
                  loc=bad[0].loc() if bad else '')


def r44(e: Engine, rep: Report, rule: str = 'R4.4'):
    ctx = e.method_ctx(DISK, 'load')
    g = e.build(ctx, inline=e.inline_same_self(), max_depth=3)
    where = ctx.func.qname
    rep.functions.add(where)
    reads = [n for n in g.calls() if e.call_name(n) == 'read_meta']
    loops = [n for n in g.of_kind('iter') if isinstance(n.ast, ast.For) and
             'get_ids' in ast.unparse(n.ast.iter)]
    rep.evaluations += 1
    if not reads or not loops:
        rep.bad(rule, where, 'scan over get_ids() reading each meta',
                'load() no longer scans get_ids()/read_meta',
                loc=ctx.func.loc())
        return
    lp = loops[0]
    for n in reads:
        rep.evaluations += 1
        hs = []
        for sc in n.scopes:
            if sc.kind == 'try' and any(
                    s2.kind == 'loop' and s2.ast is lp.ast
                    for s2 in n.scopes[:n.scopes.index(sc)]):
                for types, h in sc.data['handlers']:
                    if builder_match(e, 'builtins.FileNotFoundError', types):
                        hs.append(h)
        rep.check(bool(hs), rule, where,
                  'a missing meta file is handled per id, inside the loop',
                  'read_meta in the start-up scan is not protected by a '
                  'handler for OSError inside the loop: one message whose '
                  'meta file is missing (crash between the two writes or '
                  'during removal) aborts the scan and every later message '
                  'is never loaded', loc=n.loc(),
                  reason='try/except OSError inside the for loop')
        for h in hs:
            # the handler continues the scan
            inside = [m for m in g.nodes if any(
                sc.kind == 'handler' and sc.ast is h.ast
                for sc in m.scopes)]
            # (a return inside a per-id helper ends that id, not the scan)
            leaves = [m for m in inside if m.kind == 'stmt' and (
                isinstance(m.ast, ast.Raise) or (
                    isinstance(m.ast, (ast.Return, ast.Break)) and
                    m.frame is g.entry.frame))]
            rep.check(not leaves, rule, where,
                      'the handler continues with the next id',
                      'the OSError arm of the scan raises / returns / '
                      'breaks: the scan stops at the first damaged message',
                      loc=h.loc(), reason='falls through to the next '
                      'iteration')
    # no exception raised explicitly below the per-id read leaves the scan
    g2 = e.build(e.method_ctx(DISK, 'load'),
                 inline=e.inline_all(only_modules=[MOD]), max_depth=6)
    live = dataflow.reachable(g2, g2.entry)
    for n in g2.of_kind('stmt'):
        if not isinstance(n.ast, ast.Raise) or n.id not in live:
            continue
        names = [fr.ctx.func.name for fr in n.frame.chain()]
        if 'read_meta' not in names:
            continue
        rep.evaluations += 1
        pth = dataflow.find_path(
            g2, n, lambda x: x is g2.raise_exit,
            avoid=lambda x: x.kind == 'handler' and
            x.frame is g2.entry.frame)
        rep.check(pth is None, rule, where,
                  '`%s` below read_meta stays inside the scan'
                  % ' '.join(ast.unparse(n.ast).split())[:50],
                  'an exception raised explicitly while reading one '
                  'message\'s meta file (%s in %s) is not covered by the '
                  'handler inside the scan loop: the first message whose '
                  'meta file is missing aborts load() and every later '
                  'acknowledged message is never loaded after a restart'
                  % (' '.join(ast.unparse(n.ast).split())[:40],
                     n.frame.ctx.func.qname), loc=n.loc(),
                  reason='caught by the per-id handler',
                  witness=dataflow.render_path(pth, 10) if pth else None)
    ctx = e.method_ctx(OPS, 'get_ids')
    src = ast.unparse(ctx.func.node)
    # class-level constants the function refers to count as its text
    for k, v in common.class_constants(e, OPS).items():
        if ('self.' + k) in src or ('cls.' + k) in src:
            src += ' %r' % (v,)
    # ... and module-level ones (_ENV_SUFFIX = '.env')
    for x in ast.walk(ctx.func.node):
        if isinstance(x, ast.Name) and isinstance(x.ctx, ast.Load) and \
                x.id not in ctx.func.params:
            mv = common.module_const(ctx.func.module, x.id)
            if isinstance(mv, (str, bytes)):
                src += ' %r' % (mv,)
    rep.evaluations += 1
    rep.check("'.env'" in src and 'env_dir' in src and 'listdir' in src,
              rule,
              ctx.func.qname, 'ids are discovered from *.env in env_dir',
              'get_ids no longer filters on the .env suffix of env_dir: '
              'temp files or foreign files are taken for messages',
              reason="listdir(env_dir) filtered by endswith('.env')",
              loc=ctx.func.loc())


def builder_match(e: Engine, token: str, types) -> bool:
    p = e.p
    for t in types:
        if t in ('builtins.OSError', 'builtins.IOError',
                 'builtins.EnvironmentError', 'builtins.Exception',
                 'builtins.BaseException', 'builtins.FileNotFoundError'):
            return True
    return False


def r45(e: Engine, rep: Report):
    ctx = e.method_ctx(DISK, 'remove')
    g = e.build(ctx)
    where = ctx.func.qname
    rep.functions.add(where)
    st = dataflow.must_events_after(
        g, lambda n: [e.call_name(n)] if n.kind in ('call', 'call_enter')
        and e.call_name(n) in ('delete_env', 'delete_meta') else [],
        edge=c07.no_call_exc).get(g.entry.id)
    rep.evaluations += 1
    got = set() if st is None or isinstance(st, dataflow.Top) else set(st)
    rep.check({'delete_env', 'delete_meta'} <= got, 'R4.5', where,
              'both files are deleted',
              'remove() does not delete both the envelope file (discovery '
              'key) and the meta file on every path: the message is '
              'resurrected at the next start (missing: %s)'
              % sorted({'delete_env', 'delete_meta'} - got),
              reason='delete_env and delete_meta on every path',
              loc=ctx.func.loc())
    for meth in ('delete_env', 'delete_meta'):
        dctx = e.method_ctx(OPS, meth)
        dg = e.build(dctx, inline=e.inline_same_self(), max_depth=3)
        rms = [n for n in dg.nodes if n.kind == 'call' and
               e.call_name(n) in ('remove', 'unlink')]
        rep.evaluations += 1
        if not rms:
            rep.bad('R4.5', dctx.func.qname, 'deletes the file',
                    '%s no longer removes anything' % meth,
                    loc=dctx.func.loc())
            continue
        for n in rms:
            tol = common.tolerates(n)
            rep.check(tol, 'R4.5', dctx.func.qname,
                      'deletion tolerates an absent file',
                      'os.remove is not protected against OSError: after a '
                      'crash in the middle of a removal the repeated '
                      'removal raises instead of completing',
                      loc=n.loc(), reason='try/except OSError')


def r46(e: Engine, rep: Report):
    for meth, prims, kind in (('write_env', ('dump', 'pickle_dump'), 'w'),
                              ('write_meta', ('dump', 'pickle_dump'), 'w'),
                              ('read_meta', ('load', 'pickle_load'), 'r'),
                              ('read_env', ('load', 'pickle_load'), 'r')):
        ctx = e.method_ctx(OPS, meth)
        g = e.build(ctx, inline=e.inline_same_self(), max_depth=3,
                    raises=lambda b, n, r: set())
        where = ctx.func.qname
        rep.functions.add(where)
        io = [n for n in g.calls() if e.call_name(n) in prims and any(
            t.startswith(AIO + '.') for t in e.targets(n))]
        rep.evaluations += 1
        if not io:
            rep.bad('R4.6', where, '%s goes to the file' % meth,
                    '%s no longer calls the AioFile %s primitive'
                    % (meth, '/'.join(prims)), loc=ctx.func.loc())
            continue
        if kind == 'w':
            before = dataflow.must_events_before(
                g, lambda n: ['io'] if n in io else [])
            st = before.get(g.exit.id)
            rep.check(st is not None and 'io' in st, 'R4.6', where,
                      '%s publishes on every path' % meth,
                      '%s can return without having written the file: the '
                      'update exists in memory only and is gone after a '
                      'crash (attempt counts, due times and delivered '
                      'marks revert)' % meth, loc=ctx.func.loc(),
                      reason='AioFile.%s on every path to the return'
                      % '/'.join(prims))
        else:
            rets = [n for n in g.of_kind('stmt')
                    if isinstance(n.ast, ast.Return) and
                    n.frame is g.entry.frame]
            before = dataflow.must_events_before(
                g, lambda n: ['io'] if n in io else [])

            def from_file(v, frame, depth=0):
                """v (evaluated in frame) is the value an AioFile read
                returned: the read call itself, a same-object helper all of
                whose returns are, or a local bound only to such a value."""
                if depth > 4 or v is None:
                    return False
                if isinstance(v, ast.Call):
                    if any(v is n.ast for n in io):
                        return True
                    ent = [n for n in g.nodes if n.kind == 'call_enter' and
                           n.ast is v and n.frame is frame]
                    if ent:
                        cf = [r2 for r2 in g.of_kind('stmt')
                              if isinstance(r2.ast, ast.Return) and
                              r2.frame.parent is frame and
                              r2.frame.call is v]
                        return bool(cf) and all(
                            from_file(r2.ast.value, r2.frame, depth + 1)
                            for r2 in cf)
                    return False
                if isinstance(v, ast.Name):
                    defs = [s2 for s2 in g.of_kind('stmt')
                            if s2.frame is frame and
                            isinstance(s2.ast, ast.Assign) and any(
                                isinstance(t, ast.Name) and t.id == v.id
                                for t in s2.ast.targets)]
                    return bool(defs) and all(
                        from_file(d.ast.value, frame, depth + 1)
                        for d in defs)
                return False
            for r in rets:
                rep.evaluations += 1
                v = r.ast.value
                direct = from_file(v, r.frame) and \
                    'io' in (before.get(r.id) or ())
                rep.check(direct, 'R4.6', where,
                          '%s returns what is in the file' % meth,
                          '%s can return `%s`, which is not what it just '
                          'read from the file: a second copy of the '
                          'metadata lives in memory, updates made through '
                          'it need not reach the disk' % (
                              meth, ast.unparse(v) if v else None),
                          loc=r.loc(), reason='value of AioFile.%s'
                          % '/'.join(prims))


def _outer(f):
    """the method a nested function (closure) is defined in"""
    while getattr(f, 'parent', None) is not None:
        f = f.parent
    return f


def r48(e: Engine, rep: Report):
    """The envelope file is written once, when the message is stored.  Any
    later change of a message goes to the meta file alone, so that every
    update is one rename; an operation that rewrites both files cannot be
    atomic, and a crash between the two renames leaves an envelope and a
    meta file that do not belong together."""
    n = 0
    owners = common.owner_closure(e, DISK, {'write'})
    for f in e.p.functions.values():
        if not f.module.name.startswith('slimta'):
            continue
        for x in walk_own(f.node):
            if isinstance(x, ast.Attribute) and x.attr == 'write_env' and \
                    isinstance(x.ctx, ast.Load):
                n += 1
                rep.evaluations += 1
                o = _outer(f)
                rep.check(o.cls is not None and o.cls.qname == DISK and
                          o.name in owners, 'R4.8', f.qname,
                          'use of write_env',
                          '%s rewrites the envelope file of a stored '
                          'message: together with the meta file that is two '
                          'renames, and a crash between them leaves an '
                          'envelope and delivered marks that do not belong '
                          'together (a recipient is dropped or attempted '
                          'again after the restart)' % f.qname,
                          loc=f.loc(x), reason='only DiskStorage.write '
                          'writes the envelope file')
    if n < 1:
        rep.error('anchor vanished: uses of write_env (%d < 1)' % n)


def r47(e: Engine, rep: Report):
    n = 0
    for f in e.p.functions.values():
        if not f.module.name.startswith('slimta'):
            continue
        for x in walk_own(f.node):
            if isinstance(x, ast.Attribute) and x.attr in (
                    'delete_env', 'delete_meta') and isinstance(
                        x.ctx, ast.Load):
                n += 1
                rep.evaluations += 1
                o = _outer(f)
                rep.check(o.cls is not None and o.cls.qname == DISK and
                          o.name in common.owner_closure(e, DISK, {'remove'}),
                          'R4.7', f.qname,
                          'use of %s' % x.attr,
                          '%s deletes message files outside '
                          'DiskStorage.remove: a file of a message that is '
                          'still being written (envelope published, meta '
                          'not yet) or still queued is deleted, the '
                          'acknowledged message is gone after the next '
                          'restart' % f.qname, loc=f.loc(x),
                          reason='only DiskStorage.remove deletes')
    if n < 2:
        rep.error('anchor vanished: uses of delete_env/delete_meta (%d < 2)'
                  % n)


# ------------------------------------------------------------------- R4.11
def r411(e: Engine, rep: Report):
    n = 0
    for meth in ('dump', 'load'):
        ctx = e.method_ctx('slimta.diskstorage.AioFile', meth)

        def raises(b, nd, res):
            # anything that is not one of our own helpers may fail (open,
            # mkstemp, a callable handed in, aio requests)
            if nd.kind != 'call':
                return set()
            nm = e.call_name(nd) or ''
            if nm in ('_start_keep_awake_thread', '_stop_keep_awake_thread'):
                return set()
            if res is not None and res.targets and not res.externals and \
                    not res.unresolved:
                return set()
            return {'builtins.OSError'}
        g = e.build(ctx, raises=raises, assert_raises=False,
                    inline=e.inline_same_self(deny=[
                        '_start_keep_awake_thread',
                        '_stop_keep_awake_thread']), max_depth=3)
        where = ctx.func.qname
        rep.functions.add(where)
        starts = [x for x in g.calls()
                  if e.call_name(x) == '_start_keep_awake_thread']
        stops = [x for x in g.calls()
                 if e.call_name(x) == '_stop_keep_awake_thread']
        if not starts or not stops:
            rep.error('anchor vanished: keep-awake start / stop in %s'
                      % where)
            continue

        def step(nd, label, st):
            if isinstance(label, tuple):
                return st
            if nd in starts:
                return min(2, st + 1)
            if nd in stops:
                return st - 1 if st > 0 else -1
            return st
        for sp in stops:
            n += 1
            rep.evaluations += 1
            w = dataflow.typestate_witness(
                g, 0, step, lambda nd, st, sp=sp: nd is sp and st <= 0)
            rep.check(w is None, 'R4.11', where,
                      'stop only after a start: `%s`' % sp.text(40),
                      '%s can reach _stop_keep_awake_thread() on a path on '
                      'which it has not called _start_keep_awake_thread() '
                      '(the open failed first): the stop asserts on the '
                      'missing thread, the AssertionError replaces the '
                      'ENOENT that DiskStorage.load() skips over - the '
                      'start-up scan ends at the first orphan file and the '
                      'messages after it are never loaded' % meth,
                      loc=sp.loc(), reason='a start on every path before',
                      witness=dataflow.render_path(w, 14) if w else None)
    if n < 2:
        rep.error('anchor vanished: keep-awake stops in AioFile (%d < 2)'
                  % n)


# ------------------------------------------------------------------- R4.12
DEFERRED_RUNNERS = {'spawn', 'spawn_later', '_pool_spawn', '_pool_run',
                    'link', 'rawlink', 'link_value', 'link_exception',
                    'start_later', 'apply_async', 'map_async', 'imap',
                    'imap_unordered', 'Greenlet', 'call_later'}


def r412(e: Engine, rep: Report, rule: str = 'R4.12'):
    n = 0
    bad = 0
    for f in sorted(e.p.functions.values(), key=lambda f: f.qname):
        if not f.module.name.startswith('slimta.queue') or \
                f.parent is not None:
            continue
        for lp in walk_own(f.node):
            if not isinstance(lp, (ast.For, ast.While)):
                continue
            lvars = set()
            if isinstance(lp, ast.For):
                lvars = {x.id for x in ast.walk(lp.target)
                         if isinstance(x, ast.Name)}
            # names (re)bound in the body count as well
            for st in lp.body:
                for x in ast.walk(st):
                    if isinstance(x, ast.Name) and isinstance(
                            x.ctx, ast.Store) and not any(
                            isinstance(d, (ast.FunctionDef, ast.Lambda)) and
                            any(y is x for y in ast.walk(d))
                            for d in ast.walk(lp) if d is not lp):
                        lvars.add(x.id)
            closures = {}
            for st in ast.walk(lp):
                if isinstance(st, ast.FunctionDef) and st is not f.node:
                    closures[st.name] = st
            lambdas = [x for x in ast.walk(lp) if isinstance(x, ast.Lambda)]
            for call in [x for x in ast.walk(lp) if isinstance(x, ast.Call)]:
                fn = call.func
                nm = fn.attr if isinstance(fn, ast.Attribute) else (
                    fn.id if isinstance(fn, ast.Name) else None)
                if nm not in DEFERRED_RUNNERS:
                    continue
                for a in list(call.args) + [k.value for k in call.keywords]:
                    d = None
                    if isinstance(a, ast.Name) and a.id in closures:
                        d = closures[a.id]
                    elif isinstance(a, ast.Lambda) and a in lambdas:
                        d = a
                    if d is None:
                        continue
                    n += 1
                    rep.evaluations += 1
                    params = {p.arg for p in d.args.args + d.args.kwonlyargs}
                    if d.args.vararg:
                        params.add(d.args.vararg.arg)
                    body = d.body if isinstance(d.body, list) else [d.body]
                    own = {x.id for b in body for x in ast.walk(b)
                           if isinstance(x, ast.Name) and
                           isinstance(x.ctx, ast.Store)}
                    free = sorted({x.id for b in body for x in ast.walk(b)
                                   if isinstance(x, ast.Name) and
                                   isinstance(x.ctx, ast.Load) and
                                   x.id in lvars and x.id not in params and
                                   x.id not in own})
                    if free:
                        bad += 1
                    rep.check(not free, rule, f.qname,
                              'function handed to %s() inside a loop binds '
                              'its data' % nm,
                              'the function given to %s() reads %s of the '
                              'enclosing loop as free variables: it runs '
                              'after the loop has gone on, so every '
                              'greenlet sees the values of the last '
                              'iteration - the other entries, already '
                              'taken off the timetable, are never '
                              'dispatched' % (nm, ', '.join(
                                  '`%s`' % x for x in free)),
                              loc=f.loc(call),
                              reason='no free loop variable')
    rep.evaluations += 1
    if n == 0:
        rep.ok(rule, 'slimta.queue', 'no function defined in a loop is '
               'handed to a deferred runner', reason='scan of the queue '
               'package', nontrivial=False)


# ------------------------------------------------------------------ R4.14
def r414(e: Engine, rep: Report):
    mods = ('slimta.diskstorage', 'slimta.redisstorage',
            'slimta.cloudstorage', 'slimta.queue.dict')
    n = 0
    for cq, c in sorted(e.p.classes.items()):
        if not c.module.name.startswith(mods):
            continue
        bases = [ast.unparse(b) for b in c.node.bases]
        if not any(b.endswith('Unpickler') for b in bases):
            continue
        n += 1
        rep.evaluations += 1
        own = [nm for nm in ('find_class', 'persistent_load')
               if nm in c.methods and any(
                   isinstance(y, ast.Raise)
                   for y in walk_own(c.methods[nm].node))]
        rep.check(not own, 'R4.14', cq,
                  'loader `%s` looks classes up as pickle does' % c.name,
                  '%s overrides %s of the Unpickler the store loads its '
                  'files with: classes outside its list are refused, but '
                  'the dump side writes whatever the envelope holds - a '
                  'message with such a value is stored and acknowledged, '
                  'and every later get() / the start-up scan raises for it: '
                  'it is never attempted again' % (c.name, ', '.join(own)),
                  loc=c.methods[own[0]].loc() if own else None,
                  reason='no find_class / persistent_load override')
    loads = 0
    for f in sorted(e.p.functions.values(), key=lambda f: f.qname):
        if not f.module.name.startswith(mods):
            continue
        for x in walk_own(f.node):
            if isinstance(x, ast.Call) and isinstance(x.func, ast.Attribute) \
                    and x.func.attr in ('loads', 'load') and \
                    ast.unparse(x.func.value).endswith('pickle'):
                loads += 1
                rep.functions.add(f.qname)
    rep.evaluations += 1
    if n == 0:
        rep.ok('R4.14', 'slimta.diskstorage', 'no Unpickler sub-class in the '
               'storage modules; %d pickle.load(s) call(s)' % loads,
               reason='the standard loader reads what the dump wrote',
               nontrivial=False)
