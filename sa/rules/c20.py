"""C20 - envelope parsing keeps the body byte-exact (structural part only).

What the stdlib email package does to header values (folding, 8-bit,
duplicates), the fixed-point claim and the result of the 7-bit conversion are
value-level facts about library code outside the repository: NOT decided.
Decided is the shape of Envelope that the body clause and the copy / pickle
clauses rest on:

E1 the split is a partition: parse() cuts `data` at one index into header
   block and payload (`data[:k]` / `data[k:]` with the same k, the end of the
   boundary match); without a boundary everything is header, the payload empty
E2 the body is never transformed: the payload reaches self.message through
   _merge_payloads, every return of which is the payload itself or
   `<prefix> + payload`; flatten() returns self.message as it is; the
   attribute is written only by __init__ and parse
E3 parser and generator use the same email policy
E4 copy() is copy.deepcopy(self) and the class (and its subclasses in the
   repository) define no pickling / copying hooks, so copies and pickles
   carry every attribute
E5 7-bit conversion refuses rather than passes on: in encode_7bit the
   re-raise is reached exactly when no encoder was given, the re-encoding
   only with one, both only after the ASCII probe of the body failed
"""
from __future__ import annotations

import ast

from ..engine import Engine
from ..report import Report
from ..facts import holds, canon, path_of
from ..model import walk_own
from .. import dataflow
from . import common

ENV = 'slimta.envelope.Envelope'
HOOKS = {'__getstate__', '__setstate__', '__reduce__', '__reduce_ex__',
         '__deepcopy__', '__copy__', '__getnewargs__', '__getnewargs_ex__'}


def run(e: Engine, rep: Report):
    rep.rule('E1', 'Envelope.parse: header block and payload are '
             'complementary slices of the input at the end of the boundary '
             'match; no boundary => (data, b"")')
    rep.rule('E2', 'payload -> _merge_payloads -> self.message -> flatten()[1] '
             'without transformation; self.message has two writers')
    rep.rule('E6', 'the boundary pattern (regular-expression syntax tree) '
             'matches a line end, white space only, and one more LF; its '
             'middle part cannot run over further lines; it ends in LF')
    rep.rule('E3', 'every BytesParser / BytesGenerator of the module is '
             'built with the same policy')
    rep.rule('E4', 'Envelope.copy = copy.deepcopy(self); no pickling / '
             'copying hooks on Envelope or its subclasses')
    rep.rule('E5', 'encode_7bit: bare raise only under `not encoder`, '
             '_encode_parts only with an encoder, both inside the handler of '
             'the ASCII probe of self.message')
    rep.not_decided += [
        'header fields, order and values after parse/flatten (email package '
        'semantics), the fixed point of re-parsing, pickle fidelity of '
        'email.message objects, the output of the 7-bit conversion',
        'that parse / flatten never raise on arbitrary bytes']
    e1_e2(e, rep)
    e6(e, rep)
    e3(e, rep)
    e4(e, rep)
    e5(e, rep)
    rep.rule('E7', '_encode_parts changes a part only through the encoder '
             'it was given and by removing its Content-Transfer-Encoding '
             'header (no set_payload / header rewriting of its own)')
    e7(e, rep)
    rep.rule('E8', 'no text-conversion exception (strict codec, table '
             'c11.TEXT_RAISES) leaves Envelope.parse: the header-less and '
             'the 8-bit input are parsed like any other')
    e8(e, rep)
    rep.rule('E9', 'the policy the module parses and generates with keeps '
             'the refolding threshold of the quantifier (lines of up to 78 '
             'bytes are left as they are): if it is a clone(...), the clone '
             'neither lowers max_line_length below 78 nor sets '
             'refold_source to "all"')
    e9(e, rep)
    rep.rule('E10', 'a copy behaves like the original: nothing in the '
             'module branches on the identity of a policy object '
             '(`x.policy != SMTP`; policies compare by identity, and '
             'deepcopy / pickle make a new one)')
    e10(e, rep)
    rep.rule('E11', 'flatten() writes the headers with the generator: on '
             'every path to its return a BytesGenerator(...).flatten(...) '
             'ran (the binary fold keeps parsed 8-bit values as they are; '
             'the text fold re-encodes them)')
    e11(e, rep)
    rep.rule('E12', 'the header block is parsed as headers only: the '
             'parse() call of Envelope.parse passes headersonly (the stdlib '
             'parser otherwise acts on Content-Type and builds sub-messages '
             'out of a block that has no body)')
    e12(e, rep)
    rep.rule('E13', 'the body is input bytes: whatever Envelope.parse stores '
             'in self.message is a slice of its `data` argument, or ends in '
             'one (in front of it only what the parser left over of the '
             'header block) - a body that went through the parser and the '
             'generator has every lone CR / LF rewritten to CRLF')
    e13(e, rep)
    rep.rule('E14', 'parse() does not fail on a search that finds nothing: '
             'no index() / rindex() (ValueError when the value is absent) '
             'below Envelope.parse whose ValueError can leave it - what the '
             'parser hands back need not occur literally in the input '
             '(transfer encodings are undone, line breaks translated)')
    e14(e, rep)
    rep.floor('E2', 4, 'body provenance obligations')


def e6(e: Engine, rep: Report):
    """The cut is after the FIRST blank line: the boundary pattern is a line
    end, then nothing but white space, then LF - and the white space in
    between is matched lazily (or cannot contain LF), so that blank lines
    the body starts with stay in the body."""
    from .. import regexast as rx
    pat = rx.module_pattern(e, 'slimta.envelope', '_HEADER_BOUNDARY')
    where = 'slimta.envelope._HEADER_BOUNDARY'
    if pat is None:
        rep.error('anchor vanished: _HEADER_BOUNDARY = re.compile(<const>)')
        return
    pattern, flags, node = pat
    sc = rx._consts()
    items = list(rx.parse(pattern, flags))
    m = e.p.modules.get('slimta.envelope')
    loc = '%s:%s' % (m.relpath, node.lineno)
    SPACE = {9, 10, 11, 12, 13, 32}

    def singles(its):
        for it in its:
            op, av = it
            if op in (sc.MAX_REPEAT, sc.MIN_REPEAT):
                yield from singles(list(av[2]))
            elif op == sc.SUBPATTERN:
                yield from singles(list(av[3]))
            elif op == sc.BRANCH:
                for alt in av[1]:
                    yield from singles(list(alt))
            elif op == sc.AT:
                continue
            else:
                yield it
    sets = [rx.charset(it, flags) for it in singles(items)]
    rep.evaluations += 1
    rep.check(all(cs is not None and cs <= SPACE for cs in sets) and
              bool(sets), 'E6', where,
              'the boundary consists of white space only',
              'the boundary pattern %r can match characters that are not '
              'white space: message text is taken for the blank line and cut '
              'into the header block' % (pattern,), loc=loc,
              reason='every character class of the pattern is within '
              '[ \\t\\r\\n\\f\\v]')
    # mandatory LFs at top level: a line end and the end of the blank line
    top = [it for it in items if it[0] != sc.AT]
    lfs = [i for i, it in enumerate(top) if it == (sc.LITERAL, 10)]
    rep.evaluations += 1
    rep.check(len(lfs) >= 2 and lfs[-1] == len(top) - 1, 'E6', where,
              'a line end, then a line that ends in LF',
              'the boundary pattern %r does not require two line feeds with '
              'the second one last: a single line end counts as the blank '
              'line, or the cut does not fall behind the blank line'
              % (pattern,), loc=loc, reason='two mandatory LF, the last '
              'item of the pattern')
    # what may stand between them cannot run over further lines
    rep.evaluations += 1
    ok = True
    if len(lfs) >= 2:
        for it in top[lfs[0] + 1:lfs[-1]]:
            op, av = it
            if op == sc.MIN_REPEAT:
                continue
            if op == sc.MAX_REPEAT:
                inner = [rx.charset(x, flags) for x in singles(list(av[2]))]
                if any(cs is None or 10 in cs for cs in inner) and \
                        av[1] > 1:
                    ok = False
            else:
                cs = rx.charset(it, flags)
                if cs is None:
                    ok = False
    rep.check(ok, 'E6', where, 'the blank line is the first one',
              'the white space between the two line feeds is matched '
              'greedily and may contain LF: blank lines (and leading white '
              'space) at the start of the body are swallowed into the header '
              'block', loc=loc, reason='lazy repeat / no LF inside the '
              'repeat')


def _slice_of(x, base: str):
    """('lower'|'upper', bound text) if x is base[k:] / base[:k]"""
    if isinstance(x, ast.Subscript) and isinstance(x.slice, ast.Slice) and \
            ast.unparse(x.value) == base and x.slice.step is None:
        lo, up = x.slice.lower, x.slice.upper
        if lo is not None and up is None:
            return 'from', ast.unparse(lo)
        if lo is None and up is not None:
            return 'to', ast.unparse(up)
    return None


def _split_outcomes(e: Engine, ctx):
    """The ways Envelope.parse cuts its input: [(function, header expr,
    payload expr, site)] - from the helper whose 2-tuple result parse
    unpacks, or from the paired assignments of parse itself.  Also returns
    the name that stands for the payload in parse."""
    fn = ctx.func.node
    data = ctx.func.params[1]
    # the call that stores the body
    merge = [x for x in walk_own(fn) if isinstance(x, ast.Call) and
             ast.unparse(x.func).endswith('_merge_payloads') and
             len(x.args) == 2]
    if not merge or not isinstance(merge[0].args[1], ast.Name):
        return None
    pv = merge[0].args[1].id
    # A. header, payload = helper(data)
    for a in walk_own(fn):
        if isinstance(a, ast.Assign) and len(a.targets) == 1 and \
                isinstance(a.targets[0], ast.Tuple) and \
                len(a.targets[0].elts) == 2 and all(
                    isinstance(t, ast.Name) for t in a.targets[0].elts) and \
                a.targets[0].elts[1].id == pv and \
                isinstance(a.value, ast.Call) and a.value.args and \
                ast.unparse(a.value.args[0]) == data:
            f = a.value.func
            tgt = None
            if isinstance(f, ast.Name):
                tgt = e.p.functions.get(ctx.func.module.name + '.' + f.id)
            elif isinstance(f, ast.Attribute) and \
                    isinstance(f.value, ast.Name) and \
                    f.value.id in ('self', 'cls') and ctx.func.cls:
                tgt = e.p.lookup_method(ctx.func.cls.qname, f.attr)
            if tgt is None:
                return None
            out = []
            for r in walk_own(tgt.node):
                if isinstance(r, ast.Return):
                    if not (isinstance(r.value, ast.Tuple) and
                            len(r.value.elts) == 2):
                        return None
                    out.append((tgt, r.value.elts[0], r.value.elts[1], r))
            dparam = [p for p in tgt.params if p not in ('self', 'cls')]
            return (out, pv, a.targets[0].elts[0].id, tgt,
                    dparam[0] if dparam else None)
    # B. paired assignments in the branches of parse
    hv = None
    for x in walk_own(fn):
        if isinstance(x, ast.Call) and \
                ast.unparse(x.func).endswith('_parse_data') and x.args and \
                isinstance(x.args[0], ast.Name):
            hv = x.args[0].id
    if hv is None:
        return None
    out = []

    def bodies(stmts):
        yield stmts
        for s in stmts:
            for fld in ('body', 'orelse', 'finalbody'):
                sub = getattr(s, fld, None)
                if isinstance(sub, list) and sub and \
                        isinstance(sub[0], ast.stmt):
                    yield from bodies(sub)
    for body in bodies(fn.body):
        h = [s for s in body if isinstance(s, ast.Assign) and any(
            isinstance(t, ast.Name) and t.id == hv for t in s.targets)]
        p = [s for s in body if isinstance(s, ast.Assign) and any(
            isinstance(t, ast.Name) and t.id == pv for t in s.targets)]
        if h or p:
            if len(h) != 1 or len(p) != 1:
                return None
            out.append((ctx.func, h[0].value, p[0].value, p[0]))
    return out, pv, hv, ctx.func, data


def e1_e2(e: Engine, rep: Report):
    ctx = e.method_ctx(ENV, 'parse')
    fn = ctx.func.node
    where = ctx.func.qname
    rep.functions.add(where)
    got = _split_outcomes(e, ctx)
    rep.evaluations += 1
    if not got or not got[0]:
        rep.error('cannot read how Envelope.parse cuts its input into header '
                  'block and payload')
        return
    outcomes, tv, hv, sf, data = got
    rep.functions.add(sf.qname)

    def res(x, depth=0):
        """substitute locals of the split function that are assigned once"""
        if depth > 4:
            return x
        if isinstance(x, ast.Name) and x.id != data:
            defs = [a.value for a in walk_own(sf.node)
                    if isinstance(a, ast.Assign) and any(
                        isinstance(t, ast.Name) and t.id == x.id
                        for t in a.targets)]
            if len(defs) == 1:
                return res(defs[0], depth + 1)
        return x
    # the match object
    mnames = set()
    for a in walk_own(sf.node):
        if isinstance(a, ast.Assign) and isinstance(a.value, ast.Call) and \
                len(a.targets) == 1 and isinstance(a.targets[0], ast.Name):
            f = a.value.func
            t = ast.unparse(a.value)
            if isinstance(f, ast.Attribute) and f.attr == 'search' and \
                    'HEADER_BOUNDARY' in t and any(
                        ast.unparse(arg) == data for arg in a.value.args):
                mnames.add(a.targets[0].id)

    def is_cut(k):
        k = res(k)
        return isinstance(k, ast.Call) and \
            isinstance(k.func, ast.Attribute) and k.func.attr == 'end' and \
            isinstance(k.func.value, ast.Name) and \
            k.func.value.id in mnames and (
                not k.args or (isinstance(k.args[0], ast.Constant) and
                               k.args[0].value == 0))
    n_cut = n_all = 0
    for f, h, t, site in outcomes:
        rep.evaluations += 1
        hs, ts = _slice_of(h, data), _slice_of(t, data)
        if hs and ts:
            n_cut += 1
            same = hs[0] == 'to' and ts[0] == 'from' and hs[1] == ts[1]
            rep.check(same, 'E1', where,
                      'header block and payload are complementary slices',
                      '`%s` and `%s` do not cut the input at the same index: '
                      'bytes between the two are lost or delivered twice'
                      % (ast.unparse(h), ast.unparse(t)), loc=f.loc(site),
                      reason='%s[:k] / %s[k:] with k = %s'
                      % (data, data, hs[1]))
            rep.evaluations += 1
            k = h.slice.upper
            rep.check(same and is_cut(k), 'E1', where,
                      'the cut is the end of the header/body boundary match',
                      'the cut index `%s` is not the end of a search match '
                      'of the boundary pattern in the input'
                      % ast.unparse(res(k)), loc=f.loc(site),
                      reason='k = <_HEADER_BOUNDARY.search(%s)>.end()'
                      % data)
        elif ast.unparse(h) == data and isinstance(t, ast.Constant) and \
                t.value == b'':
            n_all += 1
            rep.ok('E1', where, 'without a boundary everything is header',
                   reason='(%s, b\'\')' % data, loc=f.loc(site))
        else:
            rep.bad('E1', where, 'cut `%s` / `%s`' % (
                ' '.join(ast.unparse(h).split())[:30],
                ' '.join(ast.unparse(t).split())[:30]),
                'this way of cutting the input is neither (data[:k], '
                'data[k:]) nor (data, b\'\'): bytes are lost, repeated or '
                'put on the wrong side', loc=f.loc(site))
    rep.evaluations += 1
    rep.check(n_cut == 1 and n_all == 1, 'E1', where,
              'exactly two ways to cut: at the boundary, or all header',
              'parse has %d boundary cuts and %d no-boundary outcomes '
              '(1 and 1 expected)' % (n_cut, n_all), loc=ctx.func.loc(),
              reason='one cut at the boundary, one whole-input case')
    # E2: payload -> self.message
    msg_w = [n for n in walk_own(fn) if isinstance(n, ast.Assign) and any(
        ast.unparse(t) == 'self.message' for t in n.targets)]
    rep.evaluations += 1
    ok = len(msg_w) == 1 and isinstance(msg_w[0].value, ast.Call) and \
        ast.unparse(msg_w[0].value.func) == 'self._merge_payloads' and \
        len(msg_w[0].value.args) == 2 and \
        ast.unparse(msg_w[0].value.args[1]) == tv
    rep.check(ok, 'E2', where,
              'self.message = _merge_payloads(headers, <payload slice>)',
              'the body stored by parse() is `%s`, not the payload slice '
              'handed to _merge_payloads' % (
                  ast.unparse(msg_w[0].value) if msg_w else '?'),
              loc=ctx.func.loc(msg_w[0] if msg_w else fn),
              reason='payload variable passed on unchanged')
    mctx = e.method_ctx(ENV, '_merge_payloads')
    mfn = mctx.func.node
    pp = mctx.func.params[2]
    rep.functions.add(mctx.func.qname)
    rebinds = [n for n in walk_own(mfn) if isinstance(n, (ast.Assign,
                                                           ast.AugAssign))
               and any(isinstance(x, ast.Name) and x.id == pp and
                       isinstance(x.ctx, ast.Store) for x in ast.walk(n))]
    nret = 0
    for n in walk_own(mfn):
        if not isinstance(n, ast.Return):
            continue
        nret += 1
        rep.evaluations += 1
        v = n.value
        ok = isinstance(v, ast.Name) and v.id == pp
        if not ok and isinstance(v, ast.BinOp) and isinstance(v.op, ast.Add):
            ok = isinstance(v.right, ast.Name) and v.right.id == pp and \
                not any(isinstance(x, ast.Name) and x.id == pp
                        for x in ast.walk(v.left))
        rep.check(ok and not rebinds, 'E2', mctx.func.qname,
                  'returns the payload itself or <prefix> + payload',
                  '_merge_payloads returns `%s`: the body bytes that '
                  'followed the blank line are transformed (or dropped) '
                  'before they are stored' % (ast.unparse(v) if v else None),
                  loc=mctx.func.loc(n), reason='payload is the untouched '
                  'right-most operand')
    if nret < 1:
        rep.error('anchor vanished: returns of _merge_payloads')
    fctx = e.method_ctx(ENV, 'flatten')
    rets = [n for n in walk_own(fctx.func.node) if isinstance(n, ast.Return)]
    rep.functions.add(fctx.func.qname)
    for n in rets:
        rep.evaluations += 1
        v = n.value
        ok = isinstance(v, ast.Tuple) and len(v.elts) == 2 and \
            ast.unparse(v.elts[1]) == 'self.message'
        rep.check(ok, 'E2', fctx.func.qname,
                  'flatten() returns self.message as it is',
                  'flatten() returns `%s` as the body instead of the stored '
                  'bytes' % (ast.unparse(v.elts[1]) if isinstance(
                      v, ast.Tuple) and len(v.elts) == 2 else
                      ast.unparse(v) if v else None),
                  loc=fctx.func.loc(n), reason='second result is '
                  'self.message')
    if not rets:
        rep.error('anchor vanished: return of Envelope.flatten')
    # writers of .message on envelopes
    writers = []
    for f in e.p.functions.values():
        if f.cls is None or ENV not in e.p.mro(f.cls.qname):
            continue
        for n in walk_own(f.node):
            tg = n.targets if isinstance(n, ast.Assign) else (
                [n.target] if isinstance(n, (ast.AugAssign, ast.AnnAssign))
                else [])
            for t in tg:
                if ast.unparse(t) == 'self.message':
                    writers.append((f, n))
    for f, n in writers:
        rep.evaluations += 1
        rep.check(f.qname in (ENV + '.__init__', ENV + '.parse'), 'E2',
                  f.qname, 'writer of self.message',
                  '%s assigns self.message outside __init__ / parse: the '
                  'stored body no longer is what parse() cut off' % f.qname,
                  loc=f.loc(n), reason='__init__ or parse')


def e3(e: Engine, rep: Report):
    m = e.p.modules.get('slimta.envelope')
    CLS = ('BytesParser', 'BytesGenerator', 'Parser', 'Generator',
           'BytesFeedParser')

    def policy_of(x):
        """what the policy expression denotes: module-level names assigned
        once are followed to their value (`_POLICY = SMTP`)"""
        seen = set()
        while isinstance(x, ast.Name) and x.id in m.globals and \
                x.id not in seen and isinstance(m.globals[x.id],
                                                (ast.Name, ast.Attribute)):
            seen.add(x.id)
            x = m.globals[x.id]
        return ast.unparse(x)
    pols = []
    for n in ast.walk(m.tree):
        if not isinstance(n, ast.Call):
            continue
        fn = ast.unparse(n.func)
        target = n
        if fn.rpartition('.')[2] == 'partial' and n.args and \
                ast.unparse(n.args[0]) in CLS:
            fn = ast.unparse(n.args[0])      # partial(BytesGenerator, ...)
        if fn in CLS:
            pol = [k.value for k in target.keywords if k.arg == 'policy']
            pols.append((n, fn, policy_of(pol[0]) if pol else None))
    rep.evaluations += 1
    made = {f for _, f, _ in pols}
    if not any('Parser' in f for f in made) or \
            not any('Generator' in f for f in made):
        rep.error('anchor vanished: parser / generator constructions (%s)'
                  % sorted(made))
        return
    kinds = {p for _, _, p in pols}
    rep.check(len(kinds) == 1 and None not in kinds, 'E3', 'slimta.envelope',
              'parser and generator share one policy',
              'the module parses with policy %s but generates with another '
              '(%s): header values are re-folded / re-encoded differently '
              'on the way out' % (pols[0][2], sorted(map(str, kinds))),
              loc='%s:%d' % (m.relpath, pols[0][0].lineno),
              reason='policy=%s everywhere' % pols[0][2])


def e4(e: Engine, rep: Report):
    ctx = e.method_ctx(ENV, 'copy')
    fn = ctx.func.node
    where = ctx.func.qname
    rep.functions.add(where)
    rets = [n for n in walk_own(fn) if isinstance(n, ast.Return)]
    rep.evaluations += 1
    ok = bool(rets)
    for r in rets:
        v = r.value
        if isinstance(v, ast.Name):
            defs = [n.value for n in walk_own(fn) if isinstance(n, ast.Assign)
                    and any(isinstance(t, ast.Name) and t.id == v.id
                            for t in n.targets)]
            v = defs[0] if len(defs) == 1 else None
        ok = ok and isinstance(v, ast.Call) and \
            ast.unparse(v.func) in ('copy.deepcopy', 'deepcopy') and \
            len(v.args) == 1 and ast.unparse(v.args[0]) == 'self'
    rep.check(ok, 'E4', where, 'copy() returns copy.deepcopy(self)',
              'Envelope.copy no longer returns a deep copy of the whole '
              'object: copies share or lose header / body state',
              loc=ctx.func.loc(), reason='deepcopy(self)')
    n = 0
    for cq in [ENV] + e.p.subclasses(ENV):
        c = e.p.classes[cq]
        n += 1
        rep.evaluations += 1
        bad = sorted(HOOKS & set(c.methods)) + (
            ['__slots__'] if any(
                isinstance(s, ast.Assign) and any(
                    isinstance(t, ast.Name) and t.id == '__slots__'
                    for t in s.targets) for s in c.node.body) else [])
        rep.check(not bad, 'E4', cq, 'no pickling / copying hooks',
                  '%s defines %s: what deepcopy and the pickling storage '
                  'backends keep of an envelope is no longer "every '
                  'attribute"' % (cq, bad), loc=c.loc()
                  if hasattr(c, 'loc') else '', reason='default object '
                  'protocol')
    if n < 1:
        rep.error('anchor vanished: Envelope class')


def e5(e: Engine, rep: Report):
    ctx = e.method_ctx(ENV, 'encode_7bit')
    g = e.build(ctx, raises=lambda b, n, r: (
        {'builtins.UnicodeDecodeError'} if n.kind == 'call' and
        e.call_name(n) == 'decode' else set()))
    fx = e.facts(g)
    where = ctx.func.qname
    rep.functions.add(where)
    enc = '%s#%d' % (ctx.func.params[1], g.entry.frame.id)
    probes = [n for n in g.calls() if e.call_name(n) == 'decode' and
              canon(n.ast.func.value, n.frame) == 'self.message']
    hs = [n for n in g.of_kind('handler')]
    raises = [n for n in g.of_kind('stmt') if isinstance(n.ast, ast.Raise)]
    recode = [n for n in g.calls() if e.call_name(n) == '_encode_parts']
    rep.evaluations += 1
    if not probes or not hs:
        rep.error('anchor vanished: ASCII probe of the body and its handler '
                  'in encode_7bit')
        return
    live = dataflow.reachable(g)

    def no_encoder(st):
        return holds(st, (False, enc)) or holds(st, (True, enc + ' is None'))

    def with_encoder(st):
        return holds(st, (True, enc)) or holds(st, (False, enc + ' is None'))
    for n in raises:
        rep.evaluations += 1
        inh = any(sc.kind == 'handler' for sc in n.scopes)
        st = fx.at(n) or frozenset()
        rep.check(n.id in live and inh and no_encoder(st), 'E5',
                  where, '8-bit body without an encoder is refused',
                  'the re-raise of the failed ASCII probe is not reached '
                  'exactly when no encoder was given: 8-bit data is passed '
                  'on (or a message that could be converted is refused)',
                  loc=n.loc(), reason='raise under `not encoder` inside the '
                  'probe\'s handler')
    for n in recode:
        rep.evaluations += 1
        inh = any(sc.kind == 'handler' for sc in n.scopes)
        st = fx.at(n) or frozenset()
        rep.check(n.id in live and inh and with_encoder(st), 'E5',
                  where, 're-encoding only with an encoder, only for a '
                  '8-bit body', '_encode_parts runs without an encoder or '
                  'for a body that already is ASCII', loc=n.loc(),
                  reason='inside the handler, under truthy(encoder)')
    # after the handler nothing lets an 8-bit body through silently: every
    # way out of the handler is the raise or passes _encode_parts
    for h in hs:
        rep.evaluations += 1
        pth = dataflow.find_path(
            g, h, lambda x: x is g.exit,
            avoid=lambda x: x in recode or x in raises,
            edge_ok=lambda a, l, s: not isinstance(l, tuple))
        rep.check(pth is None, 'E5', where,
                  'no way out of the failed probe without raise or '
                  're-encoding', 'after the ASCII probe of the body failed '
                  'encode_7bit can return without raising and without '
                  're-encoding: 8-bit data goes to a 7-bit-only server',
                  loc=h.loc(), reason='handler ends in raise or '
                  '_encode_parts', witness=dataflow.render_path(pth, 8)
                  if pth else None)
    # ... and nothing returns before the body was looked at: what the
    # headers say about the encoding is the sender's claim, not a fact
    rep.evaluations += 1
    pth = dataflow.find_path(
        g, g.entry, lambda x: x is g.exit,
        avoid=lambda x: x in probes,
        edge_ok=lambda a, l, s: not isinstance(l, tuple))
    rep.check(pth is None, 'E5', where,
              'every return of encode_7bit lies behind the ASCII probe',
              'encode_7bit can return without having tried to decode the '
              'body as ASCII: a body that contains 8-bit bytes passes as '
              '7-bit whatever its labels say', loc=ctx.func.loc(),
              reason='self.message.decode(\'ascii\') on every path to the '
              'exit', witness=dataflow.render_path(pth, 8) if pth else None)


def e7(e: Engine, rep: Report):
    """The 7-bit conversion changes a MIME part only through the encoder it
    was given (plus dropping the part's old Content-Transfer-Encoding
    header, which the encoder sets anew).  Rewriting the payload in
    Envelope itself (set_payload with a text derived from get_payload())
    puts the charset-decoded text where the raw payload was: the encoders
    then produce ASCII that no longer decodes to the original text."""
    ctx = e.method_ctx(ENV, '_encode_parts')
    fn = ctx.func.node
    where = ctx.func.qname
    rep.functions.add(where)
    def walks(it):
        if 'walk' in ast.unparse(it):
            return True
        # a local bound once to a comprehension / filter over msg.walk()
        if isinstance(it, ast.Name):
            ds = [a.value for a in walk_own(fn) if isinstance(a, ast.Assign)
                  and any(isinstance(t, ast.Name) and t.id == it.id
                          for t in a.targets)]
            return len(ds) == 1 and 'walk' in ast.unparse(ds[0])
        # a generator of the class that filters msg.walk()
        if isinstance(it, ast.Call) and isinstance(it.func, ast.Attribute) \
                and isinstance(it.func.value, ast.Name) and \
                it.func.value.id in ('self', 'cls'):
            h = e.p.lookup_method(ENV, it.func.attr)
            if h is None:
                return False
            if h.is_generator and any(
                    isinstance(y, ast.For) and 'walk' in ast.unparse(y.iter)
                    for y in walk_own(h.node)):
                return True
            # ... or one that returns a comprehension / filter over it
            return any(isinstance(r, ast.Return) and r.value is not None and
                       'walk' in ast.unparse(r.value)
                       for r in walk_own(h.node))
        return False
    loops = [x for x in walk_own(fn) if isinstance(x, ast.For) and
             walks(x.iter)]
    if not loops:
        rep.error('anchor vanished: the loop over msg.walk() in '
                  '_encode_parts')
        return
    REWRITERS = {'set_payload', 'set_charset', 'set_param', 'replace_header',
                 'add_header', 'set_type', 'attach', 'set_content',
                 'set_default_type', 'del_param', 'set_boundary'}
    for lp in loops:
        var = lp.target.id if isinstance(lp.target, ast.Name) else None
        bad = []
        enc = 0
        # the body of the loop, with a helper the part is handed to
        # (`self._encode_leaf_part(part, encoder)`) looked into
        regions = [(lp, var, set(ctx.func.params))]
        # (a bound method put in a local first: reencode = self._reencode)
        alias = {}
        for a0 in walk_own(fn):
            if isinstance(a0, ast.Assign) and len(a0.targets) == 1 and \
                    isinstance(a0.targets[0], ast.Name) and \
                    isinstance(a0.value, ast.Attribute) and \
                    isinstance(a0.value.value, ast.Name) and \
                    a0.value.value.id in ('self', 'cls'):
                alias[a0.targets[0].id] = a0.value.attr
        for x in ast.walk(lp):
            hname = None
            if isinstance(x, ast.Call) and isinstance(x.func, ast.Attribute) \
                    and isinstance(x.func.value, ast.Name) and \
                    x.func.value.id in ('self', 'cls'):
                hname = x.func.attr
            elif isinstance(x, ast.Call) and isinstance(x.func, ast.Name) \
                    and x.func.id in alias:
                hname = alias[x.func.id]
            mfunc = None
            if isinstance(x, ast.Call) and isinstance(x.func, ast.Name) and \
                    x.func.id not in alias and \
                    x.func.id not in ctx.func.params:
                # a module-level helper the part is handed to
                mfunc = e.p.functions.get(
                    ctx.func.module.name + '.' + x.func.id)
            if (hname is not None or mfunc is not None) and any(
                        isinstance(a, ast.Name) and a.id == var
                        for a in x.args):
                h = mfunc if mfunc is not None else \
                    e.p.lookup_method(ENV, hname)
                if h is not None:
                    prm = [p for p in h.params if p not in ('self', 'cls')]
                    i = [j for j, a in enumerate(x.args)
                         if isinstance(a, ast.Name) and a.id == var][0]
                    if i < len(prm):
                        encp = {prm[j] for j, a in enumerate(x.args)
                                if j < len(prm) and isinstance(a, ast.Name)
                                and a.id in ctx.func.params}
                        regions.append((h.node, prm[i], encp))
                        rep.functions.add(h.qname)
        for region, var, encnames in regions:
          for x in ast.walk(region):
            if isinstance(x, ast.Call) and isinstance(x.func, ast.Attribute) \
                    and isinstance(x.func.value, ast.Name) and \
                    x.func.value.id == var and x.func.attr in REWRITERS:
                bad.append(x)
            if isinstance(x, ast.Assign) and any(
                    isinstance(t, ast.Subscript) and
                    isinstance(t.value, ast.Name) and t.value.id == var
                    for t in x.targets):
                bad.append(x)
            if isinstance(x, ast.Call) and isinstance(x.func, ast.Name) and \
                    x.func.id in encnames and any(
                        isinstance(a, ast.Name) and a.id == var
                        for a in x.args):
                enc += 1
        rep.evaluations += 1
        rep.check(not bad and enc >= 1, 'E7', where,
                  'a part is changed by the given encoder only',
                  '_encode_parts rewrites the part itself (`%s`) instead of '
                  'leaving the conversion to the encoder: the stored raw '
                  'payload is replaced by text derived from it, the 7-bit '
                  'output no longer decodes to the original text' % (
                      ' '.join(ast.unparse(bad[0]).split())[:60]
                      if bad else 'no encoder call'),
                  loc=ctx.func.loc(bad[0] if bad else lp),
                  reason='encoder(part) and header removal only')


# ---------------------------------------------------------------------- E8
def e8(e: Engine, rep: Report):
    text_escape(e, rep, 'E8', e.method_ctx(ENV, 'parse'), 'parse()',
                '`%s` raises for input with bytes outside its codec (the '
                'parser hands 8-bit bytes on as surrogate escapes): '
                'Envelope.parse fails on a message it used to accept')


def text_escape(e: Engine, rep: Report, rule, ctx, short, what, deny=()):
    from . import c11
    rep.tables.add('c11.TEXT_RAISES')

    def raises(b, n, r):
        if n.kind != 'call' or (r is not None and r.targets):
            return set()
        nm = e.call_name(n)
        toks = c11.TEXT_RAISES.get(nm)
        if not toks or nm not in ('encode', 'decode'):
            return set()
        args = list(n.ast.args)
        kw = {k.arg: k.value for k in n.ast.keywords}
        enc = args[0] if args else kw.get('encoding')
        err = args[1] if len(args) > 1 else kw.get('errors')
        if isinstance(err, ast.Constant) and err.value in c11.LENIENT_ERRORS:
            return set()
        if nm == 'encode' and (enc is None or (
                isinstance(enc, ast.Constant) and
                str(enc.value).lower() in c11.TOTAL_CODECS)):
            return set()
        return set(toks)
    g = e.build(ctx, inline=e.inline_same_self(deny=list(deny)),
                raises=raises, max_depth=4)
    where = ctx.func.qname
    rep.functions.add(where)
    reach = dataflow.reachable(g)
    esc = {}
    for n in g.nodes:
        if n.id not in reach or n.kind != 'call':
            continue
        for l, s2 in n.succ:
            if s2 is g.raise_exit and isinstance(l, tuple) and \
                    'Unicode' in l[1]:
                esc.setdefault(l[1], n)
    rep.evaluations += 1
    if not esc:
        rep.ok(rule, where, 'no strict text conversion on the way',
               reason='every encode / decode below %s is total, '
               'lenient or handled' % short, loc=ctx.func.loc())
    for t, n in sorted(esc.items()):
        pth = dataflow.find_path(g, g.entry, lambda x: x is n)
        rep.bad(rule, where, '%s leaves %s' % (t.rpartition('.')[2], short),
                what % n.text(50), loc=n.loc(),
                witness=dataflow.render_path(pth, 10) if pth else None)


# ---------------------------------------------------------------------- E9
def e9(e: Engine, rep: Report):
    m = e.p.modules.get('slimta.envelope')
    CLS = ('BytesParser', 'BytesGenerator', 'Parser', 'Generator',
           'BytesFeedParser')
    n = 0
    for c in ast.walk(m.tree):
        if not isinstance(c, ast.Call):
            continue
        fn = ast.unparse(c.func).rpartition('.')[2]
        if fn == 'partial' and c.args and \
                ast.unparse(c.args[0]).rpartition('.')[2] in CLS:
            fn = ast.unparse(c.args[0]).rpartition('.')[2]
        if fn not in CLS:
            continue
        pol = [k.value for k in c.keywords if k.arg == 'policy']
        if not pol:
            continue
        x, seen = pol[0], set()
        while isinstance(x, ast.Name) and x.id in m.globals and \
                x.id not in seen:
            seen.add(x.id)
            x = m.globals[x.id]
        n += 1
        rep.evaluations += 1
        bad = None
        if isinstance(x, ast.Call) and isinstance(x.func, ast.Attribute) \
                and x.func.attr == 'clone':
            for k in x.keywords:
                v = k.value
                if k.arg == 'max_line_length' and \
                        isinstance(v, ast.Constant) and \
                        isinstance(v.value, int) and 0 < v.value < 78:
                    bad = 'max_line_length=%d' % v.value
                if k.arg == 'refold_source' and \
                        isinstance(v, ast.Constant) and v.value == 'all':
                    bad = "refold_source='all'"
        rep.check(bad is None, 'E9', 'slimta.envelope',
                  'policy of `%s`' % ' '.join(ast.unparse(c).split())[:40],
                  'the policy is `%s`: with %s a well-formed header line '
                  'of 77 or 78 bytes counts as over-long, so flatten() '
                  're-folds (or RFC 2047-encodes) a field that was parsed '
                  'as it stood - the value that comes out is not the value '
                  'that went in' % (' '.join(ast.unparse(x).split())[:60],
                                    bad), loc='%s:%d' % (m.relpath,
                                                         c.lineno),
                  reason='stock threshold')
    if n < 2:
        rep.error('anchor vanished: policy= of parser / generator (%d < 2)'
                  % n)


# --------------------------------------------------------------------- E10
def e10(e: Engine, rep: Report):
    m = e.p.modules.get('slimta.envelope')
    pol_names = set()
    for st in m.tree.body:
        if isinstance(st, ast.ImportFrom) and st.module == 'email.policy':
            pol_names |= {a.asname or a.name for a in st.names}
        elif isinstance(st, ast.Assign) and isinstance(
                st.value, (ast.Name, ast.Attribute, ast.Call)) and any(
                isinstance(y, ast.Name) and y.id in pol_names
                for y in ast.walk(st.value)):
            pol_names |= {t.id for t in st.targets
                          if isinstance(t, ast.Name)}

    def is_policy(x):
        return (isinstance(x, ast.Attribute) and x.attr == 'policy') or (
            isinstance(x, ast.Name) and x.id in pol_names) or (
            isinstance(x, ast.Attribute) and
            ast.unparse(x).startswith('email.policy.'))
    n = 0
    for f in e.p.functions.values():
        if f.module.name != 'slimta.envelope':
            continue
        n += 1
        for c in walk_own(f.node):
            if isinstance(c, ast.Compare) and any(
                    is_policy(x) for x in [c.left] + list(c.comparators)):
                rep.evaluations += 1
                rep.functions.add(f.qname)
                rep.bad('E10', f.qname, '`%s`' % ' '.join(
                    ast.unparse(c).split())[:50],
                    'the module branches on `%s`: policy objects compare '
                    'by identity, and the one that hangs off a deep copy or '
                    'an unpickled envelope is a new object - the copy takes '
                    'the other branch and flattens to different header '
                    'values than the envelope it was copied from'
                    % ' '.join(ast.unparse(c).split())[:50], loc=f.loc(c))
    rep.evaluations += 1
    if n < 5:
        rep.error('anchor vanished: functions of slimta.envelope (%d < 5)'
                  % n)
    else:
        rep.ok('E10', 'slimta.envelope', 'no comparison of policy objects',
               reason='%d functions scanned' % n, nontrivial=False)


# --------------------------------------------------------------------- E11
def e11(e: Engine, rep: Report):
    ctx = e.method_ctx(ENV, 'flatten')
    g = e.build(ctx, raises=lambda b, n, r: set(),
                inline=e.inline_same_self(), max_depth=3)
    where = ctx.func.qname
    rep.functions.add(where)
    m = e.p.modules.get('slimta.envelope')
    partials = {t.id for st in m.tree.body if isinstance(st, ast.Assign) and
                isinstance(st.value, ast.Call) and
                ast.unparse(st.value.func).rpartition('.')[2] == 'partial'
                and st.value.args and 'Generator' in ast.unparse(
                    st.value.args[0])
                for t in st.targets if isinstance(t, ast.Name)}
    gens = [n for n in g.calls() if e.call_name(n) == 'flatten' and
            n.frame is not g.entry.frame or (
                e.call_name(n) == 'flatten' and
                isinstance(n.ast.func, ast.Attribute) and
                isinstance(n.ast.func.value, ast.Call))]
    gens = [n for n in gens if isinstance(n.ast.func, ast.Attribute) and (
        (isinstance(n.ast.func.value, ast.Call) and (
            'Generator' in ast.unparse(n.ast.func.value.func) or
            ast.unparse(n.ast.func.value.func) in partials)) or
        isinstance(n.ast.func.value, ast.Name))]
    rets = [r for r in g.of_kind('stmt') if isinstance(r.ast, ast.Return)
            and r.frame is g.entry.frame]
    rep.evaluations += 1
    if not rets:
        rep.error('anchor vanished: return of Envelope.flatten')
        return
    w = None
    for r in rets:
        w = w or dataflow.typestate_witness(
            g, False, lambda n, l, st: True if n in gens else st,
            lambda n, st, r=r: n is r and not st)
    rep.check(w is None, 'E11', where,
              'the header block is written by the generator',
              'flatten() can return a header block that no '
              'BytesGenerator(...).flatten(...) produced: header values '
              'that hold raw 8-bit bytes are folded as text and come back '
              'RFC 2047-encoded (`=?unknown-8bit?...?=`) - not the values '
              'that were parsed', loc=ctx.func.loc(),
              reason='generator on every path',
              witness=dataflow.render_path(w, 10) if w else None)


# --------------------------------------------------------------------- E12
def e12(e: Engine, rep: Report):
    ctx = e.method_ctx(ENV, 'parse')
    g = e.build(ctx, raises=lambda b, n, r: set(),
                inline=e.inline_same_self(), max_depth=3)
    where = ctx.func.qname
    rep.functions.add(where)
    sites = [n for n in g.calls() if e.call_name(n) == 'parse' and
             isinstance(n.ast.func, ast.Attribute) and
             n.frame is not g.entry.frame or (
                 e.call_name(n) in ('parse', 'parsebytes') and
                 isinstance(n.ast.func, ast.Attribute) and (
                     'Parser' in ast.unparse(n.ast.func.value) or
                     ast.unparse(n.ast.func.value).startswith('_')))]
    rep.evaluations += 1
    if not sites:
        rep.unknown('E12', where, 'headers-only parse',
                    'cannot see the parser call below Envelope.parse',
                    loc=ctx.func.loc())
        return
    for n in sites:
        rep.evaluations += 1
        args = list(n.ast.args)
        extra = []
        for a in args[1:]:
            if isinstance(a, ast.Starred) and n.frame.star_args is not None \
                    and isinstance(a.value, ast.Name) and \
                    n.frame.ctx.func.node.args.vararg is not None and \
                    a.value.id == n.frame.ctx.func.node.args.vararg.arg:
                extra += [x for x, _f in n.frame.star_args]
            else:
                a2, _ = common.deref(a, n.frame)
                extra.append(a2)
        for k in n.ast.keywords:
            if k.arg == 'headersonly':
                extra.append(k.value)
        ok = any(isinstance(x, ast.Constant) and x.value is True or
                 (isinstance(x, ast.Constant) and x.value == 1)
                 for x in extra)
        # (BytesHeaderParser / HeaderParser never look past the headers)
        ok = ok or 'HeaderParser' in ast.unparse(n.ast.func.value)
        rep.check(ok, 'E12', where, '`%s` is given headersonly' % n.text(40),
                  'the header block is parsed without headersonly: for a '
                  'top-level Content-Type of message/* the parser turns the '
                  '(empty) rest into a sub-message list, which parse() then '
                  'treats as left-over body text and fails on - a '
                  'well-formed message is refused', loc=n.loc(),
                  reason='second argument True')


# --------------------------------------------------------------------- E13
def e13(e: Engine, rep: Report):
    ctx = e.method_ctx(ENV, 'parse')
    g = e.build(ctx, raises=lambda b, n, r: set(),
                inline=e.inline_same_self(deny=['_msg_generator',
                                                '_parse_data']),
                max_depth=3)
    where = ctx.func.qname
    rep.functions.add(where)
    own = [p for p in ctx.func.params if p not in ('self', 'cls')]
    dparam = own[0] if own else None
    dq = '%s#%d' % (dparam, g.entry.frame.id)

    def verdict(x, fr, at, depth=0):
        """True: ends in a slice of data (or is empty bytes); False: does
        not; None: not read"""
        if depth > 8 or x is None:
            return None
        if isinstance(x, ast.Constant) and x.value == b'':
            return True
        if isinstance(x, ast.Subscript) and isinstance(x.slice, ast.Slice) \
                and x.slice.upper is None and x.slice.step is None:
            base, bfr = common.origin(g, x.value, fr, follow_locals=False)
            return isinstance(base, ast.Name) and \
                path_of(base, bfr) == dq
        if isinstance(x, ast.BinOp) and isinstance(x.op, ast.Add):
            return verdict(x.right, fr, at, depth + 1)
        if isinstance(x, ast.Name):
            x2, f2 = common.origin(g, x, fr, follow_locals=False)
            if x2 is not x:
                # a parameter: what the caller handed in, at the call
                ent = [m for m in g.nodes if m.kind == 'call_enter' and
                       m.extra.get('callee_frame') is fr]
                return verdict(x2, f2, ent[0] if ent else at, depth + 1)
            if path_of(x, fr) == dq:
                return True          # the whole input
            defs = common.reaching_defs(g, at, path_of(x, fr))
            if not defs or any(d is None or not isinstance(d.ast, ast.Assign)
                               for d in defs):
                return None
            res = []
            for d in defs:
                tgt = d.ast.targets[0]
                v = d.ast.value
                if isinstance(tgt, (ast.Tuple, ast.List)) and \
                        isinstance(v, (ast.Tuple, ast.List)) and \
                        len(tgt.elts) == len(v.elts):
                    for t, vv in zip(tgt.elts, v.elts):
                        if isinstance(t, ast.Name) and t.id == x.id:
                            v = vv
                res.append(verdict(v, d.frame, d, depth + 1))
            if any(r is False for r in res):
                return False
            return True if all(r is True for r in res) else None
        if isinstance(x, ast.Call):
            vals = common.values_of(g, x, fr)
            if len(vals) == 1 and vals[0][0] is x:
                nm = ast.unparse(x.func).rpartition('.')[2]
                if nm in ('_msg_generator', 'flatten', 'getvalue',
                          'as_bytes', 'as_string', 'get_payload'):
                    return False     # re-serialised / parser-made text
                if nm in ('lstrip', 'rstrip', 'strip') and \
                        isinstance(x.func, ast.Attribute):
                    return verdict(x.func.value, fr, at, depth + 1)
                return None
            res = []
            for v, f2 in vals:
                rn = [m for m in g.of_kind('stmt') if m.frame is f2 and
                      isinstance(m.ast, ast.Return) and m.ast.value is v]
                res.append(verdict(v, f2, rn[0] if rn else at, depth + 1))
            if any(r is False for r in res):
                return False
            return True if all(r is True for r in res) else None
        if isinstance(x, ast.IfExp):
            a, b = verdict(x.body, fr, at, depth + 1), \
                verdict(x.orelse, fr, at, depth + 1)
            if a is False or b is False:
                return False
            return True if a and b else None
        return None
    n = 0
    for st in g.of_kind('stmt'):
        if not (isinstance(st.ast, ast.Assign) and any(
                path_of(t, st.frame) == 'self.message'
                for t in st.ast.targets)):
            continue
        n += 1
        rep.evaluations += 1
        v = verdict(st.ast.value, st.frame, st)
        if v is None:
            rep.ok('E13', where, '`%s`' % st.text(50),
                   reason='provenance not read (E2 judges the cut)',
                   nontrivial=False, loc=st.loc())
            continue
        rep.check(v, 'E13', where, 'self.message ends in a slice of the '
                  'input', 'Envelope.parse stores `%s` as the body: it does '
                  'not end in a slice of `%s` but in text that went through '
                  'the email parser / generator, which rewrite line breaks '
                  '(every lone CR or LF comes back as CRLF) - the body is '
                  'no longer the bytes that were received' % (
                      ' '.join(ast.unparse(st.ast.value).split())[:50],
                      dparam), loc=st.loc(),
                  reason='... + data[k:] on every path')
    if n < 1:
        rep.error('anchor vanished: assignment of self.message in '
                  'Envelope.parse')


# --------------------------------------------------------------------- E14
def e14(e: Engine, rep: Report):
    ctx = e.method_ctx(ENV, 'parse')

    def raises(b, n, r):
        if n.kind == 'call' and isinstance(n.ast.func, ast.Attribute) and \
                n.ast.func.attr in ('index', 'rindex') and n.ast.args:
            return {'builtins.ValueError'}
        return set()
    g = e.build(ctx, inline=e.inline_same_self(), raises=raises,
                max_depth=4, assert_raises=False)
    where = ctx.func.qname
    rep.functions.add(where)
    reach = dataflow.reachable(g)
    esc = []
    for n in g.nodes:
        if n.id not in reach or n.kind != 'call':
            continue
        for l, s2 in n.succ:
            if s2 is g.raise_exit and isinstance(l, tuple) and \
                    l[1] == 'builtins.ValueError':
                esc.append(n)
    rep.evaluations += 1
    if not esc:
        rep.ok('E14', where, 'no unguarded index() below parse()',
               reason='no index() / rindex() whose ValueError leaves parse()',
               nontrivial=False, loc=ctx.func.loc())
    for n in esc:
        rep.bad('E14', where, '`%s` can fail' % n.text(50),
                'Envelope.parse looks something up with %s(), which raises '
                'ValueError when it is not there: for input the email '
                'parser hands back in another form than it came in '
                '(base64 / quoted-printable undone, line breaks '
                'translated) parse() raises instead of storing the message'
                % n.ast.func.attr, loc=n.loc())
