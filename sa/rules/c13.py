"""C13 - failed mail yields exactly one bounce per failure reply; bounces never
loop.

B1 null-sender guard: bounces are produced only through _perm_fail under a
   truthy envelope.sender
B2 bounce addressing: Bounce is built with the (empty) class-level sender and
   with exactly [original sender] as recipients
B3 one bounce per group, each failed recipient in exactly one group, groups
   keyed by reply equality
B4 the bounce goes to the configured bounce queue through enqueue()
B5 the embedded original is what envelope.flatten() of the failed message
   itself returns, written untransformed (header block always, body unless
   headers-only)
"""
from __future__ import annotations

import ast

from ..engine import Engine
from ..report import Report
from ..cfg import Node
from ..facts import path_of, canon, holds, parse_atom, atoms_of_test
from ..model import walk_own
from ..resolve import Ctx
from .. import dataflow
from . import common, c07

QUEUE = 'slimta.queue.Queue'
BOUNCE = 'slimta.bounce.Bounce'


def run(e: Engine, rep: Report):
    rep.rule('B1', 'who-may-call: _bounce only as the spawn target in '
             '_perm_fail, dominated by truthy(envelope.sender); '
             'bounce_factory only inside _bounce')
    rep.rule('B2', 'Bounce.__init__ passes sender=<class attribute that is '
             "the constant ''> and recipients=[envelope.sender]")
    rep.rule('B3', '_split_by_reply: each recipient lands in exactly one '
             'group per iteration, a new group only when no existing reply '
             'compared equal; consumers call _perm_fail once per group')
    rep.rule('B4', '_bounce hands a truthy factory result to '
             'self.bounce_queue.enqueue and nothing else')
    rep.rule('B5', 'Bounce._build_message writes the two results of '
             '<envelope parameter>.flatten() as they are; the parameter (or '
             'a copy of it) is not changed before')
    rep.not_decided += ['rendered content of the bounce templates']
    b1(e, rep)
    b2(e, rep)
    b3(e, rep)
    b4(e, rep)
    b5(e, rep)
    rep.rule('B6', 'no write to a per-recipient reply on a path before the '
             '_split_by_reply call that groups them by equality')
    b6(e, rep)
    rep.rule('B7', 'a permanent failure of a message with a sender '
             'produces its bounce: every way through _perm_fail that does '
             'not hand self._bounce to the pool has seen the sender test '
             'negative (no other reason suppresses the bounce)')
    b7(e, rep)
    rep.rule('B8', 'what is handed to a bouncer is not changed afterwards: '
             '_perm_fail only SPAWNS the bounce, so an envelope (or the '
             'envelope _split_by_reply was given) that is written to after '
             'the call is read by the bounce greenlet in its later state')
    b8(e, rep)
    rep.rule('B9', 'the assembled report is parsed as it was assembled: '
             'the argument of self.parse() in Bounce._build_message is the '
             'buffer\'s value itself, not a transformation of it (the '
             'embedded original is part of it)')
    b9(e, rep)
    rep.rule('B10', 'the reply a relay error carries is made for that '
             'failure: no relay module raises a relay error with a '
             'module-level / imported Reply object (the queue annotates the '
             'reply of an exhausted message in place - on a shared object '
             'the note sticks and every later bounce misquotes its reply)')
    b10(e, rep)
    rep.rule('B11', 'recipients and replies handed on together '
             '(_split_by_reply / _retry_later) stay parallel: neither the '
             'recipients of the failure envelope nor the replies pass '
             'through sorted / set / reversed / dict on their own')
    b11(e, rep)
    rep.rule('B12', 'the default bounce factory always makes a bounce (a '
             'class, or a function none of whose returns is None): only a '
             'factory the application plugged in may decline')
    b12(e, rep)
    rep.rule('B13', '= C03-R3.6: the positions marked settled are positions '
             'in the recipient list of the envelope at hand (a recipient '
             'filed under the wrong position is bounced again, another one '
             'is dropped without a bounce)')
    from . import c03 as _c03
    _c03.r36(e, rep, 'B13')
    rep.rule('B14', 'building the bounce cannot fail on the text of the '
             'original: no strict text conversion (table c11.TEXT_RAISES) '
             'raises out of Bounce.__init__ - the failed message is already '
             'gone from the queue when the bounce is built')
    from . import c20 as _c20
    _c20.text_escape(
        e, rep, 'B14', e.method_ctx(BOUNCE, '__init__'), 'Bounce()',
        '`%s` raises for an original with 8-bit content and no arm of the '
        'right class catches it (decode raises UnicodeDecodeError, encode '
        'UnicodeEncodeError): the bounce is never enqueued and the sender '
        'is not told that the message was lost',
        # (the application's own templates are configuration, not input)
        deny=['_check_custom_templates'])
    rep.rule('B15', 'the bounce quotes the reply it was given: Bounce '
             'builds no Reply of its own and never re-binds / rewrites its '
             '`reply` (a 4xx that ended the retries is reported as the 4xx '
             'it was)')
    rep.rule('B16', 'BytesFormat puts the substituted values into the '
             'output as they are: the rendering methods apply no rewriting '
             'operation (replace / sub / strip / translate ...) - whatever '
             'is done to the finished output is done to the failed '
             'recipient, the sender and the quoted reply as well')
    b15_b16(e, rep)
    rep.rule('B17', 'who is named in a bounce is decided before the message '
             'is settled in storage: below Queue._handle_partial_relay no '
             'recipient is looked up by position (envelope.recipients[i], '
             '.index()) once set_recipients_delivered may have run - a '
             'backend that keeps the queue\'s own envelope object (the '
             'in-memory store) strikes the settled recipients off that very '
             'list, and the positions then select other people')
    b17(e, rep)
    rep.rule('B18', 'the catch-all arm of Queue._attempt - which files the '
             'whole, unmodified envelope for another attempt - belongs to a '
             'try that covers the relay call only: no method that records '
             'the outcome (bounce, removal, retry, settled marks) is '
             'reachable from the try body (a bounce that cannot be enqueued '
             'or a store that raises once would otherwise send recipients '
             'that were already bounced through delivery and bounce again)')
    common.attempt_try_scope(
        e, rep, 'B18', 'a recipient bounced in this round is attempted, '
        'fails and is bounced a second time')


def b5(e: Engine, rep: Report):
    rctx = e.method_ctx(BOUNCE, '_build_message')
    rfn = rctx.func.node
    renvp = rctx.func.params[1]
    rhp = rctx.func.params[3] if len(rctx.func.params) > 3 else None

    def flattens(fn_node):
        return [n for n in walk_own(fn_node) if isinstance(n, ast.Assign) and
                isinstance(n.value, ast.Call) and
                isinstance(n.value.func, ast.Attribute) and
                n.value.func.attr == 'flatten']
    # the function that embeds the original: _build_message itself, or the
    # helper (possibly a generator of the parts) it hands the envelope to
    ctx, call = rctx, None
    if not flattens(rfn):
        for x in walk_own(rfn):
            if isinstance(x, ast.Call) and isinstance(x.func, ast.Attribute) \
                    and isinstance(x.func.value, ast.Name) and \
                    x.func.value.id == 'self':
                m = e.p.lookup_method(BOUNCE, x.func.attr)
                if m is not None and flattens(m.node):
                    ctx, call = Ctx(m, BOUNCE), x
                    break
    fn = ctx.func.node
    where = ctx.func.qname
    rep.functions.add(rctx.func.qname)
    rep.functions.add(where)
    fl = flattens(fn)
    if not fl:
        rep.error('anchor vanished: flatten() in Bounce._build_message')
        return
    # the helper's parameters in terms of _build_message's
    envp, hpn = renvp, rhp
    if call is not None:
        pmap = {}
        prm = ctx.func.params[1:]
        for i, a0 in enumerate(call.args):
            if i < len(prm) and isinstance(a0, ast.Name):
                pmap[prm[i]] = a0.id
        for k in call.keywords:
            if k.arg and isinstance(k.value, ast.Name):
                pmap[k.arg] = k.value.id
        inv = {v: k for k, v in pmap.items()}
        envp, hpn = inv.get(renvp), inv.get(rhp)
        if envp is None or any(
                isinstance(x, ast.Name) and x.id == renvp and
                isinstance(x.ctx, ast.Store) for x in ast.walk(rfn)):
            rep.error('cannot follow the failed message from '
                      '_build_message into %s' % where)
            return
        if ctx.func.is_generator:
            # the parts it yields are what gets parsed: joined, all of them
            joined = any(
                isinstance(x, ast.Call) and
                isinstance(x.func, ast.Attribute) and x.func.attr == 'join'
                and x.args and (x.args[0] is call or (
                    isinstance(x.args[0], ast.Name) and any(
                        isinstance(a, ast.Assign) and a.value is call and
                        any(isinstance(t, ast.Name) and
                            t.id == x.args[0].id for t in a.targets)
                        for a in walk_own(rfn))))
                for x in walk_own(rfn))
            # ... or written one after the other: `for part in parts(...):
            # buffer.write(part)`
            written = any(
                isinstance(x, ast.For) and x.iter is call and
                isinstance(x.target, ast.Name) and len(x.body) == 1 and
                not x.orelse and isinstance(x.body[0], ast.Expr) and
                isinstance(x.body[0].value, ast.Call) and
                isinstance(x.body[0].value.func, ast.Attribute) and
                x.body[0].value.func.attr == 'write' and
                len(x.body[0].value.args) == 1 and
                isinstance(x.body[0].value.args[0], ast.Name) and
                x.body[0].value.args[0].id == x.target.id
                for x in walk_own(rfn))
            # ... or handed whole to writelines()
            wl = any(
                isinstance(x, ast.Call) and
                isinstance(x.func, ast.Attribute) and
                x.func.attr == 'writelines' and len(x.args) == 1 and (
                    x.args[0] is call or (
                        isinstance(x.args[0], ast.Name) and any(
                            isinstance(a, ast.Assign) and a.value is call and
                            any(isinstance(t, ast.Name) and
                                t.id == x.args[0].id for t in a.targets)
                            for a in walk_own(rfn))))
                for x in walk_own(rfn))
            written = written or wl
            if not joined and not written:
                rep.error('cannot see how _build_message consumes the parts '
                          'generated by %s' % where)
                return
    a = fl[0]
    recv = a.value.func.value

    def origin(x, seen=()):
        """'param' if x denotes the parameter or an untouched copy of it,
        else a description of what else it is."""
        if isinstance(x, ast.Name) and x.id == envp:
            return 'param'
        if isinstance(x, ast.Call) and isinstance(x.func, ast.Attribute) \
                and x.func.attr == 'copy' and not x.args:
            return origin(x.func.value, seen)
        if isinstance(x, ast.Name) and x.id not in seen:
            defs = [n.value for n in walk_own(fn)
                    if isinstance(n, ast.Assign) and any(
                        isinstance(t, ast.Name) and t.id == x.id
                        for t in n.targets)]
            uses = [n for n in walk_own(fn) if isinstance(n, ast.Call) and (
                (isinstance(n.func, ast.Attribute) and
                 isinstance(n.func.value, ast.Name) and
                 n.func.value.id == x.id and n.func.attr != 'flatten') or
                any(isinstance(y, ast.Name) and y.id == x.id
                    for y in n.args))]
            if uses:
                return '`%s`, which is changed by `%s` first' % (
                    x.id, ' '.join(ast.unparse(uses[0]).split())[:50])
            if len(defs) == 1:
                return origin(defs[0], seen + (x.id,))
        return '`%s`' % ast.unparse(x)
    o = origin(recv)
    rep.evaluations += 1
    rep.check(o == 'param', 'B5', where,
              'the embedded original is flatten() of the failed message',
              'the bounce embeds flatten() of %s instead of the failed '
              'message as it is: header block / body of the original are '
              'not reproduced unchanged' % o, loc=ctx.func.loc(a),
              reason='receiver of flatten() is the envelope parameter')
    rep.evaluations += 1
    mut = e.cg.mutates_param(rctx, renvp)
    rep.check(not mut, 'B5', rctx.func.qname,
              'building the bounce does not change the failed message',
              '_build_message (or something it passes the envelope to) '
              'modifies the original envelope before / while embedding it',
              loc=rctx.func.loc(), reason='no mutation of the parameter')
    tg = a.targets[0]
    names = [x.id for x in tg.elts] if isinstance(tg, ast.Tuple) and all(
        isinstance(x, ast.Name) for x in tg.elts) else []
    if len(names) != 2:
        rep.unknown('B5', where, 'flatten() results', 'flatten() is not '
                    'unpacked into (header block, body)',
                    loc=ctx.func.loc(a))
        return
    g = e.build(ctx, raises=lambda b, n, r: set())
    fx = e.facts(g)

    # lists whose elements are joined without a separator into the payload
    joined_lists = {x.args[0].id for x in walk_own(fn)
                    if isinstance(x, ast.Call) and
                    isinstance(x.func, ast.Attribute) and
                    x.func.attr == 'join' and
                    isinstance(x.func.value, ast.Constant) and
                    x.func.value.value == b'' and len(x.args) == 1 and
                    isinstance(x.args[0], ast.Name)}

    def embedded_all(n):
        """the Name nodes this CFG node embeds into the bounce as they are:
        payload.write(x), `yield x` in the generator of the parts,
        parts.append(x) / parts = [.., x, ..] for a list that is joined
        with b''"""
        if n.kind == 'call' and e.call_name(n) == 'write' and n.ast.args \
                and isinstance(n.ast.args[0], ast.Name):
            return [n.ast.args[0]]
        if n.kind == 'call' and e.call_name(n) == 'append' and \
                len(n.ast.args) == 1 and \
                isinstance(n.ast.args[0], ast.Name) and \
                isinstance(n.ast.func.value, ast.Name) and \
                n.ast.func.value.id in joined_lists:
            return [n.ast.args[0]]
        if n.kind == 'stmt' and isinstance(n.ast, ast.Assign) and \
                isinstance(n.ast.value, ast.List) and any(
                    isinstance(t, ast.Name) and t.id in joined_lists
                    for t in n.ast.targets):
            return [x for x in n.ast.value.elts if isinstance(x, ast.Name)]
        if n.kind == 'stmt' and isinstance(n.ast, ast.Expr) and \
                isinstance(n.ast.value, ast.Yield) and \
                isinstance(n.ast.value.value, ast.Name):
            return [n.ast.value.value]
        return []
    writes = {nm: [n for n in g.nodes
                   if any(x.id == nm for x in embedded_all(n))]
              for nm in names}
    # any other use of the two values is a transformation
    for nm in names:
        other = [n for n in walk_own(fn) if isinstance(n, ast.Name) and
                 n.id == nm and isinstance(n.ctx, ast.Load) and not any(
                     any(x is n for x in embedded_all(w))
                     for w in writes[nm])]
        rep.evaluations += 1
        rep.check(bool(writes[nm]) and not other, 'B5', where,
                  '`%s` is written as it is' % nm,
                  '`%s` (from flatten()) is %s' % (
                      nm, 'transformed before it is embedded' if other
                      else 'never written into the bounce'),
                  loc=ctx.func.loc(other[0] if other else a),
                  reason='only use: payload.write(%s) / yield' % nm)
    after = dataflow.must_events_after(
        g, lambda n: ['w:' + x.id for x in embedded_all(n)
                      if x.id in names] if any(
            n in ws for ws in writes.values()) else [],
        edge=c07.no_call_exc)
    fnode = [n for n in g.nodes if n.kind == 'stmt' and n.ast is a]
    if fnode:
        st = after.get(fnode[0].id)
        rep.evaluations += 1
        rep.check(isinstance(st, dataflow.Top) or
                  ('w:' + names[0]) in (st or ()), 'B5', where,
                  'the header block is embedded on every path',
                  'a path through _build_message does not write the '
                  'original header block', loc=fnode[0].loc(),
                  reason='write(%s) on every path' % names[0])
    hp = '%s#%d' % (hpn, g.entry.frame.id) if hpn else None
    for w in writes[names[1]]:
        st = fx.at(w) or frozenset()
        base = (fx.at(fnode[0]) if fnode else None) or frozenset()
        extra = sorted(k for p, k in st - base
                       if hp is None or hp not in k)
        rep.evaluations += 1
        rep.check(not extra, 'B5', where,
                  'the body is embedded unless headers-only',
                  'the body of the original is embedded only under an '
                  'additional condition %s' % extra,
                  loc=w.loc(), reason='guarded by `not headers_only` only')


def b1(e: Engine, rep: Report):
    c = common.merged_class(e, QUEUE)
    refs_bounce, calls_factory = [], []
    for mname, m in c.methods.items():
        for n in walk_own(m.node):
            if isinstance(n, ast.Attribute) and n.attr == '_bounce' and \
                    isinstance(n.value, ast.Name) and n.value.id == 'self':
                refs_bounce.append((m, n))
            if isinstance(n, ast.Call) and \
                    ast.unparse(n.func) == 'self.bounce_factory':
                calls_factory.append((m, n))
    # also references from other modules
    for f in e.p.functions.values():
        if f.cls is not None and f.cls.qname == QUEUE:
            continue
        if not f.module.name.startswith('slimta.queue'):
            continue
        for n in walk_own(f.node):
            if isinstance(n, ast.Attribute) and n.attr in ('_bounce',
                                                           'bounce_factory') \
                    and isinstance(n.ctx, ast.Load):
                refs_bounce.append((f, n))
    if not refs_bounce or not calls_factory:
        rep.error('anchor vanished: _bounce / bounce_factory uses')
    guarded_in = set()
    for m, n in refs_bounce:
        # judged below: every site that hands self._bounce to a pool is
        # dominated by the null-sender test on the envelope it bounces
        guarded_in.add(m.qname)
    for m, n in calls_factory:
        rep.evaluations += 1
        rep.check(m.qname == QUEUE + '._bounce', 'B1', m.qname,
                  'call of bounce_factory', 'the bounce factory is invoked '
                  'from %s, outside _bounce' % m.qname, loc=m.loc(n),
                  reason='only in _bounce')
    # _perm_fail leads to a bounce
    pctx = e.method_ctx(QUEUE, '_perm_fail')
    pg = e.build(pctx, inline=common.queue_inline(
        e, also=()) if False else e.inline_same_self(
        deny=['_remove', '_pool_spawn', '_pool_run', '_pool_imap',
              '_bounce']), max_depth=3)
    rep.functions.add(pctx.func.qname)
    psites = [n for n in pg.nodes if n.kind == 'call' and any(
        ast.unparse(a).endswith('._bounce') for a in n.ast.args) or (
        n.kind in ('call', 'call_enter') and e.call_name(n) == '_bounce')]
    if not psites:
        rep.bad('B1', pctx.func.qname, 'permanent failure produces a bounce',
                '_perm_fail no longer generates a bounce at all',
                loc=pctx.func.loc())
    # wherever self._bounce is handed on: under the null-sender test of the
    # envelope that is bounced
    nsites_b1 = 0
    qc = common.merged_class(e, QUEUE)
    for mname, m in sorted(qc.methods.items()):
        if m.qname not in guarded_in:
            continue
        ctx = Ctx(m, QUEUE)
        g = e.build(ctx)
        fx = e.facts(g)
        where = ctx.func.qname
        rep.functions.add(where)
        sites = [n for n in g.nodes if n.kind == 'call' and any(
            ast.unparse(a).endswith('._bounce') for a in n.ast.args) or (
            n.kind in ('call', 'call_enter') and
            e.call_name(n) == '_bounce')]
        for n in sites:
            nsites_b1 += 1
            rep.evaluations += 1
            st = fx.at(n)
            # the envelope handed to _bounce: the argument after the method
            envs = []
            for i, a in enumerate(n.ast.args):
                if ast.unparse(a).endswith('._bounce') and \
                        i + 1 < len(n.ast.args):
                    envs.append(n.ast.args[i + 1])
            if e.call_name(n) == '_bounce' and n.ast.args:
                envs.append(n.ast.args[0])
            ok = bool(envs) and all(
                holds(st, (True, canon(x, n.frame) + '.sender'))
                for x in envs)
            rep.check(ok, 'B1', where,
                      'bounce only for a non-empty sender',
                      'a bounce is generated for a message with an empty '
                      'sender (no `if envelope.sender` on the envelope '
                      'that is bounced dominates this site): a failing '
                      'bounce is bounced again (mail loop)',
                      loc=n.loc(), reason='dominated by truthy(<bounced '
                      'envelope>.sender)')
    if nsites_b1 < 1:
        rep.error('anchor vanished: sites that hand self._bounce to a pool')


def b2(e: Engine, rep: Report):
    c = e.p.cls(BOUNCE)
    where = BOUNCE + '.__init__'
    rep.functions.add(where)
    init = c.methods.get('__init__')
    if init is None:
        rep.error('anchor vanished: Bounce.__init__')
        return
    sup = None
    for n in walk_own(init.node):
        if isinstance(n, ast.Call) and isinstance(n.func, ast.Attribute) \
                and n.func.attr == '__init__' and \
                'super' in ast.unparse(n.func.value):
            sup = n
    if sup is None:
        rep.error('anchor vanished: super().__init__ call in Bounce')
        return
    kw = {k.arg: k.value for k in sup.keywords}
    sender = kw.get('sender') or (sup.args[0] if sup.args else None)
    rcpts = kw.get('recipients') or (sup.args[1] if len(sup.args) > 1
                                     else None)
    envparam = init.params[1]
    rep.evaluations += 2
    ok_s = False
    if isinstance(sender, ast.Constant) and sender.value == '':
        ok_s = True
    elif isinstance(sender, ast.Attribute) and \
            isinstance(sender.value, ast.Name) and \
            sender.value.id in ('self', 'cls', 'Bounce'):
        _, val = e.p.lookup_class_attr(BOUNCE, sender.attr)
        ok_s = isinstance(val, ast.Constant) and val.value == ''
        # and no instance-level override before the call
    rep.check(ok_s, 'B2', where, 'bounce sender is the null sender',
              "the bounce is not sent from the empty sender ('' class "
              'attribute): a failing bounce has a sender and is bounced '
              'again', loc=init.loc(sup), reason="sender=''")
    ok_r = isinstance(rcpts, ast.List) and len(rcpts.elts) == 1 and \
        ast.unparse(rcpts.elts[0]) == envparam + '.sender'
    rep.check(ok_r, 'B2', where, 'bounce goes to the original sender only',
              'the bounce recipients are `%s` instead of exactly '
              '[envelope.sender]' % (ast.unparse(rcpts) if rcpts is not None
                                     else None), loc=init.loc(sup),
              reason='recipients=[envelope.sender]')


def b3(e: Engine, rep: Report):
    ctx = e.method_ctx(QUEUE, '_split_by_reply')
    g = e.build(ctx, raises=lambda b, n, r: set(),
                inline=e.inline_same_self(), max_depth=3)
    fx = e.facts(g)
    where = ctx.func.qname
    rep.functions.add(where)
    outer = [n for n in g.of_kind('iter') if isinstance(n.ast, ast.For) and
             'recipients' in ast.unparse(n.ast.iter)]
    if not outer:
        # other grouping idioms
        src = ast.unparse(ctx.func.node)
        gb = [n for n in walk_own(ctx.func.node) if isinstance(n, ast.Call)
              and ast.unparse(n.func).endswith('groupby')]
        if gb:
            srt = all(isinstance(c.args[0], ast.Call) and
                      ast.unparse(c.args[0].func) == 'sorted'
                      for c in gb if c.args)
            rep.evaluations += 1
            rep.check(srt, 'B3', where,
                      'groups are keyed by reply equality',
                      'itertools.groupby only merges ADJACENT equal keys; '
                      'the (reply, recipient) pairs are not sorted by '
                      'reply first, so equal replies that are not adjacent '
                      'end up in separate groups: several bounces for one '
                      'failure reply', loc=ctx.func.loc(gb[0]),
                      reason='groupby over input sorted by the same key')
            return
        rep.error('anchor vanished: recipient loop in _split_by_reply')
        return
    lp = outer[0]

    # the recipient being placed: the loop variable that is not merely an
    # index (names used only inside subscripts - `replies[i]` - are indexes)
    tnames = {x.id for x in ast.walk(lp.ast.target)
              if isinstance(x, ast.Name)}

    PLACE = ('append', 'copy', 'add', 'insert')

    def mentions_rcpt(call):
        idx = set()
        for a in call.args:
            for x in ast.walk(a):
                if isinstance(x, ast.Subscript):
                    idx |= {id(y) for y in ast.walk(x.slice)}
                # `groups.append((reply, envelope.copy([rcpt])))`: the
                # recipient is placed by the inner call
                if isinstance(x, ast.Call) and \
                        isinstance(x.func, ast.Attribute) and \
                        x.func.attr in PLACE:
                    idx |= {id(y) for y in ast.walk(x)}
        return any(isinstance(x, ast.Name) and x.id in tnames and
                   id(x) not in idx
                   for a in call.args for x in ast.walk(a))

    def in_loop(n, loop):
        return any(sc.kind == 'loop' and sc.ast is loop.ast
                   for sc in n.scopes)
    # placing the recipient: X.append(rcpt) / X.append([rcpt]) /
    # envelope.copy([rcpt]) - exactly one per recipient
    def count(n):
        if n.kind != 'call' or not in_loop(n, lp) or \
                e.call_name(n) not in ('append', 'copy', 'add', 'insert'):
            return 0
        return 1 if mentions_rcpt(n.ast) else 0
    counts = common.per_iteration_counts(g, lp, count)
    rep.evaluations += 1
    rep.check(counts == frozenset([1]), 'B3', where,
              'each failed recipient lands in exactly one group',
              'a recipient can be placed in %s groups in one pass: it is '
              'named in no bounce or in several' % sorted(counts),
              loc=lp.loc(), reason='exactly one placement per recipient')
    # a new group only when no existing reply compared equal: the search is
    # the loop nested in the recipient loop, a creation is a placement
    # outside it
    inner = [n for n in g.of_kind('iter') if isinstance(n.ast, ast.For) and
             n is not lp and in_loop(n, lp)]
    def is_join(n):
        # the recipient is added to a group that exists already
        return isinstance(n.ast.func, ast.Attribute) and \
            ast.unparse(n.ast.func.value).endswith('.recipients')
    news = [n for n in g.nodes if count(n) and
            not any(in_loop(n, i) for i in inner) and not is_join(n)]
    rep.evaluations += 1
    if news and not inner and _find_or_create(e, rep, g, fx, where, lp, news,
                                              in_loop):
        news = []
    elif not news or not inner:
        rep.bad('B3', where, 'groups are keyed by reply equality',
                '_split_by_reply no longer searches the existing groups '
                'before creating one', loc=ctx.func.loc())
    for n in news:
        # every path of the current recipient iteration to the creation
        # passes the 'done' edge of the inner search loop, and never the T
        # edge of the equality test
        eq_tests = [t for t in g.of_kind('test')
                    if isinstance(t.ast, ast.Compare) and
                    isinstance(t.ast.ops[0], ast.Eq) and
                    'repl' in ast.unparse(t.ast)]

        # the search may sit in a helper that hands back the group it found
        # or None: the caller's `found is None` test goes the way of the
        # return that was taken (a group in the table is never None: groups
        # are made by the creation sites only)
        assigned = {}
        for s2 in g.of_kind('stmt'):
            if isinstance(s2.ast, ast.Assign) and \
                    len(s2.ast.targets) == 1 and \
                    isinstance(s2.ast.targets[0], ast.Name) and \
                    isinstance(s2.ast.value, ast.Call):
                for kf in getattr(s2.frame, 'children', ()):
                    if kf.call is s2.ast.value:
                        assigned[id(kf)] = path_of(s2.ast.targets[0],
                                                   s2.frame)

        def step(x, label, st0):
            st, ret = st0
            if isinstance(label, tuple):
                return st0
            if x.kind == 'stmt' and isinstance(x.ast, ast.Return) and \
                    id(x.frame) in assigned:
                v = x.ast.value
                none = v is None or (isinstance(v, ast.Constant) and
                                     v.value is None)
                ret = (assigned[id(x.frame)], 'none' if none else 'obj')
            if x.kind == 'test' and label in ('T', 'F') and ret is not None:
                for pol, k in atoms_of_test(x.ast, label == 'T', x.frame):
                    if k == ret[0] + ' is None' and \
                            pol != (ret[1] == 'none'):
                        return None
                    if k == ret[0] and pol and ret[1] == 'none':
                        return None
            if x is lp:
                return ('start' if label == 'body' else st, None)
            if x in inner and label == 'done':
                return ('searched' if st == 'start' else st, ret)
            if x in eq_tests and label == 'T':
                return ('matched', ret)
            return (st, ret)
        pth = dataflow.typestate_witness(
            g, ('pre', None), step,
            lambda x, st: x is n and st[0] != 'searched')
        rep.check(pth is None and bool(eq_tests), 'B3', where,
                  'new group only after the search found no equal reply',
                  'a new group (one more bounce) can be created although '
                  'an existing group has an equal reply, or without '
                  'searching', loc=n.loc(),
                  reason='creation only on the exhausted-search path',
                  witness=dataflow.render_path(pth) if pth else None)
    # consumers: exactly one _perm_fail per group
    for meth in ('_handle_partial_relay', '_retry_later'):
        cctx = e.method_ctx(QUEUE, meth)
        # together with the private helpers the bouncing was moved into
        cg = e.build(cctx, raises=lambda b, n, r: set(),
                     inline=e.inline_same_self(deny=[
                         '_perm_fail', '_split_by_reply', '_remove',
                         '_add_queued', '_retry_later', '_pool_spawn',
                         '_pool_run', '_pool_imap', '_bounce']),
                     max_depth=4)
        loops = [n for n in cg.of_kind('iter') if isinstance(n.ast, ast.For)
                 and '_split_by_reply' in ast.unparse(n.ast.iter)]
        rep.evaluations += 1
        if not loops:
            rep.bad('B3', cctx.func.qname, 'consumes _split_by_reply',
                    '%s no longer bounces per reply group' % meth,
                    loc=cctx.func.loc())
            continue
        bnames = common.bouncers(e)
        for l2 in loops:
            counts = common.per_iteration_counts(
                cg, l2, lambda n: 1 if common.bounce_event(e, n, bnames)
                else 0)
            rep.check(counts == frozenset([1]), 'B3', cctx.func.qname,
                      'exactly one _perm_fail per group',
                      '%s _perm_fail calls per reply group' % sorted(counts),
                      loc=l2.loc(), reason='one bounce per group')
            # the group envelope and its reply are what is bounced
            tg = [ast.unparse(x) for x in ast.walk(l2.ast.target)
                  if isinstance(x, ast.Name)]
            for n in cg.calls():
                if e.call_name(n) in bnames and any(
                        sc.kind == 'loop' and sc.ast is l2.ast
                        for sc in n.scopes):
                    args = [ast.unparse(a) for a in n.ast.args]
                    rep.check(set(tg) <= set(args), 'B3', cctx.func.qname,
                              'the group and its reply are bounced',
                              '_perm_fail is called with %s instead of the '
                              'loop\'s group envelope and reply' % args,
                              loc=n.loc(), reason='loop variables passed')
    # every _perm_fail anywhere in the queue quotes either the reply of its
    # own group or the reply carried by the whole-message exception
    c = common.merged_class(e, QUEUE)
    nsites = 0
    bnames_all = common.bouncers(e)
    for mname, m in sorted(c.methods.items()):
        handler_names = {h.name for h in ast.walk(m.node)
                         if isinstance(h, ast.ExceptHandler) and h.name}
        group_vars = set()
        for f in ast.walk(m.node):
            if isinstance(f, ast.For) and \
                    '_split_by_reply' in ast.unparse(f.iter):
                group_vars |= {x.id for x in ast.walk(f.target)
                               if isinstance(x, ast.Name)}
        # a helper called from except blocks with the caught exception:
        # its parameter stands for a handler name
        for i, prm in enumerate(m.params[1:] if m.params[:1] == ['self']
                                else m.params):
            sites = []
            for m2 in c.methods.values():
                hn2 = {h.name for h in ast.walk(m2.node)
                       if isinstance(h, ast.ExceptHandler) and h.name}
                for x in walk_own(m2.node):
                    if isinstance(x, ast.Call) and \
                            ast.unparse(x.func) == 'self.' + mname:
                        a = x.args[i] if i < len(x.args) else None
                        sites.append(isinstance(a, ast.Name) and
                                     a.id in hn2)
            rebound = any(isinstance(x, ast.Name) and x.id == prm and
                          isinstance(x.ctx, ast.Store)
                          for x in ast.walk(m.node))
            if sites and all(sites) and not rebound:
                handler_names.add(prm)
        for n in walk_own(m.node):
            if not (isinstance(n, ast.Call) and
                    isinstance(n.func, ast.Attribute) and
                    isinstance(n.func.value, ast.Name) and
                    n.func.value.id == 'self' and
                    n.func.attr in bnames_all and len(n.args) >= 2 and
                    not any(ast.unparse(a).endswith('._bounce')
                            for a in n.args)):
                continue
            ri = _reply_index(c, n.func.attr, bnames_all)
            if ri is None or ri >= len(n.args):
                # the bouncer called here makes up the reply itself: the
                # site inside it is the one judged
                continue
            nsites += 1
            rep.evaluations += 1
            r = n.args[ri]
            # a bouncer that hands on the reply it was given: its callers
            # are the ones judged
            passthrough = mname in bnames_all and isinstance(r, ast.Name) \
                and r.id in m.params and not any(
                    isinstance(x, ast.Name) and x.id == r.id and
                    isinstance(x.ctx, ast.Store) for x in ast.walk(m.node))
            ok = passthrough or (
                isinstance(r, ast.Name) and r.id in group_vars) or (
                isinstance(r, ast.Attribute) and r.attr == 'reply' and
                isinstance(r.value, ast.Name) and
                r.value.id in handler_names) or (
                isinstance(r, ast.Call) and
                ast.unparse(r.func).endswith('Reply'))
            rep.check(ok, 'B3', m.qname,
                      'the bounce quotes the reply of its own group',
                      '_perm_fail is given `%s` as the reply: a reply picked '
                      'out of several is quoted for recipients that failed '
                      'with a different one (one bounce instead of one per '
                      'distinct reply)' % ast.unparse(r), loc=m.loc(n),
                      reason='reply of the _split_by_reply group / of the '
                      'whole-message failure')
    # (three on the pinned tree; two when the per-group loops of
    # _handle_partial_relay and _retry_later share one helper - that each of
    # them still bounces per group is B3's consumer obligation)
    if nsites < 2:
        rep.error('anchor vanished: _perm_fail call sites (%d < 2)' % nsites)


def _find_or_create(e, rep, g, fx, where, lp, places, in_loop):
    """The grouping spelled `found = next((G for R, G in groups if reply ==
    R), None)` (possibly in a helper): next() with a None default over a
    filter on reply equality is None exactly when no group compared equal.
    Every placement of the recipient is then either under `found is None`
    (a new group) or under `found is not None` and into `found`."""
    finds = {}
    for s in g.of_kind('stmt'):
        if not (isinstance(s.ast, ast.Assign) and in_loop(s, lp) and
                len(s.ast.targets) == 1 and
                isinstance(s.ast.targets[0], ast.Name)):
            continue
        vals = common.values_of(g, s.ast.value, s.frame)
        ok = bool(vals)
        for v, fr in vals:
            if not (isinstance(v, ast.Call) and
                    isinstance(v.func, ast.Name) and v.func.id == 'next' and
                    len(v.args) == 2 and
                    isinstance(v.args[1], ast.Constant) and
                    v.args[1].value is None and
                    isinstance(v.args[0], ast.GeneratorExp) and
                    len(v.args[0].generators) == 1):
                ok = False
                continue
            gen = v.args[0].generators[0]
            eq = [c for c in gen.ifs if isinstance(c, ast.Compare) and
                  len(c.ops) == 1 and isinstance(c.ops[0], ast.Eq) and
                  'repl' in ast.unparse(c)]
            if len(gen.ifs) != 1 or not eq:
                ok = False
        if ok:
            finds[path_of(s.ast.targets[0], s.frame)] = s
    if not finds:
        return False
    for n in places:
        rep.evaluations += 1
        st = fx.at(n) or frozenset()
        verdict = None
        for fp in finds:
            if holds(st, (True, '%s is None' % fp)):
                verdict = 'new'
            elif holds(st, (False, '%s is None' % fp)):
                rcv = n.ast.func.value if isinstance(
                    n.ast.func, ast.Attribute) else None
                base = rcv
                while isinstance(base, ast.Attribute):
                    base = base.value
                verdict = 'join' if base is not None and \
                    path_of(base, n.frame) == fp else 'stray'
        rep.check(verdict in ('new', 'join'), 'B3', where,
                  'new group only after the search found no equal reply',
                  'a new group (one more bounce) can be created although '
                  'an existing group has an equal reply, or without '
                  'searching', loc=n.loc(),
                  reason='placement is decided by `next(<groups with an '
                  'equal reply>, None) is None`')
    return True


def _reply_index(c, name, bnames, seen=()):
    """position (among the call's arguments) of the reply a bouncer quotes:
    the last parameter of the method that spawns the bounce; for a wrapper
    the parameter it hands on as that reply, None when it computes it"""
    m = c.methods.get(name)
    if m is None or name in seen:
        return None
    own = m.params[1:] if m.params[:1] == ['self'] else list(m.params)
    inner = [x for x in walk_own(m.node) if isinstance(x, ast.Call) and
             isinstance(x.func, ast.Attribute) and
             isinstance(x.func.value, ast.Name) and
             x.func.value.id == 'self' and x.func.attr in bnames and
             x.func.attr != name and
             not any(ast.unparse(a).endswith('._bounce') for a in x.args)]
    if not inner:
        return len(own) - 1 if own else None
    idx = set()
    for x in inner:
        ri = _reply_index(c, x.func.attr, bnames, seen + (name,))
        if ri is None or ri >= len(x.args):
            continue
        a = x.args[ri]
        if isinstance(a, ast.Name) and a.id in own and not any(
                isinstance(y, ast.Name) and y.id == a.id and
                isinstance(y.ctx, ast.Store) for y in ast.walk(m.node)):
            idx.add(own.index(a.id))
        else:
            idx.add(None)
    return idx.pop() if len(idx) == 1 else None


def truthiness_overloaded(e: Engine, cq: str):
    for k in e.p.mro(cq):
        if k in ('gevent.Greenlet', 'gevent.greenlet.Greenlet',
                 'collections.deque'):
            return k
        c = e.p.classes.get(k)
        if c is not None and ('__bool__' in c.methods or
                              '__len__' in c.methods):
            return k
    return None


def b4_configured(e: Engine, rep: Report):
    """The configured bounce queue is the one used: its default must not be
    chosen by truthiness (a Queue is a Greenlet, which is falsy until it is
    started and again once it has finished)."""
    from .. import tables
    c = common.merged_class(e, QUEUE)
    init = c.methods.get('__init__')
    if init is None:
        rep.error('anchor vanished: Queue.__init__')
        return
    found = False
    for n in walk_own(init.node):
        if not (isinstance(n, ast.Assign) and any(
                isinstance(t, ast.Attribute) and t.attr == 'bounce_queue'
                for t in n.targets)):
            continue
        found = True
        rep.evaluations += 1
        v = n.value
        types = tables.SEED_ATTR_TYPES.get((QUEUE, 'bounce_queue'), [])
        over = [truthiness_overloaded(e, t) for t in types]
        by_truth = isinstance(v, ast.BoolOp) and isinstance(v.op, ast.Or) \
            and isinstance(v.values[0], ast.Name) and \
            v.values[0].id in init.params
        if isinstance(v, ast.IfExp) and isinstance(v.test, ast.Name):
            by_truth = True
        rep.check(not (by_truth and any(over)), 'B4', init.qname,
                  'configured bounce queue is used whatever its state',
                  'the bounce_queue parameter is defaulted by truthiness '
                  '(`%s`), but a Queue is a %s whose truth value is False '
                  'until it is started and after it has finished: a '
                  'configured bounce queue that is not running yet (or '
                  'that has no relay and ended) is silently replaced by '
                  'self' % (ast.unparse(v), (over or ['?'])[0]),
                  loc=init.loc(n), reason='defaulted with `is None`')
    if not found:
        rep.error('anchor vanished: self.bounce_queue assignment')


def b4(e: Engine, rep: Report):
    b4_configured(e, rep)
    ctx = e.method_ctx(QUEUE, '_bounce')
    g = e.build(ctx)
    fx = e.facts(g)
    where = ctx.func.qname
    rep.functions.add(where)
    enq = [n for n in g.nodes if n.kind in ('call', 'call_enter') and
           e.call_name(n) == 'enqueue']
    rep.evaluations += 1
    if not enq:
        rep.bad('B4', where, 'bounce is enqueued',
                '_bounce no longer enqueues the bounce', loc=ctx.func.loc())
    for n in enq:
        recv = canon(n.ast.func.value, n.frame)
        rep.check(recv == 'self.bounce_queue', 'B4', where,
                  'bounce handed to the configured bounce queue',
                  'the bounce is enqueued on `%s` instead of '
                  'self.bounce_queue' % recv, loc=n.loc(),
                  reason='self.bounce_queue.enqueue(...)')
        a0 = n.ast.args[0] if n.ast.args else None
        p0 = path_of(a0, n.frame) if a0 is not None else None
        st = fx.at(n)
        rep.check(p0 is not None and holds(st, (True, p0)), 'B4', where,
                  'only a truthy factory result is enqueued',
                  'a None bounce (factory declined) can be enqueued',
                  loc=n.loc(), reason='dominated by truthy(bounce)')
        # what is enqueued is the factory result
        srcs = [s for s in g.of_kind('stmt') if isinstance(s.ast, ast.Assign)
                and path_of(s.ast.targets[0], s.frame) == p0]
        rep.check(bool(srcs) and all(
            isinstance(s.ast.value, ast.Call) and
            ast.unparse(s.ast.value.func) == 'self.bounce_factory'
            for s in srcs), 'B4', where,
            'the enqueued object is the factory result',
            'the enqueued object is not what bounce_factory returned',
            loc=n.loc(), reason='single def from self.bounce_factory(...)')


# --------------------------------------------------------------------- B6
def b6(e: Engine, rep: Report):
    """Groups are formed by reply EQUALITY, so the replies must reach
    _split_by_reply as the relay reported them.  Changing them first
    (appending a note to every recipient's reply) changes a reply object
    that several recipients share once per recipient: equal replies stop
    comparing equal, one failure reason yields several bounces, each naming
    only part of the recipients."""
    c = common.merged_class(e, QUEUE)
    n = 0
    for mname, m in sorted(c.methods.items()):
        calls = [x for x in walk_own(m.node) if isinstance(x, ast.Call) and
                 ast.unparse(x.func) == 'self._split_by_reply' and
                 len(x.args) >= 2]
        if not calls:
            continue
        ctx = Ctx(m, QUEUE)
        g = e.build(ctx, raises=lambda b, nn, r: set())
        rep.functions.add(m.qname)
        for call in calls:
            n += 1
            rep.evaluations += 1
            arg = call.args[1]
            # names that stand for the replies (aliases, `[r] if .. else r`)
            src = {x.id for x in ast.walk(arg) if isinstance(x, ast.Name)}
            changed = True
            while changed:
                changed = False
                for a in walk_own(m.node):
                    if isinstance(a, ast.Assign) and any(
                            isinstance(y, ast.Name) and y.id in src
                            for y in ast.walk(a.value)):
                        for t in a.targets:
                            if isinstance(t, ast.Name) and t.id not in src:
                                src.add(t.id)
                                changed = True
            elems = set()
            for lp in walk_own(m.node):
                if isinstance(lp, ast.For) and any(
                        isinstance(y, ast.Name) and y.id in src
                        for y in ast.walk(lp.iter)) and \
                        '_split_by_reply' not in ast.unparse(lp.iter):
                    elems |= {y.id for y in ast.walk(lp.target)
                              if isinstance(y, ast.Name)}
            cnodes = [x for x in g.nodes if x.kind in ('call', 'call_enter')
                      and x.ast is call]
            muts = []
            for x in g.of_kind('stmt'):
                a = x.ast
                tg = a.targets if isinstance(a, ast.Assign) else (
                    [a.target] if isinstance(a, ast.AugAssign) else [])
                for t in tg:
                    if isinstance(t, ast.Attribute) and \
                            isinstance(t.value, ast.Name) and \
                            t.value.id in (elems | src) and not (
                                # the loop over the groups themselves
                                any(sc.kind == 'loop' and
                                    '_split_by_reply' in ast.unparse(
                                        sc.ast.iter) for sc in x.scopes
                                    if isinstance(sc.ast, ast.For))):
                        muts.append(x)
            before = [x for x in muts if any(
                cn.id in dataflow.reachable(
                    g, x, lambda a2, l, s2: not isinstance(l, tuple))
                for cn in cnodes)]
            rep.check(not before, 'B6', m.qname,
                      'replies reach _split_by_reply as the relay reported '
                      'them',
                      '`%s` changes the per-recipient replies before they '
                      'are grouped by equality: a reply object shared by '
                      'several recipients is changed once per recipient, '
                      'equal replies no longer compare equal and one '
                      'failure reason produces several bounces' % (
                          before[0].text(50) if before else ''),
                      loc=before[0].loc() if before else m.loc(call),
                      reason='no write to a reply before the grouping call')
    if n < 1:
        rep.error('anchor vanished: callers of _split_by_reply (%d < 1)' % n)


# ---------------------------------------------------------------------- B7
def b7(e: Engine, rep: Report):
    ctx = e.method_ctx(QUEUE, '_perm_fail')
    g = e.build(ctx, raises=lambda b, n, r: set(),
                inline=e.inline_same_self(
                    deny=['_remove', '_pool_spawn', '_pool_run',
                          '_pool_imap', '_bounce']), max_depth=3)
    where = ctx.func.qname
    rep.functions.add(where)
    envp = ctx.func.params[2] if len(ctx.func.params) > 2 else 'envelope'
    sender = '%s#%d.sender' % (envp, g.entry.frame.id)
    spawns = [n for n in g.nodes if (n.kind == 'call' and any(
        ast.unparse(a).endswith('._bounce') for a in n.ast.args)) or (
        n.kind in ('call', 'call_enter') and e.call_name(n) == '_bounce')]
    if not spawns:
        rep.error('anchor vanished: bounce spawn in _perm_fail')
        return
    from ..facts import atoms_of_test

    def step(x, label, st):
        if x in spawns:
            return 'bounced'
        if x.kind == 'test' and label in ('T', 'F') and st == 'pending':
            for p, k in atoms_of_test(x.ast, label == 'T', x.frame):
                if k == sender and not p:
                    return 'null'
                if k in ("%s == ''" % sender, 'len(%s) == 0' % sender,
                         '%s is None' % sender) and p:
                    return 'null'
        return st
    rep.evaluations += 1
    pth = dataflow.typestate_witness(
        g, 'pending', step, lambda x, st: x is g.exit and st == 'pending')
    rep.check(pth is None, 'B7', where,
              'every failure with a sender is bounced',
              '_perm_fail can return without having spawned the bounce '
              'although the sender is not null: a message with a real '
              'return path fails permanently and nobody is told',
              loc=ctx.func.loc(), reason='only the null-sender branch '
              'skips the spawn',
              witness=dataflow.render_path(pth, 12) if pth else None)


# ---------------------------------------------------------------------- B8
def b8(e: Engine, rep: Report):
    c = common.merged_class(e, QUEUE)
    bnames = common.bouncers(e)
    n_fn = 0
    for mname, m in sorted(c.methods.items()):
        if mname in bnames:
            continue
        calls_b = [x for x in walk_own(m.node) if isinstance(x, ast.Call) and
                   isinstance(x.func, ast.Attribute) and
                   isinstance(x.func.value, ast.Name) and
                   x.func.value.id == 'self' and x.func.attr in bnames]
        if not calls_b:
            continue
        n_fn += 1
        ctx = Ctx(m, QUEUE)
        g = e.build(ctx, raises=lambda b, n, r: set())
        rep.functions.add(m.qname)
        # locals handed over: arguments of bouncer calls, and what
        # _split_by_reply was given when its groups are bounced
        handed = {}
        for n in g.calls():
            nm = e.call_name(n)
            if nm in bnames or nm == '_split_by_reply':
                for a in n.ast.args:
                    if isinstance(a, ast.Name):
                        handed.setdefault(path_of(a, n.frame), []).append(n)
        for w in g.of_kind('stmt'):
            tg = []
            if isinstance(w.ast, ast.Assign):
                tg = w.ast.targets
            elif isinstance(w.ast, ast.AugAssign):
                tg = [w.ast.target]
            elif isinstance(w.ast, ast.Delete):
                tg = w.ast.targets
            for t in tg:
                b = t
                while isinstance(b, (ast.Attribute, ast.Subscript)):
                    b = b.value
                if t is b or not isinstance(b, ast.Name):
                    continue
                pth_name = path_of(b, w.frame)
                for h in handed.get(pth_name, []):
                    # a write that a hand-over of the same object precedes,
                    # with no re-binding of the local in between
                    rebinds = [r for r in g.of_kind('stmt')
                               if isinstance(r.ast, ast.Assign) and any(
                                   isinstance(t2, ast.Name) and
                                   path_of(t2, r.frame) == pth_name
                                   for t2 in r.ast.targets)]
                    rebinds += [r for r in g.of_kind('iter') if any(
                        isinstance(t2, ast.Name) and
                        path_of(t2, r.frame) == pth_name
                        for t2 in ast.walk(r.ast.target))]
                    pth = dataflow.find_path(
                        g, h, lambda x: x is w,
                        avoid=lambda x: x in rebinds,
                        edge_ok=lambda a, l, s2: not isinstance(l, tuple))
                    if not pth or len(pth) < 2:
                        continue
                    rep.evaluations += 1
                    rep.bad('B8', m.qname, 'write to `%s` after it was '
                            'handed on' % ast.unparse(t),
                            '`%s` is assigned after `%s`: the bounce is '
                            'only spawned there and is built later, from '
                            'the object as it is then - it names other '
                            'recipients than the ones that failed' % (
                                ast.unparse(t), h.text(50)), loc=w.loc(),
                            witness=dataflow.render_path(pth, 10))
    rep.evaluations += 1
    if n_fn < 1:
        rep.error('anchor vanished: callers of the bouncers (%d < 1)' % n_fn)
    else:
        rep.ok('B8', QUEUE, 'callers of the bouncers looked at',
               reason='%d functions' % n_fn)


# ---------------------------------------------------------------------- B9
def b9(e: Engine, rep: Report):
    ctx = e.method_ctx(BOUNCE, '_build_message')
    g = e.build(ctx, raises=lambda b, n, r: set(),
                inline=e.inline_same_self(), max_depth=3)
    where = ctx.func.qname
    rep.functions.add(where)
    parses = [n for n in g.nodes if n.kind in ('call', 'call_enter') and
              e.call_name(n) == 'parse' and n.frame is g.entry.frame and
              isinstance(n.ast.func, ast.Attribute) and
              isinstance(n.ast.func.value, ast.Name) and
              n.ast.func.value.id == 'self' and n.ast.args]
    if not parses:
        rep.error('anchor vanished: self.parse(...) in _build_message')
        return
    for n in parses:
        rep.evaluations += 1
        x, fr = common.origin(g, n.ast.args[0], n.frame)
        ok = isinstance(x, ast.Call) and isinstance(x.func, ast.Attribute) \
            and x.func.attr in ('getvalue', 'join', 'getbuffer', 'tobytes')
        if isinstance(x, ast.Call) and isinstance(x.func, ast.Name) and \
                x.func.id == 'bytes' and len(x.args) == 1:
            y, _ = common.origin(g, x.args[0], fr)
            ok = isinstance(y, ast.Call) and \
                isinstance(y.func, ast.Attribute) and \
                y.func.attr in ('getvalue', 'join', 'getbuffer', 'tobytes')
        rep.check(ok, 'B9', where, 'the report is parsed as assembled',
                  'self.parse() is given `%s`: a transformation applied to '
                  'the assembled report also rewrites the original message '
                  'embedded in it (it is no longer the failed message as '
                  'it was)' % ' '.join(ast.unparse(n.ast.args[0]).split())[:60],
                  loc=n.loc(), reason='getvalue() / join of the parts')


# --------------------------------------------------------------------- B10
def _shared_reply_names(e, mod):
    """module-level names that are Reply objects (made here or imported
    from a module that makes them at its top level)"""
    out = {}
    m = e.p.modules.get(mod)
    if m is None:
        return out
    for st in m.tree.body:
        if isinstance(st, ast.Assign) and isinstance(st.value, ast.Call) \
                and ast.unparse(st.value.func).rpartition('.')[2] == 'Reply':
            for t in st.targets:
                if isinstance(t, ast.Name):
                    out[t.id] = '%s:%d' % (m.relpath, st.lineno)
        elif isinstance(st, ast.ImportFrom) and st.module:
            src = st.module
            if st.level:
                base = mod.split('.')
                # a package's __init__ counts as the package itself
                if not m.path.endswith('__init__.py'):
                    base = base[:-1]
                base = base[:len(base) - (st.level - 1)]
                src = '.'.join(base + ([st.module] if st.module else []))
            if src == mod:
                continue
            inner = _shared_reply_names(e, src) if src in e.p.modules \
                else {}
            for a in st.names:
                if a.name in inner:
                    out[a.asname or a.name] = inner[a.name]
    return out


def b10(e: Engine, rep: Report):
    n = 0
    cache = {}
    for f in e.p.functions.values():
        mod = f.module.name
        if not mod.startswith('slimta.relay'):
            continue
        if mod not in cache:
            cache[mod] = _shared_reply_names(e, mod)
        shared = cache[mod]
        local = set(f.params) | {
            x.id for x in walk_own(f.node) if isinstance(x, ast.Name) and
            isinstance(x.ctx, ast.Store)}
        for c in walk_own(f.node):
            if not isinstance(c, ast.Call):
                continue
            nm = ast.unparse(c.func).rpartition('.')[2]
            if not (nm.endswith('RelayError') or nm == 'factory' or
                    nm == 'set_exception'):
                continue
            n += 1
            rep.evaluations += 1
            rep.functions.add(f.qname)
            bad = [a for a in list(c.args) + [k.value for k in c.keywords]
                   if isinstance(a, ast.Name) and a.id in shared and
                   a.id not in local]
            rep.check(not bad, 'B10', f.qname,
                      'reply of `%s`' % ' '.join(ast.unparse(c).split())[:50],
                      'the relay error carries `%s`, the one Reply object '
                      'made at %s and shared by every failure of this kind: '
                      'the queue\'s in-place note on an exhausted message '
                      '(and any other edit of the reply) shows up in the '
                      'bounces of all later messages' % (
                          bad[0].id if bad else '',
                          shared.get(bad[0].id) if bad else ''),
                      loc=f.loc(c), reason='reply made for this failure '
                      '(or a copy)')
    if n < 5:
        rep.error('anchor vanished: relay error constructions (%d < 5)' % n)


# --------------------------------------------------------------------- B11
def b11(e: Engine, rep: Report):
    from .c06 import ORDER_CHANGERS
    ctx = e.method_ctx(QUEUE, '_handle_partial_relay')
    g = e.build(ctx, raises=lambda b, n, r: set(),
                inline=e.inline_same_self(
                    deny=['_split_by_reply', '_retry_later', '_perm_fail',
                          '_pool_spawn', '_remove', '_add_queued']),
                max_depth=3)
    where = ctx.func.qname
    rep.functions.add(where)
    sites = [c for c in g.calls()
             if e.call_name(c) in ('_split_by_reply', '_retry_later')]
    if not sites:
        rep.unknown('B11', where, 'recipients and replies stay parallel',
                    'no _split_by_reply / _retry_later call found',
                    loc=ctx.func.loc())
        return
    for c in sites:
        args = c.ast.args[-2:] if e.call_name(c) == '_split_by_reply' \
            else c.ast.args[1:3]
        for a in args:
            rep.evaluations += 1
            xs = [common.expand(g, a, c.frame)]
            if isinstance(a, ast.Name) and isinstance(xs[0], ast.Name):
                # several definitions (one per failure class): each of them
                xs = []
                for st in walk_own(c.frame.ctx.func.node):
                    if not (isinstance(st, ast.Assign) and
                            len(st.targets) == 1):
                        continue
                    t = st.targets[0]
                    if isinstance(t, ast.Name) and t.id == a.id:
                        xs.append(common.expand(g, st.value, c.frame))
                    elif isinstance(t, (ast.Tuple, ast.List)):
                        for i, el in enumerate(t.elts):
                            if not (isinstance(el, ast.Name) and
                                    el.id == a.id):
                                continue
                            v, vf = st.value, c.frame
                            if isinstance(v, ast.Call):
                                v, vf = common.value_of(g, v, c.frame)
                            if isinstance(v, (ast.Tuple, ast.List)) and \
                                    i < len(v.elts):
                                xs.append(common.expand(g, v.elts[i], vf))
                xs = xs or [a]
            bad, x = [], xs[0]
            for x0 in xs:
                b0 = [y for y in ast.walk(x0) if isinstance(y, ast.Call) and (
                    (isinstance(y.func, ast.Name) and
                     y.func.id in ORDER_CHANGERS) or
                    (isinstance(y.func, ast.Attribute) and
                     y.func.attr in ORDER_CHANGERS))]
                if b0:
                    bad, x = b0, x0
            rep.check(not bad, 'B11', where,
                      '`%s` handed to %s' % (ast.unparse(a),
                                             e.call_name(c)),
                      '`%s` is `%s`: it went through `%s` on its own, so '
                      'entry i of the recipients and entry i of the replies '
                      'no longer belong together - recipients are grouped '
                      '(and bounced) under somebody else\'s reply' % (
                          ast.unparse(a),
                          ' '.join(ast.unparse(x).split())[:70],
                          ' '.join(ast.unparse(bad[0]).split())[:30]
                          if bad else ''), loc=c.loc(),
                      reason='order as collected')


# --------------------------------------------------------------------- B12
def b12(e: Engine, rep: Report, rule: str = 'B12'):
    """Queue._bounce enqueues what the factory returns if it is truthy.  The
    application may plug in a factory that declines; the DEFAULT one may
    not: with it, every permanent failure of a message with a sender ends in
    a bounce."""
    ctx = e.method_ctx(QUEUE, '__init__')
    where = ctx.func.qname
    rep.functions.add(where)
    dflt = None
    for a in walk_own(ctx.func.node):
        if isinstance(a, ast.Assign) and any(
                isinstance(t, ast.Attribute) and t.attr == 'bounce_factory'
                for t in a.targets):
            v = a.value
            if isinstance(v, ast.BoolOp) and isinstance(v.op, ast.Or):
                dflt = v.values[-1]
            elif isinstance(v, ast.IfExp):
                dflt = v.orelse if isinstance(v.orelse, (
                    ast.Name, ast.Attribute)) and not (
                    isinstance(v.orelse, ast.Name) and
                    v.orelse.id in ctx.func.params) else v.body
            else:
                dflt = v
    rep.evaluations += 1
    if dflt is None:
        rep.unknown(rule, where, 'default bounce factory',
                    'cannot see what Queue.__init__ uses when no '
                    'bounce_factory is given', loc=ctx.func.loc())
        return
    q = e.p.resolve_expr_qname(ctx.func.module, dflt)
    if q in e.p.classes:
        rep.ok(rule, where, 'default bounce factory `%s`' % ast.unparse(dflt),
               reason='a class: calling it makes a bounce', loc=ctx.func.loc())
        return
    f = e.p.functions.get(q) if q else None
    if f is None and isinstance(dflt, ast.Attribute):
        cq = e.p.resolve_expr_qname(ctx.func.module, dflt.value)
        if cq in e.p.classes:
            f = e.p.lookup_method(cq, dflt.attr)
    if f is None:
        rep.unknown(rule, where, 'default bounce factory `%s`'
                    % ast.unparse(dflt), 'cannot resolve it',
                    loc=ctx.func.loc())
        return
    rep.functions.add(f.qname)
    rets = [r for r in walk_own(f.node) if isinstance(r, ast.Return)]
    none = [r for r in rets if r.value is None or (
        isinstance(r.value, ast.Constant) and r.value.value is None)]
    last = f.node.body[-1] if f.node.body else None
    falls = not isinstance(last, (ast.Return, ast.Raise))
    rep.check(not none and not falls and bool(rets), rule, f.qname,
              'default bounce factory `%s` always makes a bounce'
              % ast.unparse(dflt),
              'the factory the queue uses by default can return None%s: '
              'for such a message _bounce enqueues nothing, the failed '
              'message is removed and its sender is never told'
              % (' (line %d)' % none[0].lineno if none else ''),
              loc=f.loc(none[0]) if none else f.loc(),
              reason='every return hands back an object')


# --------------------------------------------------------------- B15 / B16
OUTPUT_REWRITERS = {'replace', 'sub', 'subn', 'translate', 'strip', 'rstrip',
                    'lstrip', 'lower', 'upper', 'title', 'capitalize',
                    'expandtabs', 'splitlines', 'removeprefix',
                    'removesuffix', 'normalize', 'swapcase', 'casefold'}


def b15_b16(e: Engine, rep: Report):
    c = e.p.classes.get(BOUNCE)
    if c is None:
        rep.error('anchor vanished: ' + BOUNCE)
        return
    n = 0
    for mname, m in sorted(c.methods.items()):
        if 'reply' not in m.params:
            continue
        n += 1
        rep.evaluations += 1
        rep.functions.add(m.qname)
        rebound = [x for x in walk_own(m.node) if isinstance(x, ast.Name) and
                   x.id == 'reply' and isinstance(x.ctx, (ast.Store,
                                                         ast.Del))]
        wrote = [x for x in walk_own(m.node) if isinstance(x, ast.Attribute)
                 and isinstance(x.ctx, ast.Store) and
                 isinstance(x.value, ast.Name) and x.value.id == 'reply']
        made = [x for x in walk_own(m.node) if isinstance(x, ast.Call) and
                ast.unparse(x.func).rpartition('.')[2] == 'Reply']
        bad = rebound or wrote or made
        rep.check(not bad, 'B15', m.qname,
                  '%s reports the reply it was given' % mname,
                  'Bounce.%s does not quote the reply as it is (`%s`): the '
                  'sender is told another code / text than the one that '
                  'made the delivery fail' % (mname, ' '.join(ast.unparse(
                      bad[0]).split())[:50] if bad else ''),
                  loc=m.loc(bad[0]) if bad else m.loc(),
                  reason='`reply` is read only')
    if n < 3:
        rep.error('anchor vanished: Bounce methods taking `reply` (%d < 3)'
                  % n)
    bf = e.p.classes.get('slimta.util.bytesformat.BytesFormat')
    if bf is None:
        rep.error('anchor vanished: BytesFormat')
        return
    k = 0
    for mname, m in sorted(bf.methods.items()):
        if mname in ('__init__', '_parse_template', '__repr__'):
            continue           # the template is configuration
        k += 1
        rep.functions.add(m.qname)
        for x in walk_own(m.node):
            if isinstance(x, ast.Call) and isinstance(x.func, ast.Attribute) \
                    and x.func.attr in OUTPUT_REWRITERS:
                rep.evaluations += 1
                rep.bad('B16', m.qname, '`%s`' % ' '.join(
                    ast.unparse(x).split())[:50],
                    'BytesFormat.%s passes what it renders through %s(): '
                    'the substituted values (failed recipient, sender, the '
                    'quoted reply) are changed along with the template '
                    'text - the bounce names an address / quotes a reply '
                    'that differs from the real one' % (mname, x.func.attr),
                    loc=m.loc(x))
            if isinstance(x, ast.Call) and isinstance(x.func, ast.Attribute) \
                    and x.func.attr in ('encode', 'decode'):
                err = x.args[1] if len(x.args) > 1 else next(
                    (kw.value for kw in x.keywords if kw.arg == 'errors'),
                    None)
                if isinstance(err, ast.Constant) and err.value in (
                        'replace', 'ignore', 'xmlcharrefreplace',
                        'backslashreplace', 'namereplace'):
                    rep.evaluations += 1
                    rep.bad('B16', m.qname, '`%s`' % ' '.join(
                        ast.unparse(x).split())[:50],
                        'BytesFormat.%s renders the substituted values with '
                        'the lossy error handler %r: every character outside '
                        'the codec is written as something else - a reply '
                        'or an address with non-ASCII text is quoted in the '
                        'bounce as a text the destination never sent'
                        % (mname, err.value), loc=m.loc(x))
    rep.evaluations += 1
    if k < 2:
        rep.error('anchor vanished: rendering methods of BytesFormat')
    else:
        rep.ok('B16', 'slimta.util.bytesformat.BytesFormat',
               'no rewriting operation in the rendering methods',
               reason='%d methods scanned' % k, nontrivial=False)


# ---------------------------------------------------------------------- B17
def b17(e: Engine, rep: Report):
    ctx = e.method_ctx(QUEUE, '_handle_partial_relay')
    g = e.build(ctx, inline=e.inline_same_self(
        deny=['_bounce', '_pool_spawn', '_add_queued', '_remove']),
        max_depth=3, raises=lambda b, n, r: set())
    where = ctx.func.qname
    rep.functions.add(where)
    settle = [n for n in g.calls()
              if e.call_name(n) == 'set_recipients_delivered']
    if not settle:
        rep.error('anchor vanished: set_recipients_delivered below '
                  '_handle_partial_relay')
        return
    before = dataflow.may_events_before(
        g, lambda n: ['settled'] if n in settle else [])

    def by_position(x):
        for y in ast.walk(x):
            if isinstance(y, ast.Subscript) and \
                    isinstance(y.value, ast.Attribute) and \
                    y.value.attr == 'recipients' and \
                    not isinstance(y.slice, ast.Slice) and \
                    isinstance(y.ctx, ast.Load):
                return y
            if isinstance(y, ast.Call) and \
                    isinstance(y.func, ast.Attribute) and \
                    y.func.attr == 'index' and \
                    isinstance(y.func.value, ast.Attribute) and \
                    y.func.value.attr == 'recipients':
                return y
        return None
    n = 0
    seen = set()
    for nd in g.nodes:
        if nd.kind not in ('stmt', 'call', 'branch', 'return', 'nop') or \
                nd.ast is None or isinstance(nd.ast, (
                    ast.For, ast.While, ast.If, ast.Try, ast.With,
                    ast.FunctionDef)):
            continue
        y = by_position(nd.ast)
        if y is None or (id(y), id(nd.frame)) in seen:
            continue
        seen.add((id(y), id(nd.frame)))
        n += 1
        rep.evaluations += 1
        late = 'settled' in (before.get(nd.id) or ())
        rep.check(not late, 'B17', where,
                  '`%s` reads positions before the store is told'
                  % ' '.join(ast.unparse(y).split())[:40],
                  '`%s` looks a recipient up by position on a path on which '
                  'set_recipients_delivered has already run: the in-memory '
                  'store removes the settled recipients from the envelope '
                  'object the queue holds, so position i is now somebody '
                  'else - the bounce names a recipient that was deferred '
                  '(or delivered) and the rejected one is never reported'
                  % ' '.join(ast.unparse(y).split())[:60],
                  loc=nd.loc(), reason='no set_recipients_delivered on any '
                  'path to it')
    if n < 1:
        rep.ok('B17', where, 'no positional look-up of recipients below '
               '_handle_partial_relay', reason='recipients are carried by '
               'value', nontrivial=False)
