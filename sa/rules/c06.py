"""C06 - a relay hop preserves sender, recipients and content (structural
part only).

That every valid address and every body comes out as it went in is a
value-level round trip through two transformers (encoder / parser) and is NOT
decided.  Decided is what the two sides must agree on for ANY value to get
through - the writer's constants against the reader's patterns and tables,
read off the source (literals, regular-expression syntax trees):

X1 SMTP command framing: the literal the client puts after the verb
   (`FROM:<`, `TO:<`) is accepted by the server's from_pattern / to_pattern,
   and the closing delimiter the client writes is the one the server scans for
X2 MAIL parameters: every ` KEY=` the client appends is a keyword the
   server's parameter pattern accepts whole, the alphabet of what the client
   can put behind `=` (xtext output, digits, `<>`) lies inside the server's
   value class and contains neither `=` nor white space; each parameter is
   sent only under the extension that announces it, UTF-8 encoding only under
   SMTPUTF8
X3 EHLO keywords: what Extensions.build_string writes (keyword, one blank,
   parameter, CRLF between lines) is parsed back by parse_pattern /
   line_pattern into the same keyword and parameter
X4 HTTP transport: the relay's header names equal the edge's (case
   insensitive) role by role; both sides use the same base64 functions and
   the same text codec; the edge's recipient splitter cannot match inside
   base64 text; the reply header name and its parameter names agree
X5 order and multiplicity: the relay offers the recipients in envelope order
   (a plain pass over envelope.recipients, no sorted / set / reversed), the
   edges append / build the list in arrival order
"""
from __future__ import annotations

import ast

from ..engine import Engine
from ..report import Report
from ..facts import holds, canon, path_of
from ..model import walk_own
from ..resolve import Ctx
from .. import regexast as rx
from . import common

CLIENT = 'slimta.smtp.client.Client'
SERVER = 'slimta.smtp.server.Server'
EXT = 'slimta.smtp.extensions.Extensions'
HTTP_RELAY = 'slimta.relay.http.HttpRelay'
HTTP_CLIENT = 'slimta.relay.http.HttpRelayClient'
WSGI = 'slimta.edge.wsgi.WsgiEdge'
SMTPC = 'slimta.relay.smtp.client.SmtpRelayClient'
SESSION = 'slimta.edge.smtp.SmtpSession'

# relay attribute -> edge attribute, by the role of the header
HTTP_HEADER_ROLES = [('sender_header', 'sender_header', 'sender'),
                     ('recipient_header', 'rcpt_header', 'recipient'),
                     ('ehlo_header', 'ehlo_header', 'EHLO name')]
B64_ALPHABET = set(b'ABCDEFGHIJKLMNOPQRSTUVWXYZabcdefghijklmnopqrstuvwxyz'
                   b'0123456789+/=')


def run(e: Engine, rep: Report):
    rep.rule('X1', 'command framing: client literals `FROM:<` / `TO:<` are '
             'accepted by from_pattern / to_pattern (regex syntax tree run '
             'on the literal); the closing `>` is what the server scans for')
    rep.rule('X2', 'MAIL parameters: keywords accepted whole by '
             'param_keyword_pattern, value alphabets inside the class of '
             'param_value_pattern and free of `=` / blanks; sent only under '
             'the announcing extension, UTF-8 only under SMTPUTF8')
    rep.rule('X3', 'EHLO keyword lines written by build_string are parsed '
             'back by parse_pattern / line_pattern')
    rep.rule('X4', 'HTTP: header names agree role by role, same base64 '
             'functions and text codec, recipient splitter disjoint from '
             'the base64 alphabet, reply header and parameter names agree')
    rep.rule('X5', 'recipient order: plain pass over envelope.recipients '
             'on the sending side, append / order-preserving build on the '
             'receiving side')
    rep.tables.add('c06.HTTP_HEADER_ROLES')
    rep.not_decided += [
        'that every valid address (quoted local parts, UTF-8) and every '
        'body is reproduced exactly: value-level round trip through '
        '_encode/_xtext and find_outside_quotes/_gather_params, base64 and '
        'the email package',
        'which extensions a given server configuration advertises']
    x1(e, rep)
    x2(e, rep)
    x3(e, rep)
    x4(e, rep)
    x5(e, rep)
    rep.rule('X6', 'address provenance on the SMTP server: what MAIL / RCPT '
             'hand to the application is the text between the delimiters, '
             'sliced and decoded only (no operation that can cut inside it: '
             'table ADDRESS_CUTTERS)')
    rep.rule('X7', 'null sender over HTTP: WsgiEdge._get_sender never '
             'refuses a request because the sender header value is empty '
             '(the empty value IS the null sender the relay writes for '
             'bounces)')
    rep.rule('X8', 'the SMTP relay hands send_data exactly the parts '
             'flatten() returned, whole and in order (a part boundary is a '
             'line start for the dot-stuffer)')
    rep.tables.add('c06.ADDRESS_CUTTERS')
    x6(e, rep)
    x7(e, rep)
    x8(e, rep)
    from . import c09
    rep.rule('X9', '= C09-G8: the receiving side never fails because of HOW '
             'MUCH is buffered (a pipelined MAIL + n x RCPT + DATA batch of '
             'short lines is a large buffer without a long line)')
    c09.g8(e, rep, 'X9')
    rep.rule('X10', 'address provenance in the HTTP edge: sender and '
             'recipients are the base64-decoded header values and nothing '
             'else (no normalisation / case folding / trimming of the '
             'decoded address: table ADDRESS_CUTTERS)')
    x10(e, rep)
    rep.rule('X11', 'who-may-refuse: before their callback MAIL and RCPT '
             'answer only with the protocol-level refusals of table '
             'PRE_CALLBACK_REFUSALS (syntax, sequence, unknown parameter, '
             'declared size): accepting or refusing an address is the '
             'application\'s decision')
    rep.tables.add('c06.PRE_CALLBACK_REFUSALS')
    x11(e, rep)
    rep.rule('X12', 'the header block is a function of the envelope alone: '
             'what Envelope.flatten() hands the message generator (policy '
             'and the other settings) does not depend on an argument that '
             'a caller in the package sets, so both ends of a hop flatten '
             'the same message to the same bytes')
    x12(e, rep)
    rep.rule('X13', 'address provenance in the SMTP client: the path '
             'between the delimiters of MAIL / RCPT is the method\'s '
             'address argument, encoded only; a client that rewrites it '
             'under a pattern with an ASCII-only character class changes '
             'valid UTF-8 addresses')
    x13(e, rep)
    rep.rule('X15', 'Envelope.flatten renders the headers as they are at '
             'the call: it keeps no memo (no attribute of the envelope is '
             'written by flatten or the helpers it runs) - header objects '
             'are edited in place by policies, so remembered bytes go '
             'stale')
    x15(e, rep, 'X15')
    rep.rule('X16', 'HTTP media type: every Content-Type the relay can '
             'write is one the edge\'s request validator accepts')
    x16(e, rep)
    rep.rule('X14', '= C05-R5.16: the receiving side removes stuffed dots '
             'and recognises the end of the data for every finished line '
             '(what the relay\'s DataSender stuffs, the edge\'s reader '
             'un-stuffs)')
    from . import c05 as _c05
    _c05.r516(e, rep, 'X14')
    rep.rule('X17', 'the outcome the relay reports is the reply the edge '
             'gave: SmtpRelayError.factory and the error classes it makes '
             'hand on the reply they were given (no other Reply is built '
             'from it, its code is not rewritten)')
    rep.rule('X18', 'the verdict on an address is the edge\'s: the relay '
             'client\'s MAIL / RCPT steps build no Reply of their own - what '
             'they raise or return is what Client.mailfrom / rcptto '
             'returned')
    x17_x18(e, rep)
    rep.rule('X19', 'how much DATA the server takes is what it advertised: '
             'the limit Server hands to DataReader is the parameter of its '
             'SIZE extension (or None) and nothing computed from what the '
             'client said - the reader counts octets on the wire (stuffed '
             'dots, end marker), a size declared with MAIL counts the '
             'message: holding the client to a sum of the two refuses '
             'messages that are within the advertised limit')
    x19(e, rep)
    rep.rule('X20', 'a group that is read is matched once: in the patterns '
             'the SMTP modules take commands, replies and EHLO lines apart '
             'with, no capture group stands under a repetition (a repeated '
             'group keeps its last repetition only: of `AUTH CRAM-MD5 PLAIN '
             'LOGIN` the client would see `LOGIN`, of two MAIL parameters '
             'the second)')
    x20(e, rep)
    rep.floor('X1', 4, 'command framing obligations')
    rep.floor('X4', 6, 'HTTP agreement obligations')


def _bytes_literals_of_join(call):
    """elements of b''.join((a, b, c))"""
    if isinstance(call, ast.Call) and isinstance(call.func, ast.Attribute) \
            and call.func.attr == 'join' and call.args and \
            isinstance(call.args[0], (ast.Tuple, ast.List)):
        return list(call.args[0].elts)
    return None


# ---------------------------------------------------------------------- X1
def _sent_commands(e, g):
    """(node, argument) of every io.send_command(...) in the graph"""
    return [(n, n.ast.args[0]) for n in g.calls()
            if e.call_name(n) == 'send_command' and n.ast.args]


def x1(e: Engine, rep: Report):
    for meth, verb in (('mailfrom', b'MAIL'), ('rcptto', b'RCPT')):
        ctx = e.method_ctx(CLIENT, meth)
        where = ctx.func.qname
        rep.functions.add(where)
        g = e.build(ctx, raises=lambda b, n, r: set(),
                    inline=e.inline_same_self(deny=['_flush_pipeline']),
                    max_depth=3)
        shape = None
        site = None
        for n, arg in _sent_commands(e, g):
            sh = common.bytes_shape(g, arg, n.frame)
            if sh and sh[0][0] == 'lit' and isinstance(sh[0][1], bytes) and \
                    sh[0][1].upper().startswith(verb + b' '):
                shape, site = sh, n
        if shape is None or len(shape) < 3 or shape[1][0] != 'opaque' or \
                shape[2][0] != 'lit':
            rep.error('cannot read the %s command line Client.%s sends'
                      % (verb.decode(), meth))
            continue
        head = shape[0][1][len(verb) + 1:]        # e.g. b'FROM:<'
        tail = shape[2][1]
        # the server side: the pattern(s) _command_<VERB> matches its
        # argument with, and the delimiter it scans for
        sctx = e.method_ctx(SERVER, '_command_' + verb.decode())
        sg = e.build(sctx, raises=lambda b, n, r: set(),
                     inline=e.inline_same_self(
                         deny=['_call_custom_handler', '_gather_params',
                               '_check_close_code']), max_depth=3)
        rep.functions.add(sctx.func.qname)
        pats, needles = [], []
        for n in sg.calls():
            f = n.ast.func
            if isinstance(f, ast.Attribute) and f.attr == 'match' and \
                    n.ast.args:
                p0, _ = common.origin(sg, f.value, n.frame)
                if isinstance(p0, ast.Name):
                    got = rx.module_pattern(e, 'slimta.smtp.server', p0.id)
                    if got is not None:
                        pats.append((p0.id, got))
            if e.call_name(n) == 'find_outside_quotes' and \
                    len(n.ast.args) >= 2:
                nd, _ = common.origin(sg, n.ast.args[1], n.frame)
                if isinstance(nd, ast.Constant):
                    needles.append(nd.value)
        if not pats or not needles:
            rep.error('cannot read how Server._command_%s takes the path '
                      'out of its argument' % verb.decode())
            continue
        for pname, pat in pats:
            rep.evaluations += 1
            ends = rx.match_ends(rx.parse(pat[0], pat[1]), head, pat[1])
            rep.check(len(head) in ends, 'X1', where,
                      'server pattern accepts the client\'s %r' % head,
                      'the client writes %r after the verb, which %s (%r) '
                      'does not match up to the opening bracket: the '
                      'server answers 501 to every %s of its own relay '
                      'client' % (head, pname, pat[0], verb.decode()),
                      loc=site.loc(), reason='%s matches the literal in '
                      'full' % pname)
        rep.evaluations += 1
        ok = all(tail.startswith(nd) and len(nd) > 0 for nd in needles)
        rep.check(ok, 'X1', where,
                  'closing delimiter %r is the one the server scans for'
                  % tail[:1],
                  'the client closes the address with %r, the server looks '
                  'for %s outside quotes: the address is cut in the wrong '
                  'place or the command refused' % (tail, needles),
                  loc=site.loc(), reason='same literal on both sides')


# ---------------------------------------------------------------------- X2
def x2(e: Engine, rep: Report):
    ctx = e.method_ctx(CLIENT, 'mailfrom')
    # with the helper the command line may be assembled in
    g = e.build(ctx, raises=lambda b, n, r: set(),
                inline=e.inline_same_self(deny=['_flush_pipeline', '_xtext',
                                                '_encode']), max_depth=3)
    fx = e.facts(g)
    where = ctx.func.qname
    kw = rx.module_pattern(e, 'slimta.smtp.server', 'param_keyword_pattern')
    vp = rx.module_pattern(e, 'slimta.smtp.server', 'param_value_pattern')
    xt = rx.module_pattern(e, 'slimta.smtp.client', 'xtext_pattern')
    if kw is None or vp is None or xt is None:
        rep.error('anchor vanished: param_keyword_pattern / '
                  'param_value_pattern / xtext_pattern')
        return
    sc = rx._consts()
    # the class of one value character: the item repeated inside the group
    vitems = list(rx.parse(vp[0], vp[1]))
    vclass = None
    for cs in rx.all_charsets(vitems, vp[1]):
        if cs is not None and len(cs) > 4:
            vclass = cs
    # what _xtext lets through unchanged: the complement of xtext_pattern's
    # class; what it produces for the rest: '+' and upper-case hex digits
    xsets = [cs for cs in rx.all_charsets(list(rx.parse(xt[0], xt[1])),
                                          xt[1]) if cs is not None]
    if vclass is None or len(xsets) != 1:
        rep.error('cannot read the value class / the xtext class off the '
                  'patterns')
        return
    xtext_out = (set(range(256)) - xsets[0]) | set(b'+0123456789ABCDEF')
    n = 0
    # a parameter is added by `cmd += b' KEY=' + value` or by appending
    # b'KEY=' + value to a list that is joined with blanks
    def blank_join(fn):
        return any(
            isinstance(x, ast.Call) and isinstance(x.func, ast.Attribute) and
            x.func.attr == 'join' and isinstance(x.func.value, ast.Constant)
            and x.func.value.value == b' ' for x in walk_own(fn))
    sites = []
    for node in g.nodes:
        if node.kind == 'stmt' and isinstance(node.ast, ast.AugAssign) and \
                isinstance(node.ast.op, ast.Add):
            sites.append((node, node.ast.value, False))
        elif node.kind == 'call' and e.call_name(node) == 'append' and \
                node.ast.args:
            sites.append((node, node.ast.args[0],
                          blank_join(node.frame.ctx.func.node)))
    for node, val, sep_by_join in sites:
        a = ast.Expr(value=val)
        lits = [x for x in ast.walk(val) if isinstance(x, ast.Constant)
                and isinstance(x.value, bytes) and x.value.endswith(b'=')]
        if not lits:
            continue
        n += 1
        lit = lits[0].value                       # b' SIZE='
        key = lit.strip()[:-1]
        rep.evaluations += 1
        ends = rx.match_ends(rx.parse(kw[0], kw[1]), key, kw[1])
        rep.check((lit.startswith(b' ') or sep_by_join) and
                  len(key) in ends, 'X2', where,
                  'parameter keyword %r is one the server reads whole' % key,
                  'the client writes %r; the server\'s parameter pattern '
                  'does not match the keyword in full after a blank: the '
                  'parameter is dropped or mis-split' % lit,
                  loc=node.loc(), reason='blank, keyword matched in full by '
                  'param_keyword_pattern, `=`')
        # the extension guard
        rep.evaluations += 1
        st = fx.at(node) or frozenset()
        ext = key.decode().upper()
        ok = any(p and k.startswith("'%s' in " % ext) and 'extensions' in k
                 for p, k in st)
        rep.check(ok, 'X2', where,
                  '%s is sent only to a server that announced it' % ext,
                  'the %s parameter is appended without `%r in '
                  'self.extensions` holding: a server that did not announce '
                  'the extension rejects the whole MAIL command' % (ext, ext),
                  loc=node.loc(), reason='dominated by the extension test')
        # the value alphabet
        rep.evaluations += 1
        alpha = set()
        unknown = None
        for x in ast.walk(a.value):
            if isinstance(x, ast.Call) and isinstance(x.func, ast.Attribute):
                if x.func.attr == '_xtext':
                    alpha |= xtext_out
                elif x.func.attr == '_encode' and x.args and \
                        isinstance(x.args[0], ast.Call) and \
                        ast.unparse(x.args[0].func) == 'str':
                    alpha |= set(b'0123456789-')
                elif x.func.attr == '_encode':
                    unknown = ast.unparse(x)
            elif isinstance(x, ast.Name) and x.id not in ('self',):
                # a local: its definitions
                for d in walk_own(node.frame.ctx.func.node):
                    if isinstance(d, ast.Assign) and any(
                            isinstance(t, ast.Name) and t.id == x.id
                            for t in d.targets):
                        for y in ast.walk(d.value):
                            if isinstance(y, ast.Constant) and \
                                    isinstance(y.value, bytes):
                                alpha |= set(y.value)
                            elif isinstance(y, ast.Call) and \
                                    isinstance(y.func, ast.Attribute) and \
                                    y.func.attr == '_xtext':
                                alpha |= xtext_out
        if unknown:
            rep.error('cannot bound the alphabet of `%s` in the %s '
                      'parameter' % (unknown, ext))
            continue
        bad = sorted(alpha - vclass) + sorted(alpha & set(b'= \t'))
        rep.check(bool(alpha) and not bad, 'X2', where,
                  'value alphabet of %s lies inside the server\'s value '
                  'class' % ext,
                  'the client can put the bytes %s behind `%s=`, which '
                  'param_value_pattern %r does not accept (or which end the '
                  'value early): the server reads a truncated value'
                  % ([bytes([b]) for b in bad][:6], ext, vp[0]),
                  loc=node.loc(), reason='alphabet of %d bytes inside the '
                  'class' % len(alpha))
    if n < 2:
        rep.error('anchor vanished: MAIL parameters appended in '
                  'Client.mailfrom (%d < 2)' % n)
    # UTF-8 only under SMTPUTF8
    ectx = e.method_ctx(CLIENT, '_encode')
    eg = e.build(ectx, raises=lambda b, n, r: set())
    efx = e.facts(eg)
    rep.functions.add(ectx.func.qname)
    for node in eg.calls():
        if e.call_name(node) == 'encode' and node.ast.args and \
                isinstance(node.ast.args[0], ast.Constant):
            codec = str(node.ast.args[0].value).lower().replace('-', '')
            if codec in ('ascii', 'usascii'):
                continue
            rep.evaluations += 1
            st = efx.at(node) or frozenset()
            ok = any(p and k.startswith("'SMTPUTF8' in ") for p, k in st)
            rep.check(ok, 'X2', ectx.func.qname,
                      'non-ASCII encoding `%s` only under SMTPUTF8' % codec,
                      'addresses are encoded as %s although the server did '
                      'not announce SMTPUTF8: it receives bytes it need not '
                      'accept' % codec, loc=node.loc(),
                      reason="dominated by 'SMTPUTF8' in self.extensions")


# ---------------------------------------------------------------------- X3
def x3(e: Engine, rep: Report):
    ctx = e.method_ctx(EXT, 'build_string')
    where = ctx.func.qname
    rep.functions.add(where)
    pp = rx.module_pattern(e, 'slimta.smtp.extensions', 'parse_pattern')
    lp = rx.module_pattern(e, 'slimta.smtp.extensions', 'line_pattern')
    if pp is None or lp is None:
        rep.error('anchor vanished: parse_pattern / line_pattern')
        return
    seps = []        # the literal between keyword and parameter
    joins = []       # the literal between lines
    for x in walk_own(ctx.func.node):
        if isinstance(x, ast.Call) and isinstance(x.func, ast.Attribute) and \
                x.func.attr == 'join' and \
                isinstance(x.func.value, ast.Constant) and \
                isinstance(x.func.value.value, str) and x.args:
            if isinstance(x.args[0], (ast.Tuple, ast.List)) and \
                    len(x.args[0].elts) == 2:
                seps.append((x, x.func.value.value))
            else:
                joins.append((x, x.func.value.value))
    if not seps or not joins:
        rep.error('anchor vanished: the joins of Extensions.build_string')
        return
    pitems = rx.parse(pp[0], pp[1])
    for x, sep in seps:
        rep.evaluations += 1
        sample = 'X-KEYWORD' + sep + 'param=1 two'
        ends = rx.match_ends(pitems, sample, pp[1])
        # the keyword class must not contain the separator (the keyword
        # group would run on into the parameter), and it must be white
        # space, which the pattern drops between the two groups
        kw_sets = rx.all_charsets(rx.find_group(list(pitems), 1) or [],
                                  pp[1])
        sep_in_kw = any(cs is not None and all(ord(c) in cs for c in sep)
                        for cs in kw_sets)
        rep.check(len(sample) in ends and not sep_in_kw and sep != '' and
                  all(ord(c) in rx._SPACE for c in sep), 'X3', where,
                  'keyword / parameter separator %r is parsed back' % sep,
                  'build_string puts %r between an extension keyword and '
                  'its parameter; parse_pattern %r does not split the line '
                  'there: the client sees another keyword or parameter than '
                  'the server announced' % (sep, pp[0]),
                  loc=ctx.func.loc(x), reason='white space outside the '
                  'keyword class, whole line matched')
    litems = rx.parse(lp[0], lp[1])
    for x, sep in joins:
        rep.evaluations += 1
        sample = 'ONE' + sep
        ends = rx.match_ends(litems, sample, lp[1])
        rep.check(len(sample) in ends and '\n' in sep, 'X3', where,
                  'line separator %r ends a line for the reader' % sep,
                  'build_string joins the keyword lines with %r, which '
                  'line_pattern %r does not take for a line end: several '
                  'keywords are read as one' % (sep, lp[0]),
                  loc=ctx.func.loc(x), reason='matched by line_pattern')


# ---------------------------------------------------------------------- X4
def _class_str(e, cq, attr):
    _, v = e.p.lookup_class_attr(cq, attr)
    if isinstance(v, ast.Constant) and isinstance(v.value, str):
        return v.value
    return None


def _b64_shape(fn):
    """(b64 function name, codec of the text side) of
    b64encode(x.encode(C)).decode(A) / b64decode(x.encode(A)).decode(C)"""
    for r in walk_own(fn.node):
        if not isinstance(r, ast.Return) or r.value is None:
            continue
        v = r.value
        if not (isinstance(v, ast.Call) and isinstance(v.func, ast.Attribute)
                and v.func.attr == 'decode' and v.args):
            continue
        outer_codec = v.args[0].value if isinstance(
            v.args[0], ast.Constant) else None
        inner = v.func.value
        if not (isinstance(inner, ast.Call) and inner.args):
            continue
        fname = ast.unparse(inner.func).rpartition('.')[2]
        arg = inner.args[0]
        if isinstance(arg, ast.Call) and isinstance(arg.func, ast.Attribute) \
                and arg.func.attr == 'encode' and arg.args and \
                isinstance(arg.args[0], ast.Constant):
            return fname, outer_codec, arg.args[0].value
    return None


def x4(e: Engine, rep: Report):
    # header names
    for rattr, eattr, role in HTTP_HEADER_ROLES:
        rv, ev = _class_str(e, HTTP_RELAY, rattr), _class_str(e, WSGI, eattr)
        rep.evaluations += 1
        if rv is None or ev is None:
            rep.error('anchor vanished: %s.%s / %s.%s' % (
                HTTP_RELAY, rattr, WSGI, eattr))
            continue
        rep.check(rv.lower() == ev.lower(), 'X4', HTTP_RELAY + '.' + rattr,
                  'the %s header has the same name on both sides' % role,
                  'the relay sends the %s in `%s`, the edge reads it from '
                  '`%s`: a message relayed between two slimta processes '
                  'arrives without its %s' % (role, rv, ev, role),
                  reason='%r on both sides' % rv)
    # the roles are what the code uses them for
    bctx = e.method_ctx(HTTP_CLIENT, '_build_headers')
    rep.functions.add(bctx.func.qname)
    uses = {'sender_header': False, 'recipient_header': False}
    for x in walk_own(bctx.func.node):
        if isinstance(x, ast.Tuple) and len(x.elts) == 2 and \
                isinstance(x.elts[0], ast.Attribute):
            nm = x.elts[0].attr
            val = ast.unparse(x.elts[1])
            if nm == 'sender_header':
                uses[nm] = 'sender' in val
            if nm == 'recipient_header':
                uses[nm] = 'rcpt' in val or 'recipient' in val
    for nm, ok in sorted(uses.items()):
        rep.evaluations += 1
        rep.check(bool(ok), 'X4', bctx.func.qname,
                  '%s carries the %s' % (nm, nm.split('_')[0]),
                  '_build_headers does not pair %s with the envelope\'s %s'
                  % (nm, nm.split('_')[0]), loc=bctx.func.loc(),
                  reason='(header, encoded value) pair')
    for meth, attr in (('_get_sender', 'sender_header'),
                       ('_get_recipients', 'rcpt_header'),
                       ('_get_ehlo', 'ehlo_header')):
        ctx = e.method_ctx(WSGI, meth)
        rep.functions.add(ctx.func.qname)
        rep.evaluations += 1
        rep.check(('self.' + attr) in ast.unparse(ctx.func.node), 'X4',
                  ctx.func.qname, '%s reads self.%s' % (meth, attr),
                  '%s no longer reads the header named by %s' % (meth, attr),
                  loc=ctx.func.loc(), reason='header attribute used')
    # base64 / codec
    enc = _b64_shape(e.method_ctx(HTTP_CLIENT, '_b64encode').func)
    dec = _b64_shape(e.method_ctx(WSGI, '_b64decode').func)
    rep.evaluations += 1
    if enc is None or dec is None:
        rep.error('cannot read the shape of _b64encode / _b64decode')
    else:
        pair = {'b64encode': 'b64decode',
                'urlsafe_b64encode': 'urlsafe_b64decode',
                'standard_b64encode': 'standard_b64decode'}
        same_alpha = pair.get(enc[0]) == dec[0] or (
            enc[0] in ('b64encode', 'standard_b64encode') and
            dec[0] in ('b64decode', 'standard_b64decode'))
        norm = lambda c: str(c).lower().replace('-', '').replace('_', '')
        rep.check(same_alpha and norm(enc[2]) == norm(dec[1]), 'X4',
                  HTTP_CLIENT + '._b64encode',
                  'addresses are decoded the way they were encoded',
                  'the relay encodes addresses with %s over %s text, the '
                  'edge decodes with %s to %s: non-ASCII addresses (or all '
                  'of them) arrive changed' % (enc[0], enc[2], dec[0],
                                               dec[1]),
                  reason='%s/%s over %s' % (enc[0], dec[0], enc[2]))
    # the recipient splitter cannot cut a base64 value
    _, sp = e.p.lookup_class_attr(WSGI, 'split_pattern')
    rep.evaluations += 1
    if not (isinstance(sp, ast.Call) and sp.args and
            isinstance(sp.args[0], ast.Constant)):
        rep.error('anchor vanished: WsgiEdge.split_pattern')
    else:
        sets = [cs for cs in rx.all_charsets(
            list(rx.parse(sp.args[0].value)), 0) if cs is not None]
        hit = sorted(set().union(*sets) & B64_ALPHABET) if sets else []
        # a match needs its mandatory class ([,;]); the optional blanks
        # around it never occur in base64 text either
        rep.check(not hit and bool(sets), 'X4', WSGI + '.split_pattern',
                  'the recipient splitter never matches inside base64 text',
                  'split_pattern %r can match the characters %r, which '
                  'occur in base64 text: one encoded recipient is cut into '
                  'several' % (sp.args[0].value, bytes(hit)),
                  reason='classes of the pattern are disjoint from '
                  '[A-Za-z0-9+/=]')
    # the reply header
    rctx = e.method_ctx(HTTP_CLIENT, '_parse_smtp_reply_header')
    rep.functions.add(rctx.func.qname)
    rparams = set(rctx.func.params)
    read = [x.args[0].value for x in walk_own(rctx.func.node)
            if isinstance(x, ast.Call) and isinstance(x.func, ast.Attribute)
            and x.args and isinstance(x.args[0], ast.Constant) and (
                x.func.attr == 'getheader' or (
                    x.func.attr == 'get' and 'header' in ast.unparse(
                        x.func.value).lower()))]
    bfn = e.p.functions.get('slimta.edge.wsgi._build_http_response')
    wrote, keys = [], set()
    if bfn is not None:
        rep.functions.add(bfn.qname)
        for x in walk_own(bfn.node):
            if isinstance(x, ast.Call) and isinstance(x.func, ast.Attribute) \
                    and x.func.attr == 'add_header' and x.args and \
                    isinstance(x.args[0], ast.Constant):
                wrote.append(x.args[0].value)
            if isinstance(x, ast.Dict):
                keys |= {k.value for k in x.keys
                         if isinstance(k, ast.Constant)}
            if isinstance(x, ast.Assign):
                for t in x.targets:
                    if isinstance(t, ast.Subscript) and \
                            isinstance(t.slice, ast.Constant):
                        keys.add(t.slice.value)
    rep.evaluations += 1
    rep.check(bool(read) and bool(wrote) and
              {str(w).lower() for w in wrote} == {str(r).lower()
                                                  for r in read}, 'X4',
              rctx.func.qname, 'the reply header has the same name on both '
              'sides', 'the edge answers in %s, the relay looks for %s: the '
              'reply the edge gave is not what the relay reports'
              % (wrote, read), loc=rctx.func.loc(),
              reason='%s on both sides' % (wrote[0] if wrote else '?'))
    names = set()
    for x in walk_own(rctx.func.node):
        if isinstance(x, ast.Compare) and len(x.ops) == 1 and \
                isinstance(x.ops[0], ast.Eq) and \
                isinstance(x.comparators[0], ast.Constant) and \
                isinstance(x.comparators[0].value, str) and \
                'group' in ast.unparse(x.left):
            names.add(x.comparators[0].value)
        # ... or looked up in a table built from the parsed parameters
        if isinstance(x, ast.Call) and isinstance(x.func, ast.Attribute) \
                and x.func.attr == 'get' and x.args and \
                isinstance(x.args[0], ast.Constant) and \
                isinstance(x.args[0].value, str) and \
                isinstance(x.func.value, ast.Name) and \
                x.func.value.id not in rparams:
            names.add(x.args[0].value)
    # ... or kept in a dict of defaults that is filled from the parsed
    # parameters (`params = {'message': '', 'command': None}` ...
    # `params[name] = m.group(2)` ... `params['message']`)
    for x in walk_own(rctx.func.node):
        if isinstance(x, ast.Assign) and len(x.targets) == 1 and \
                isinstance(x.targets[0], ast.Name) and \
                isinstance(x.value, ast.Dict) and x.value.keys and all(
                    isinstance(k, ast.Constant) and isinstance(k.value, str)
                    for k in x.value.keys):
            dn = x.targets[0].id
            filled = any(
                isinstance(y, ast.Assign) and any(
                    isinstance(t, ast.Subscript) and
                    isinstance(t.value, ast.Name) and t.value.id == dn
                    for t in y.targets) and 'group' in ast.unparse(y.value)
                for y in walk_own(rctx.func.node))
            if filled:
                for y in walk_own(rctx.func.node):
                    if isinstance(y, ast.Subscript) and \
                            isinstance(y.ctx, ast.Load) and \
                            isinstance(y.value, ast.Name) and \
                            y.value.id == dn and \
                            isinstance(y.slice, ast.Constant) and \
                            isinstance(y.slice.value, str):
                        names.add(y.slice.value)
    rep.evaluations += 1
    rep.check(bool(names) and names <= keys, 'X4', rctx.func.qname,
              'reply parameters read by the relay are written by the edge',
              'the relay reads the reply parameters %s, the edge writes %s: '
              'message / command of the edge\'s reply are lost'
              % (sorted(names), sorted(keys)), loc=rctx.func.loc(),
              reason='%s written' % sorted(keys))


# ---------------------------------------------------------------------- X5
ORDER_CHANGERS = {'sorted', 'set', 'frozenset', 'reversed', 'dict', 'sort',
                  'reverse', 'shuffle', 'fromkeys'}


def x5(e: Engine, rep: Report):
    def order_free(fn, what, where, loc):
        bad = [x for x in ast.walk(fn) if isinstance(x, ast.Call) and (
            (isinstance(x.func, ast.Name) and x.func.id in ORDER_CHANGERS) or
            (isinstance(x.func, ast.Attribute) and
             x.func.attr in ORDER_CHANGERS)) and
            'recipient' in ast.unparse(x) + what or
            (isinstance(x, ast.Call) and isinstance(x.func, ast.Name) and
             x.func.id in ORDER_CHANGERS and 'rcpt' in ast.unparse(x))]
        rep.evaluations += 1
        rep.check(not bad, 'X5', where, what,
                  'the recipients pass through `%s`, which reorders or '
                  'merges them: they arrive in another order (or fewer) '
                  'than they were given' % (
                      ' '.join(ast.unparse(bad[0]).split())[:60]
                      if bad else ''), loc=loc,
                  reason='plain pass in list order')
    for cq, meth in ((SMTPC, '_send_envelope'),
                     (HTTP_CLIENT, '_build_headers')):
        ctx = e.method_ctx(cq, meth)
        rep.functions.add(ctx.func.qname)
        fn = ctx.func.node
        # (also through a local bound once to the list)
        alias = set()
        for a in walk_own(fn):
            if isinstance(a, ast.Assign) and \
                    ast.unparse(a.value).endswith('envelope.recipients'):
                for t in a.targets:
                    if isinstance(t, ast.Name) and sum(
                            1 for y in walk_own(fn)
                            if isinstance(y, ast.Name) and y.id == t.id and
                            isinstance(y.ctx, ast.Store)) == 1:
                        alias.add(t.id)

        def is_rcpts(it):
            return ast.unparse(it).endswith('envelope.recipients') or (
                isinstance(it, ast.Name) and it.id in alias) or (
                isinstance(it, ast.Call) and isinstance(it.func, ast.Name)
                and it.func.id in ('zip', 'enumerate') and it.args and
                is_rcpts(it.args[0]))
        passes = [x for x in walk_own(fn) if (
            isinstance(x, ast.For) and is_rcpts(x.iter)) or (
            isinstance(x, (ast.ListComp, ast.GeneratorExp)) and any(
                is_rcpts(gen.iter) for gen in x.generators))]
        rep.evaluations += 1
        rep.check(bool(passes), 'X5', ctx.func.qname,
                  'recipients are offered by a plain pass over '
                  'envelope.recipients',
                  '%s does not iterate envelope.recipients itself: the '
                  'order the recipients are offered in is not the envelope '
                  'order' % meth, loc=ctx.func.loc(),
                  reason='for rcpt in envelope.recipients')
        order_free(fn, 'no reordering of the recipients on the way out',
                   ctx.func.qname, ctx.func.loc())
    # receiving sides
    ctx = e.method_ctx(SESSION, 'RCPT')
    rep.functions.add(ctx.func.qname)
    app = [x for x in walk_own(ctx.func.node) if isinstance(x, ast.Call) and
           isinstance(x.func, ast.Attribute) and x.func.attr == 'append' and
           ast.unparse(x.func.value).endswith('recipients')]
    rep.evaluations += 1
    rep.check(len(app) == 1, 'X5', ctx.func.qname,
              'an accepted RCPT is appended to the envelope',
              'SmtpSession.RCPT does not append the accepted address (once) '
              'to envelope.recipients: recipients are lost, duplicated or '
              'reordered', loc=ctx.func.loc(),
              reason='recipients.append(address)')
    ctx = e.method_ctx(WSGI, '_get_recipients')
    rep.functions.add(ctx.func.qname)
    order_free(ctx.func.node, 'the edge builds the recipient list in header '
               'order', ctx.func.qname, ctx.func.loc())


# ---------------------------------------------------------------------- X6
# operations that can drop or change characters inside an address
ADDRESS_CUTTERS = {'partition', 'rpartition', 'split', 'rsplit', 'strip',
                   'lstrip', 'rstrip', 'replace', 'lower', 'upper',
                   'casefold', 'title', 'translate', 'removeprefix',
                   'removesuffix', 'splitlines', 'expandtabs', 'sub',
                   'normalize', 'swapcase', 'capitalize', 'ljust', 'rjust',
                   'center', 'zfill', 'format'}


def x6(e: Engine, rep: Report):
    n = 0
    for meth, cb in (('_command_MAIL', 'MAIL'), ('_command_RCPT', 'RCPT')):
        ctx = e.method_ctx(SERVER, meth)
        g = e.build(ctx, raises=lambda b, nn, r: set(),
                    inline=e.inline_same_self(deny=['_call_custom_handler',
                                                    '_gather_params']),
                    max_depth=3)
        where = ctx.func.qname
        rep.functions.add(where)
        argp = ctx.func.params[1]
        sites = [c for c in g.calls()
                 if e.call_name(c) == '_call_custom_handler' and
                 c.ast.args and isinstance(c.ast.args[0], ast.Constant) and
                 c.ast.args[0].value == cb and len(c.ast.args) >= 3]
        if not sites:
            rep.error('anchor vanished: %s callback in %s' % (cb, where))
            continue

        def tuple_values(x, fr, depth=0):
            """tuple displays a value may be (None results skipped), or
            None when it cannot be read"""
            if depth > 8:
                return None
            x, fr = common.origin(g, x, fr)
            if isinstance(x, ast.Tuple):
                return [(x, fr)]
            if isinstance(x, ast.Constant) and x.value is None:
                return []
            if isinstance(x, ast.Call):
                vals = common.values_of(g, x, fr)
                if len(vals) == 1 and vals[0][0] is x:
                    return None
                out = []
                for v, f2 in vals:
                    r = tuple_values(v, f2, depth + 1)
                    if r is None:
                        return None
                    out += r
                return out
            if isinstance(x, ast.Name):
                defs = [s2 for s2 in g.of_kind('stmt') if s2.frame is fr and
                        isinstance(s2.ast, ast.Assign) and any(
                            isinstance(t, ast.Name) and t.id == x.id
                            for t in s2.ast.targets)]
                if not defs:
                    return None
                out = []
                for d in defs:
                    r = tuple_values(d.ast.value, fr, depth + 1)
                    if r is None:
                        return None
                    out += r
                return out
            return None

        def verdict(x, fr, depth=0):
            """None = fine; str = what cuts; 'UNKNOWN:..' = cannot read"""
            if depth > 8:
                return 'UNKNOWN:nesting'
            x, fr = common.origin(g, x, fr)
            if isinstance(x, ast.Name):
                if x.id == argp and fr is g.entry.frame:
                    return None
                # several definitions: every one of them
                defs = [s2 for s2 in g.of_kind('stmt') if s2.frame is fr and
                        isinstance(s2.ast, ast.Assign) and any(
                            isinstance(t, ast.Name) and t.id == x.id
                            for t in s2.ast.targets)]
                # `address, rest = parsed` / `= self._helper(...)`
                tdefs = [s2 for s2 in g.of_kind('stmt') if s2.frame is fr and
                         isinstance(s2.ast, ast.Assign) and
                         len(s2.ast.targets) == 1 and
                         isinstance(s2.ast.targets[0], ast.Tuple) and any(
                             isinstance(t, ast.Name) and t.id == x.id
                             for t in s2.ast.targets[0].elts)]
                if not defs and not tdefs:
                    return 'UNKNOWN:`%s`' % x.id
                for d in defs:
                    v = verdict(d.ast.value, fr, depth + 1)
                    if v:
                        return v
                for d in tdefs:
                    tg = d.ast.targets[0]
                    i = [k for k, t in enumerate(tg.elts)
                         if isinstance(t, ast.Name) and t.id == x.id][0]
                    tv = tuple_values(d.ast.value, fr, depth + 1)
                    if tv is None:
                        return 'UNKNOWN:`%s`' % ' '.join(
                            ast.unparse(d.ast).split())[:50]
                    for v2, f2 in tv:
                        if len(v2.elts) != len(tg.elts):
                            return 'UNKNOWN:tuple sizes'
                        v = verdict(v2.elts[i], f2, depth + 1)
                        if v:
                            return v
                return None
            if isinstance(x, ast.Subscript):
                if isinstance(x.slice, ast.Slice) and x.slice.step is None:
                    base = verdict(x.value, fr, depth + 1)
                    if base:
                        return base
                    # the text between the delimiters, from the server's
                    # own scan: plain names / arithmetic on them
                    return None
                return 'takes `%s`' % ' '.join(ast.unparse(x).split())[:50]
            if isinstance(x, ast.Call):
                f = x.func
                nm = f.attr if isinstance(f, ast.Attribute) else (
                    f.id if isinstance(f, ast.Name) else None)
                if nm in ('decode', 'encode') and isinstance(f,
                                                              ast.Attribute):
                    return verdict(f.value, fr, depth + 1)
                if nm in ADDRESS_CUTTERS:
                    return 'passes it through `%s`' % ' '.join(
                        ast.unparse(x).split())[:60]
                if nm in ('str', 'bytes') and len(x.args) == 1:
                    return verdict(x.args[0], fr, depth + 1)
                # a function of the module with one return: its body decides
                try:
                    r = e.r.resolve_call(x, fr.ctx)
                except Exception:
                    r = None
                if r is not None and len(r.targets) == 1:
                    t = r.targets[0].func
                    rets = [y for y in walk_own(t.node)
                            if isinstance(y, ast.Return)]
                    if len(rets) == 1 and rets[0].value is not None:
                        bad = [y for y in ast.walk(rets[0].value)
                               if isinstance(y, ast.Call) and
                               isinstance(y.func, ast.Attribute) and
                               y.func.attr in ADDRESS_CUTTERS]
                        if bad:
                            return 'passes it through %s(), which does ' \
                                '`%s`' % (t.name, ' '.join(
                                    ast.unparse(bad[0]).split())[:50])
                    return 'UNKNOWN:helper `%s`' % t.name
                return 'UNKNOWN:`%s`' % ' '.join(ast.unparse(x).split())[:50]
            return 'UNKNOWN:`%s`' % ' '.join(ast.unparse(x).split())[:50]
        for c in sites:
            n += 1
            rep.evaluations += 1
            v = verdict(c.ast.args[2], c.frame)
            if v and v.startswith('UNKNOWN:'):
                rep.unknown('X6', where, 'address handed to the %s callback'
                            % cb, 'cannot read where `%s` comes from: %s' % (
                                ast.unparse(c.ast.args[2]), v[8:]),
                            loc=c.loc())
                continue
            rep.check(v is None, 'X6', where,
                      'address handed to the %s callback' % cb,
                      'the address the server hands on %s: a valid address '
                      'that contains what is cut at (a quoted local part, an '
                      'address literal) reaches the application changed'
                      % (v or ''), loc=c.loc(),
                      reason='slice of the argument between the '
                      'delimiters, decoded')
    if n < 2:
        rep.error('anchor vanished: MAIL / RCPT callback sites (%d < 2)' % n)


# ---------------------------------------------------------------------- X7
def x7(e: Engine, rep: Report):
    ctx = e.method_ctx(WSGI, '_get_sender')
    g = e.build(ctx, raises=lambda b, nn, r: set(),
                inline=e.inline_same_self(), max_depth=3)
    fx = e.facts(g)
    where = ctx.func.qname
    rep.functions.add(where)
    from ..facts import path_of
    # locals that hold the header value as it came in
    hv = set()
    for s2 in g.of_kind('stmt'):
        if isinstance(s2.ast, ast.Assign) and len(s2.ast.targets) == 1 and \
                isinstance(s2.ast.targets[0], ast.Name):
            v = s2.ast.value
            if (isinstance(v, ast.Call) and
                    isinstance(v.func, ast.Attribute) and
                    v.func.attr == 'get' and
                    isinstance(v.func.value, ast.Name)) or (
                    isinstance(v, ast.Subscript) and
                    isinstance(v.value, ast.Name) and
                    v.value.id in ctx.func.params):
                hv.add(path_of(s2.ast.targets[0], s2.frame))
    rep.evaluations += 1
    refusals = [n for n in g.of_kind('stmt') if isinstance(n.ast, ast.Raise)]
    bad = None
    for r in refusals:
        st = fx.at(r)
        if st is None:
            continue
        for p, k in st:
            if (not p and k in hv) or (
                    p and any(k == "%s == ''" % h or k == "%s == b''" % h or
                              k == 'len(%s) == 0' % h for h in hv)):
                bad = r
    rep.check(bad is None, 'X7', where,
              'an empty sender header is not refused',
              'the request is refused when the sender header value is '
              'falsy: the relay writes the null sender (bounces, '
              'notifications) as an EMPTY header value, so those messages '
              'are rejected at this hop instead of being handed on',
              loc=bad.loc() if bad else ctx.func.loc(),
              reason='no refusal guarded by the truthiness of the header '
              'value (%d refusals looked at)' % len(refusals))


# ---------------------------------------------------------------------- X8
def x8(e: Engine, rep: Report):
    n = 0
    for cq in e.concrete_classes(SMTPC):
        ctx = e.method_ctx(cq, '_send_message_data')
        g = e.build(ctx, raises=lambda b, nn, r: set(),
                    inline=e.inline_same_self(), max_depth=3)
        where = '%s[%s]' % (ctx.func.qname, cq.rpartition('.')[2])
        rep.functions.add(ctx.func.qname)
        sends = [c for c in g.nodes if c.kind == 'call' and
                 e.call_name(c) in ('send_data',)]
        if not sends:
            rep.error('anchor vanished: send_data in ' + where)
            continue
        # names unpacked from envelope.flatten()
        parts = None
        for s2 in g.of_kind('stmt'):
            if isinstance(s2.ast, ast.Assign) and \
                    isinstance(s2.ast.value, ast.Call) and \
                    isinstance(s2.ast.value.func, ast.Attribute) and \
                    s2.ast.value.func.attr == 'flatten' and \
                    isinstance(s2.ast.targets[0], ast.Tuple) and all(
                        isinstance(t, ast.Name)
                        for t in s2.ast.targets[0].elts):
                parts = [(t.id, s2.frame) for t in s2.ast.targets[0].elts]
        if parts is None:
            rep.unknown('X8', where, 'send_data is given the flattened '
                        'parts', 'cannot see envelope.flatten() unpacked '
                        'into names here', loc=ctx.func.loc())
            continue
        for c in sends:
            n += 1
            rep.evaluations += 1
            got = []
            for a in c.ast.args:
                if isinstance(a, ast.Starred):
                    got.append('*' + ast.unparse(a.value))
                    continue
                x, fr = common.origin(g, a, c.frame, follow_locals=False)
                if isinstance(x, ast.Subscript) and \
                        isinstance(x.slice, ast.Constant) and \
                        isinstance(x.slice.value, int) and \
                        isinstance(x.value, ast.Name):
                    # parts = (a, b); parts[0]
                    tv, tf = common.origin(g, x.value, fr)
                    if isinstance(tv, (ast.Tuple, ast.List)) and \
                            0 <= x.slice.value < len(tv.elts):
                        x, fr = common.origin(g, tv.elts[x.slice.value], tf,
                                              follow_locals=False)
                if isinstance(x, ast.Name) and (x.id, fr) not in parts:
                    # a free variable of a closure defined where flatten()
                    # was unpacked
                    fn = fr.ctx.func
                    local = x.id in fn.params or any(
                        isinstance(y, ast.Name) and y.id == x.id and
                        isinstance(y.ctx, ast.Store)
                        for y in walk_own(fn.node))
                    for pn, pf in parts:
                        if pn == x.id and not local and any(
                                y is fn.node
                                for y in ast.walk(pf.ctx.func.node)):
                            fr = pf
                got.append(x.id if isinstance(x, ast.Name) and
                           (x.id, fr) in parts else
                           '<%s>' % ' '.join(ast.unparse(a).split())[:40])
            want = [p for p, _ in parts]
            rep.check(got == want and not c.ast.keywords, 'X8', where,
                      'send_data is given the flattened parts',
                      'send_data is called with %s instead of the parts %s '
                      'that flatten() returned: the data sender treats the '
                      'start of every part as the start of a line, so a '
                      'part cut elsewhere gets a dot doubled (or bytes are '
                      'left out / repeated)' % (got, want), loc=c.loc(),
                      reason='arguments are exactly %s' % want)
    if n < 1:
        rep.error('anchor vanished: send_data sites (%d < 1)' % n)


# --------------------------------------------------------------------- X10
def x10(e: Engine, rep: Report):
    n = 0
    for meth in ('_get_sender', '_get_recipients'):
        ctx = e.method_ctx(WSGI, meth)
        g = e.build(ctx, raises=lambda b, nn, r: set(),
                    inline=e.inline_same_self(deny=['_b64decode']),
                    max_depth=3)
        where = ctx.func.qname
        rep.functions.add(where)

        def verdict(x, fr, depth=0):
            if depth > 8 or x is None:
                return 'UNKNOWN:nesting'
            if isinstance(x, ast.Constant):
                return None
            if isinstance(x, (ast.List, ast.Tuple)):
                for el in x.elts:
                    v = verdict(el, fr, depth + 1)
                    if v:
                        return v
                return None
            if isinstance(x, (ast.ListComp, ast.GeneratorExp)):
                return verdict(x.elt, fr, depth + 1)
            if isinstance(x, ast.IfExp):
                return verdict(x.body, fr, depth + 1) or \
                    verdict(x.orelse, fr, depth + 1)
            if isinstance(x, ast.Call):
                f = x.func
                nm = f.attr if isinstance(f, ast.Attribute) else (
                    f.id if isinstance(f, ast.Name) else None)
                if nm == '_b64decode':
                    return None      # what is inside is encoded text (X4)
                if nm in ('list', 'tuple') and len(x.args) == 1:
                    return verdict(x.args[0], fr, depth + 1)
                if nm == 'map' and isinstance(f, ast.Name) and \
                        len(x.args) == 2 and not x.keywords:
                    # map(F, xs): F(x) for each element
                    fn2 = x.args[0]
                    nm2 = fn2.attr if isinstance(fn2, ast.Attribute) else (
                        fn2.id if isinstance(fn2, ast.Name) else None)
                    if nm2 == '_b64decode':
                        return None
                    if nm2 in ADDRESS_CUTTERS:
                        return 'passes the decoded address through `%s`' % \
                            ' '.join(ast.unparse(x).split())[:60]
                    return 'UNKNOWN:`%s`' % ' '.join(
                        ast.unparse(x).split())[:50]
                if nm in ADDRESS_CUTTERS:
                    return 'passes the decoded address through `%s`' % \
                        ' '.join(ast.unparse(x).split())[:60]
                vals = common.values_of(g, x, fr)
                if len(vals) == 1 and vals[0][0] is x:
                    return 'UNKNOWN:`%s`' % ' '.join(
                        ast.unparse(x).split())[:50]
                for v2, f2 in vals:
                    v = verdict(v2, f2, depth + 1)
                    if v:
                        return v
                return None
            if isinstance(x, ast.Name):
                x2, f2 = common.origin(g, x, fr, follow_locals=False)
                if x2 is not x:
                    return verdict(x2, f2, depth + 1)
                defs = [s2 for s2 in g.of_kind('stmt') if s2.frame is fr and
                        isinstance(s2.ast, ast.Assign) and any(
                            isinstance(t, ast.Name) and t.id == x.id
                            for t in s2.ast.targets)]
                loops = [y for y in g.of_kind('iter') if y.frame is fr and
                         any(isinstance(t, ast.Name) and t.id == x.id
                             for t in ast.walk(y.ast.target))]
                if loops and not defs:
                    return None      # a piece of the header value
                if not defs:
                    return 'UNKNOWN:`%s`' % x.id
                for d in defs:
                    v = verdict(d.ast.value, fr, depth + 1)
                    if v:
                        return v
                return None
            return 'UNKNOWN:`%s`' % ' '.join(ast.unparse(x).split())[:50]
        for r in g.of_kind('stmt'):
            if not (isinstance(r.ast, ast.Return) and
                    r.frame is g.entry.frame and r.ast.value is not None):
                continue
            n += 1
            rep.evaluations += 1
            v = verdict(r.ast.value, r.frame)
            if v and v.startswith('UNKNOWN:'):
                rep.unknown('X10', where, 'returned addresses',
                            'cannot read where `%s` comes from: %s' % (
                                ast.unparse(r.ast.value), v[8:]),
                            loc=r.loc())
                continue
            rep.check(v is None, 'X10', where, 'returned addresses are the '
                      'decoded header values',
                      'the edge %s: an address the relay sent arrives as a '
                      'different string (the message is queued for, or '
                      'bounced to, an address nobody wrote)' % (v or ''),
                      loc=r.loc(), reason='_b64decode(...) only')
    if n < 2:
        rep.error('anchor vanished: returns of _get_sender / '
                  '_get_recipients (%d < 2)' % n)


# --------------------------------------------------------------------- X11
PRE_CALLBACK_REFUSALS = {'501': 'syntax error in the argument',
                         '503': 'bad sequence of commands',
                         '504': 'parameter not implemented',
                         '552': 'declared SIZE exceeds the limit'}


def x11(e: Engine, rep: Report):
    n = 0
    for meth, cb in (('_command_MAIL', 'MAIL'), ('_command_RCPT', 'RCPT')):
        ctx = e.method_ctx(SERVER, meth)
        g = e.build(ctx, raises=lambda b, nn, r: set(),
                    inline=e.inline_same_self(deny=['_call_custom_handler',
                                                    '_gather_params',
                                                    '_check_close_code']),
                    max_depth=3)
        where = ctx.func.qname
        rep.functions.add(where)
        cbs = [c for c in g.calls()
               if e.call_name(c) == '_call_custom_handler']
        from .. import dataflow
        after_cb = dataflow.must_events_before(
            g, lambda x: ['cb'] if x in cbs else [])
        for c in g.nodes:
            if c.kind != 'call' or e.call_name(c) != 'send' or \
                    not isinstance(c.ast.func, ast.Attribute):
                continue
            if 'cb' in (after_cb.get(c.id) or ()):
                continue         # the reply the application shaped
            rcv = c.ast.func.value

            def codes_of(x, fr, depth=0):
                """codes the reply object x may carry (None = unknown)"""
                if depth > 6:
                    return [None]
                if isinstance(x, ast.Constant) and x.value is None:
                    return []
                if isinstance(x, ast.Call) and \
                        ast.unparse(x.func).endswith('Reply') and x.args \
                        and isinstance(x.args[0], ast.Constant):
                    return [x.args[0].value]
                k = common.reply_constant_code(e, x, fr.ctx) if isinstance(
                    x, (ast.Name, ast.Attribute)) else None
                if k is not None:
                    return [k]
                if isinstance(x, ast.Name):
                    x2, f2 = common.origin(g, x, fr)
                    if x2 is not x:
                        return codes_of(x2, f2, depth + 1)
                    return [None]
                if isinstance(x, ast.Call):
                    vals = common.values_of(g, x, fr)
                    if len(vals) == 1 and vals[0][0] is x:
                        return [None]
                    out = []
                    for v2, f2 in vals:
                        out += codes_of(v2, f2, depth + 1)
                    return out
                return [None]
            for code in codes_of(rcv, c.frame) or [None]:
                n += 1
                rep.evaluations += 1
                if code is None:
                    rep.unknown('X11', where, 'refusal `%s`' % c.text(40),
                                'cannot read the code of this reply',
                                loc=c.loc())
                    continue
                _x11_check(rep, where, meth, cb, code, c)
    if n < 6:
        rep.error('anchor vanished: pre-callback refusals of MAIL / RCPT '
                  '(%d < 6)' % n)


def _x11_check(rep, where, meth, cb, code, c):
    if True:
        if True:
            rep.check(str(code) in PRE_CALLBACK_REFUSALS, 'X11', where,
                      'refusal %s before the %s callback' % (code, cb),
                      '%s refuses the command with %s before the '
                      'application was asked: a refusal at this level that '
                      'is not one of %s turns away addresses / '
                      'transactions that are valid (what the client sends '
                      'and what the server demands have to agree, and no '
                      'test composes the two)' % (
                          meth, code, sorted(PRE_CALLBACK_REFUSALS)),
                      loc=c.loc(), reason=PRE_CALLBACK_REFUSALS.get(
                          str(code), ''))


# --------------------------------------------------------------------- X12
ENVELOPE = 'slimta.envelope.Envelope'


def x12(e: Engine, rep: Report):
    ctx = e.method_ctx(ENVELOPE, 'flatten')
    if ctx is None:
        rep.error('anchor vanished: Envelope.flatten')
        return
    g = e.build(ctx, raises=lambda b, nn, r: set(),
                inline=e.inline_same_self(), max_depth=3)
    rep.functions.add(ctx.func.qname)
    root = ctx.func
    params = [p for p in root.params if p != 'self']
    m = e.p.modules.get('slimta.envelope')
    # module-level `make = partial(BytesGenerator, policy=...)`
    partials = {t.id for st in m.tree.body if isinstance(st, ast.Assign) and
                isinstance(st.value, ast.Call) and
                ast.unparse(st.value.func).rpartition('.')[2] == 'partial'
                and st.value.args and ast.unparse(
                    st.value.args[0]).rpartition('.')[2] in (
                    'BytesGenerator', 'Generator')
                for t in st.targets if isinstance(t, ast.Name)}
    gens = [c for c in g.nodes if c.kind == 'call' and
            e.call_name(c) in {'BytesGenerator', 'Generator'} | partials]
    if not gens:
        rep.unknown('X12', root.qname, 'generator settings are fixed',
                    'no BytesGenerator(...) call is visible from flatten()',
                    loc=root.loc())
        return
    # which parameters does some caller in the package set?
    set_by = {}
    pos = {p: i for i, p in enumerate(params)}
    for f in e.p.functions.values():
        for c in walk_own(f.node):
            if isinstance(c, ast.Call) and \
                    isinstance(c.func, ast.Attribute) and \
                    c.func.attr == 'flatten' and \
                    f.qname.rpartition('.')[0] != ENVELOPE:
                for p in params:
                    if pos[p] < len(c.args) or any(
                            k.arg == p or k.arg is None
                            for k in c.keywords):
                        set_by.setdefault(p, '%s:%d' % (f.module.relpath,
                                                        c.lineno))
    for c in gens:
        rep.evaluations += 1
        where = '%s -> %s' % (root.qname, c.frame.ctx.func.name)
        dep = None
        for a in list(c.ast.args[1:]) + [k.value for k in c.ast.keywords]:
            x = common.expand(g, a, c.frame)
            for nm in ast.walk(x):
                if isinstance(nm, ast.Name) and nm.id in set_by:
                    dep = (nm.id, ' '.join(ast.unparse(x).split())[:60])
        rep.check(dep is None, 'X12', where,
                  'generator settings are fixed',
                  'the generator is set up with `%s`, which depends on '
                  'flatten() argument `%s` that %s sets: the sending side '
                  'writes the header block one way, the receiving side '
                  '(which flattens with the default) another, so a header '
                  'that has to be refolded does not arrive byte for byte'
                  % (dep[1] if dep else '', dep[0] if dep else '',
                     set_by.get(dep[0]) if dep else ''), loc=c.loc(),
                  reason='settings do not depend on a caller-set argument '
                  '(arguments set by callers: %s)' % (sorted(set_by) or
                                                      'none'))


# --------------------------------------------------------------------- X13
def _ascii_only_class(pattern, flags=0):
    """text of a character class in the pattern that takes ASCII letters but
    no character above 127 (positive class without categories), or None"""
    sc = rx._consts()

    def walk(items):
        for op, av in items:
            if op in (sc.MAX_REPEAT, sc.MIN_REPEAT):
                r = walk(list(av[2]))
            elif op == sc.SUBPATTERN:
                r = walk(list(av[3]))
            elif op == sc.BRANCH:
                r = None
                for alt in av[1]:
                    r = r or walk(list(alt))
            elif op == sc.IN:
                r = None
                if not any(o in (sc.NEGATE, sc.CATEGORY) for o, _ in av):
                    cs = set()
                    for o, a in av:
                        if o == sc.LITERAL:
                            cs.add(a)
                        elif o == sc.RANGE:
                            cs |= {a[0], a[1]}
                            if a[0] <= 97 <= a[1]:
                                cs.add(97)
                    if 97 in cs and max(cs) < 128:
                        r = 'a class that ends at %r' % chr(max(cs))
            else:
                r = None
            if r:
                return r
        return None
    try:
        return walk(list(rx.parse(pattern, flags)))
    except Exception:
        return None


def x13(e: Engine, rep: Report):
    n = 0
    for cq in e.concrete_classes(CLIENT):
        for meth, verb in (('mailfrom', b'MAIL'), ('rcptto', b'RCPT')):
            ctx = e.method_ctx(cq, meth)
            where = '%s[%s]' % (ctx.func.qname, cq.rpartition('.')[2])
            rep.functions.add(ctx.func.qname)
            g = e.build(ctx, raises=lambda b, nn, r: set(),
                        inline=e.inline_same_self(deny=['_flush_pipeline']),
                        max_depth=3)
            argp = ctx.func.params[1] if len(ctx.func.params) > 1 else None
            site = None
            for c, arg in _sent_commands(e, g):
                sh = common.bytes_shape(g, arg, c.frame)
                if sh and sh[0][0] == 'lit' and \
                        isinstance(sh[0][1], bytes) and \
                        sh[0][1].upper().startswith(verb + b' '):
                    site = (c, arg)
            if site is None or argp is None:
                rep.error('cannot read the %s command line %s sends'
                          % (verb.decode(), where))
                continue
            c, arg = site
            ops, unknown, frames = [], [], set()

            def defs_of(name, fr):
                fn = fr.ctx.func
                out = []
                for a in walk_own(fn.node):
                    if isinstance(a, ast.Assign):
                        for t in a.targets:
                            if isinstance(t, ast.Name) and t.id == name:
                                out.append(a.value)
                            elif isinstance(t, (ast.Tuple, ast.List)) and \
                                    any(isinstance(el, ast.Name) and
                                        el.id == name for el in t.elts):
                                out.append(a.value)
                    elif isinstance(a, ast.AugAssign) and \
                            isinstance(a.target, ast.Name) and \
                            a.target.id == name:
                        out.append(a)
                return out

            def flow(x, fr, depth=0, seen=None):
                """follows the address part of the command back to the
                method's argument; collects what changes it on the way"""
                seen = seen if seen is not None else set()
                if depth > 12 or (id(x), id(fr)) in seen:
                    return
                seen.add((id(x), id(fr)))
                if isinstance(x, ast.Constant):
                    return
                if isinstance(x, ast.Name):
                    fn = fr.ctx.func
                    ds = defs_of(x.id, fr)
                    if x.id in fn.params:
                        if fr is g.entry.frame:
                            if x.id != argp:
                                unknown.append(x)
                        elif x.id in getattr(fr, 'arg_exprs', {}):
                            a, af = fr.arg_exprs[x.id]
                            flow(a, af, depth + 1, seen)
                        else:
                            unknown.append(x)
                    elif not ds:
                        unknown.append(x)
                    for d in ds:
                        flow(d, fr, depth + 1, seen)
                    return
                if isinstance(x, ast.IfExp):
                    flow(x.body, fr, depth + 1, seen)
                    flow(x.orelse, fr, depth + 1, seen)
                    return
                if isinstance(x, ast.Call):
                    f = x.func
                    nm = f.attr if isinstance(f, ast.Attribute) else (
                        f.id if isinstance(f, ast.Name) else None)
                    if nm in ('encode', 'decode') and \
                            isinstance(f, ast.Attribute):
                        flow(f.value, fr, depth + 1, seen)
                        return
                    if nm in ('str', 'bytes') and x.args:
                        flow(x.args[0], fr, depth + 1, seen)
                        return
                    vals = common.values_of(g, x, fr)
                    if not (len(vals) == 1 and vals[0][0] is x):
                        for v, f2 in vals:
                            flow(v, f2, depth + 1, seen)
                        return
                ops.append((x, fr))
                frames.add(id(fr))
            # the parts of the command line, in the original syntax tree
            # (joins, concatenations, a list joined later, a helper that
            # assembles the line), and the one behind the opening bracket
            def parts_of(x, fr, depth=0):
                if depth > 8:
                    return [(x, fr)]
                if isinstance(x, ast.Name):
                    fn = fr.ctx.func
                    asg = [a for a in walk_own(fn.node)
                           if isinstance(a, ast.Assign) and any(
                               isinstance(t, ast.Name) and t.id == x.id
                               for t in a.targets)]
                    if len(asg) == 1 and x.id not in fn.params:
                        return parts_of(asg[0].value, fr, depth + 1)
                    x2, f2 = common.origin(g, x, fr)
                    if x2 is not x:
                        return parts_of(x2, f2, depth + 1)
                    return [(x, fr)]
                if isinstance(x, ast.BinOp) and isinstance(x.op, ast.Add):
                    return parts_of(x.left, fr, depth + 1) + \
                        parts_of(x.right, fr, depth + 1)
                if isinstance(x, (ast.List, ast.Tuple)):
                    out = []
                    for el in x.elts:
                        out += parts_of(el, fr, depth + 1)
                    return out
                if isinstance(x, ast.Call) and \
                        isinstance(x.func, ast.Attribute) and \
                        x.func.attr == 'join' and len(x.args) == 1 and \
                        isinstance(x.func.value, ast.Constant):
                    return parts_of(x.args[0], fr, depth + 1)
                if isinstance(x, ast.Call):
                    v2, f2 = common.value_of(g, x, fr)
                    if v2 is not x:
                        return parts_of(v2, f2, depth + 1)
                return [(x, fr)]
            parts = parts_of(arg, c.frame)
            target = None
            for k, (px, pf) in enumerate(parts):
                if isinstance(px, ast.Constant) and \
                        isinstance(px.value, bytes) and \
                        px.value.rstrip().endswith(b'<') and \
                        k + 1 < len(parts):
                    target = parts[k + 1]
                    break
            if target is not None:
                flow(target[0], target[1])
            else:
                unknown.append(arg)
            n += 1
            rep.evaluations += 1
            what = 'the %s path is the address given, encoded' % \
                verb.decode()
            if not ops and not unknown:
                rep.check(True, 'X13', where, what, '', loc=c.loc(),
                          reason='argument `%s`, encode() only' % argp)
                continue
            # patterns consulted where the address is rewritten
            bad = None
            for x, fr in ops:
                fn = fr.ctx.func
                for y in walk_own(fn.node):
                    if isinstance(y, ast.Call) and \
                            isinstance(y.func, ast.Attribute) and \
                            y.func.attr in ('match', 'search', 'fullmatch') \
                            and isinstance(y.func.value, ast.Name):
                        got = rx.module_pattern(e, fn.module.name,
                                                y.func.value.id)
                        if got is None:
                            continue
                        cls = _ascii_only_class(got[0], got[1])
                        if cls:
                            bad = (y.func.value.id, cls, x, fn)
            if bad:
                rep.check(False, 'X13', where, what,
                          'the client rewrites the address (`%s` in %s) '
                          'depending on %s, which has %s: a valid local '
                          'part with UTF-8 in it (SMTPUTF8) is taken for '
                          'one that needs rewriting, and the edge receives '
                          'another mailbox than the relay was given'
                          % (' '.join(ast.unparse(bad[2]).split())[:50],
                             bad[3].name, bad[0], bad[1]), loc=c.loc())
            else:
                first = ops[0][0] if ops else unknown[0]
                rep.unknown('X13', where, what, 'the path is built with '
                            '`%s`: cannot decide that every valid address '
                            'goes out as given'
                            % ' '.join(ast.unparse(first).split())[:60],
                            loc=c.loc())
    if n < 2:
        rep.error('anchor vanished: MAIL / RCPT command sites (%d < 2)' % n)


# ------------------------------------------------- keyword cross-check (C07)
def cross_keywords(e: Engine, rep: Report, rule: str):
    """The pattern MAIL takes its path with does not accept what introduces
    the path of RCPT, and the other way round (`MAIL TO:<x>` is malformed)."""
    heads, pats, sites = {}, {}, {}
    for meth, verb in (('mailfrom', b'MAIL'), ('rcptto', b'RCPT')):
        ctx = e.method_ctx(CLIENT, meth)
        g = e.build(ctx, raises=lambda b, n, r: set(),
                    inline=e.inline_same_self(deny=['_flush_pipeline']),
                    max_depth=3)
        for n, arg in _sent_commands(e, g):
            sh = common.bytes_shape(g, arg, n.frame)
            if sh and sh[0][0] == 'lit' and isinstance(sh[0][1], bytes) and \
                    sh[0][1].upper().startswith(verb + b' '):
                heads[verb] = sh[0][1][len(verb) + 1:]
        sctx = e.method_ctx(SERVER, '_command_' + verb.decode())
        sg = e.build(sctx, raises=lambda b, n, r: set(),
                     inline=e.inline_same_self(
                         deny=['_call_custom_handler', '_gather_params',
                               '_check_close_code']), max_depth=3)
        rep.functions.add(sctx.func.qname)
        sites[verb] = sctx.func
        pats[verb] = []
        for n in sg.calls():
            f = n.ast.func
            if isinstance(f, ast.Attribute) and f.attr in ('match',
                                                           'fullmatch') \
                    and n.ast.args:
                p0, _ = common.origin(sg, f.value, n.frame)
                if isinstance(p0, ast.Name):
                    got = rx.module_pattern(e, 'slimta.smtp.server', p0.id)
                    if got is not None:
                        pats[verb].append((p0.id, got, n))
    if len(heads) < 2 or not all(pats.values()):
        rep.unknown(rule, SERVER, 'MAIL / RCPT keyword patterns',
                    'cannot read the keyword literals / patterns of MAIL '
                    'and RCPT', loc=sites[b'MAIL'].loc()
                    if b'MAIL' in sites else None)
        return
    for verb, other in ((b'MAIL', b'RCPT'), (b'RCPT', b'MAIL')):
        head = heads[other]
        for pname, pat, n in pats[verb]:
            rep.evaluations += 1
            ends = rx.match_ends(rx.parse(pat[0], pat[1]), head, pat[1])
            rep.check(len(head) not in ends, rule, sites[verb].qname,
                      '%s does not take the %s keyword %r'
                      % (pname, other.decode(), head),
                      '%s (%r), with which %s takes its path, also matches '
                      '%r: the malformed line `%s %sx>` passes the syntax '
                      'check and reaches the %s callback'
                      % (pname, pat[0], sites[verb].name, head,
                         verb.decode(), head.decode(), verb.decode()),
                      loc=n.loc(), reason='%s rejects %r' % (pname, head))


# --------------------------------------------------------------------- X15
def x15(e: Engine, rep: Report, rule: str = 'X15'):
    ctx = e.method_ctx(ENVELOPE, 'flatten')
    g = e.build(ctx, raises=lambda b, nn, r: set(),
                inline=e.inline_same_self(), max_depth=3)
    where = ctx.func.qname
    rep.functions.add(where)
    rep.evaluations += 1
    bad = None
    for n in g.of_kind('stmt'):
        a = n.ast
        tg = a.targets if isinstance(a, ast.Assign) else (
            [a.target] if isinstance(a, (ast.AugAssign, ast.AnnAssign))
            else [])
        for t0 in tg:
            for t in (t0.elts if isinstance(t0, (ast.Tuple, ast.List))
                      else [t0]):
                p = path_of(t, n.frame) or ''
                if p.startswith('self.'):
                    bad = (n, p)
    for n in g.calls():
        if isinstance(n.ast.func, ast.Name) and \
                n.ast.func.id == 'setattr' and n.ast.args and \
                (path_of(n.ast.args[0], n.frame) or '') == 'self':
            bad = (n, 'setattr(self, ...)')
    rep.check(bad is None, rule, where, 'flatten() keeps no memo',
              'flatten() writes `%s`: header bytes remembered from an '
              'earlier call are handed out again after a policy edited '
              'envelope.headers in place (the Message object is the same, '
              'its content is not) - the relay sends a header block the '
              'envelope no longer holds' % (bad[1] if bad else ''),
              loc=bad[0].loc() if bad else ctx.func.loc(),
              reason='no write to the envelope in flatten()')


# --------------------------------------------------------------------- X16
def x16(e: Engine, rep: Report):
    rctx = e.method_ctx(HTTP_CLIENT, '_build_headers')
    g = e.build(rctx, raises=lambda b, nn, r: set(),
                inline=e.inline_same_self(), max_depth=3)
    rep.functions.add(rctx.func.qname)
    sent = []
    for n in g.nodes:
        if n.kind not in ('stmt', 'call'):
            continue
        for x in ast.walk(n.ast):
            if isinstance(x, ast.Tuple) and len(x.elts) == 2 and \
                    isinstance(x.elts[0], ast.Constant) and \
                    isinstance(x.elts[0].value, str) and \
                    x.elts[0].value.lower() == 'content-type':
                for v, vf in common.values_of(g, x.elts[1], n.frame):
                    sent.append((n, v))
    ectx = e.method_ctx(WSGI, '_validate_request')
    accepted = set()
    if ectx is not None:
        rep.functions.add(ectx.func.qname)
        for x in walk_own(ectx.func.node):
            if isinstance(x, ast.Compare) and any(
                    isinstance(y, ast.Name) and 'type' in y.id.lower()
                    for y in ast.walk(x.left)):
                for c in x.comparators:
                    for y in ast.walk(c):
                        if isinstance(y, ast.Constant) and \
                                isinstance(y.value, str) and '/' in y.value:
                            accepted.add(y.value)
    if not sent or not accepted:
        rep.unknown('X16', rctx.func.qname, 'media type agreement',
                    'cannot read the Content-Type the relay writes / the '
                    'types the edge accepts', loc=rctx.func.loc())
        return
    seen = set()
    for n, v in sent:
        key = ast.unparse(v)
        if key in seen:
            continue
        seen.add(key)
        rep.evaluations += 1
        if not (isinstance(v, ast.Constant) and isinstance(v.value, str)):
            rep.unknown('X16', rctx.func.qname, 'Content-Type `%s`' % key,
                        'not a literal', loc=n.loc())
            continue
        rep.check(v.value in accepted, 'X16', rctx.func.qname,
                  'Content-Type %r is accepted by the edge' % v.value,
                  'the relay can send Content-Type %r, the edge\'s '
                  'validator accepts only %s: such a message is refused '
                  'with 415 - nothing is queued and the relay reports a '
                  'permanent failure the edge never decided'
                  % (v.value, sorted(accepted)), loc=n.loc(),
                  reason='in the edge\'s accepted set')


# --------------------------------------------------------------- X17 / X18
def x17_x18(e: Engine, rep: Report):
    mod = 'slimta.relay.smtp'
    n = 0
    for f in sorted(e.p.functions.values(), key=lambda f: f.qname):
        if f.module.name != mod or f.cls is None or \
                'RelayError' not in f.cls.name:
            continue
        if f.name not in ('factory', '__init__'):
            continue
        rp = [p for p in f.params if p == 'reply']
        if not rp:
            continue
        n += 1
        rep.evaluations += 1
        rep.functions.add(f.qname)
        rebound = [x for x in walk_own(f.node) if isinstance(x, ast.Name) and
                   x.id == 'reply' and isinstance(x.ctx, (ast.Store,
                                                         ast.Del))]
        made = [x for x in walk_own(f.node) if isinstance(x, ast.Call) and
                ast.unparse(x.func).rpartition('.')[2] == 'Reply']
        wrote = [x for x in walk_own(f.node) if isinstance(x, ast.Attribute)
                 and isinstance(x.ctx, ast.Store) and
                 isinstance(x.value, ast.Name) and x.value.id == 'reply' and
                 x.attr in ('code', 'message', 'enhanced_status_code')]
        bad = rebound or made or wrote
        rep.check(not bad, 'X17', f.qname,
                  'the relay error carries the reply it was given',
                  '%s does not hand on the reply of the edge as it is (`%s`)'
                  ': the sending side reports another code than the '
                  'receiving side gave - a 552 "message too big" becomes a '
                  '452 that is retried for days, or the other way round'
                  % (f.qname, ' '.join(ast.unparse(
                      (rebound or made or wrote)[0]).split())[:50]
                     if bad else ''),
                  loc=f.loc((rebound or made or wrote)[0]) if bad
                  else f.loc(), reason='parameter handed on unchanged')
    if n < 3:
        rep.error('anchor vanished: SmtpRelayError.factory / __init__ '
                  '(%d < 3)' % n)
    m = 0
    for cq in e.concrete_classes('slimta.relay.smtp.client.SmtpRelayClient'):
        for meth in ('_mailfrom', '_rcptto'):
            ctx = e.method_ctx(cq, meth)
            if ctx.func.cls.qname != cq and \
                    cq != 'slimta.relay.smtp.client.SmtpRelayClient':
                continue
            g = e.build(ctx, raises=lambda b, nn, r: set(),
                        inline=e.inline_same_self(), max_depth=3)
            where = ctx.func.qname
            for fr in {x.frame for x in g.nodes}:
                rep.functions.add(fr.ctx.func.qname)
            m += 1
            rep.evaluations += 1
            made = [x for x in g.calls()
                    if ast.unparse(x.ast.func).rpartition('.')[2] == 'Reply']
            rep.check(not made, 'X18', where,
                      'no reply of its own before / instead of the command',
                      '%s builds a Reply itself (`%s`): the relay answers '
                      'for the edge - an address the edge would have '
                      'accepted is refused locally (or the other way '
                      'round), sender and recipients are no longer what '
                      'the receiving side decided on' % (
                          meth, made[0].text(50) if made else ''),
                      loc=made[0].loc() if made else ctx.func.loc(),
                      reason='only Client.%s() replies' % meth.lstrip('_'))
    if m < 2:
        rep.error('anchor vanished: _mailfrom / _rcptto of the relay client')


# ---------------------------------------------------------------------- X19
def x19(e: Engine, rep: Report):
    srv = common.merged_class(e, SERVER)
    n = 0

    def pure(x, fn, depth=0):
        """None: the advertised SIZE parameter / None on every path;
        otherwise the offending expression"""
        if depth > 6:
            return x
        if isinstance(x, ast.Constant) and x.value is None:
            return None
        if isinstance(x, ast.Call) and isinstance(x.func, ast.Attribute) \
                and x.func.attr == 'getparam' and x.args and \
                isinstance(x.args[0], ast.Constant) and \
                str(x.args[0].value).upper() == 'SIZE':
            return None
        if isinstance(x, ast.Attribute) and isinstance(x.value, ast.Name) \
                and x.value.id == 'self':
            # an attribute: every assignment of it in the class
            ds = [a.value for m in srv.methods.values()
                  for a in walk_own(m.node) if isinstance(a, ast.Assign)
                  and any(ast.unparse(t) == ast.unparse(x)
                          for t in a.targets)]
            if not ds:
                return x
            for m in srv.methods.values():
                for a in walk_own(m.node):
                    if isinstance(a, ast.Assign) and any(
                            ast.unparse(t) == ast.unparse(x)
                            for t in a.targets):
                        r = pure(a.value, m.node, depth + 1)
                        if r is not None:
                            return r
            return None
        if isinstance(x, ast.Name):
            ds = [a for a in walk_own(fn) if isinstance(a, ast.Assign) and
                  any(isinstance(t, ast.Name) and t.id == x.id
                      for t in a.targets)]
            if not ds or any(isinstance(a, ast.AugAssign) and
                             isinstance(a.target, ast.Name) and
                             a.target.id == x.id for a in walk_own(fn)):
                return x
            for a in ds:
                r = pure(a.value, fn, depth + 1)
                if r is not None:
                    return r
            return None
        if isinstance(x, ast.IfExp):
            return pure(x.body, fn, depth + 1) or \
                pure(x.orelse, fn, depth + 1)
        if isinstance(x, ast.BoolOp):
            for v in x.values:
                r = pure(v, fn, depth + 1)
                if r is not None:
                    return r
            return None
        if isinstance(x, ast.Call) and isinstance(x.func, ast.Attribute) \
                and isinstance(x.func.value, ast.Name) and \
                x.func.value.id == 'self' and x.func.attr in srv.methods:
            m = srv.methods[x.func.attr]
            for r0 in walk_own(m.node):
                if isinstance(r0, ast.Return) and r0.value is not None:
                    r = pure(r0.value, m.node, depth + 1)
                    if r is not None:
                        return r
            return None
        return x
    for mname, m in sorted(srv.methods.items()):
        for c in walk_own(m.node):
            if not (isinstance(c, ast.Call) and
                    ast.unparse(c.func).rpartition('.')[2] == 'DataReader'):
                continue
            lim = c.args[1] if len(c.args) > 1 else next(
                (k.value for k in c.keywords if k.arg == 'max_size'), None)
            n += 1
            rep.evaluations += 1
            rep.functions.add(m.qname)
            bad = pure(lim, m.node) if lim is not None else None
            rep.check(bad is None, 'X19', m.qname,
                      'the DATA limit `%s` is the advertised one'
                      % (' '.join(ast.unparse(lim).split())[:40]
                         if lim is not None else 'None'),
                      'the limit the reader is given can be `%s`, which is '
                      'not the parameter of the SIZE extension: the reader '
                      'measures what is on the wire (every stuffed dot, the '
                      'end marker), so a limit made from a size the client '
                      'declared for the message itself refuses with 552 a '
                      'message that is within what the server advertised - '
                      'the relay reports a failure for mail the edge would '
                      'have taken' % (' '.join(ast.unparse(bad).split())[:50]
                                      if bad is not None else ''),
                      loc=m.loc(c), reason='getparam(\'SIZE\') / None on '
                      'every path')
    if n < 1:
        rep.error('anchor vanished: DataReader(...) in Server')


# ---------------------------------------------------------------------- X20
def x20(e: Engine, rep: Report):
    from re import _constants as sc
    mods = ('slimta.smtp.extensions', 'slimta.smtp.server', 'slimta.smtp.io',
            'slimta.smtp.client', 'slimta.smtp.auth', 'slimta.smtp.reply')
    n = 0

    def repeated_groups(items, under, out):
        for op, av in items:
            if op in (sc.MAX_REPEAT, sc.MIN_REPEAT) or \
                    str(op) == 'POSSESSIVE_REPEAT':
                lo, hi, sub = av
                repeated_groups(sub, under or hi > 1, out)
            elif op is sc.SUBPATTERN:
                gno, sub = av[0], av[-1]
                if gno is not None and under:
                    out.append(gno)
                repeated_groups(sub, under, out)
            elif op is sc.BRANCH:
                for alt in av[1]:
                    repeated_groups(alt, under, out)
            elif op in (sc.ASSERT, sc.ASSERT_NOT):
                repeated_groups(av[1], under, out)
            elif str(op) == 'ATOMIC_GROUP':
                repeated_groups(av, under, out)
            elif op is sc.GROUPREF_EXISTS:
                for alt in av[1:]:
                    if alt is not None:
                        repeated_groups(alt, under, out)
    for mn in mods:
        m = e.p.modules.get(mn)
        if m is None:
            continue
        for st in m.tree.body:
            if not (isinstance(st, ast.Assign) and
                    isinstance(st.value, ast.Call) and
                    ast.unparse(st.value.func) == 're.compile' and
                    st.value.args and
                    isinstance(st.value.args[0], ast.Constant)):
                continue
            name = ast.unparse(st.targets[0])
            got = rx.module_pattern(e, mn, name)
            if got is None:
                continue
            try:
                items = rx.parse(got[0], got[1])
            except Exception as exc:
                rep.error('cannot parse %s.%s: %s' % (mn, name, exc))
                continue
            n += 1
            rep.evaluations += 1
            out = []
            repeated_groups(items, False, out)
            # groups nobody reads may repeat (validation-only patterns):
            # what is read off a match of THIS pattern
            read, every = set(), False
            for fn in ast.walk(m.tree):
                if not isinstance(fn, (ast.FunctionDef, ast.Module)):
                    continue
                vs = set()
                for y in ast.walk(fn):
                    src = None
                    if isinstance(y, ast.Assign):
                        src, tg = y.value, y.targets
                    elif isinstance(y, ast.NamedExpr):
                        src, tg = y.value, [y.target]
                    elif isinstance(y, (ast.For, ast.comprehension)):
                        src, tg = y.iter, [y.target]
                    if isinstance(src, ast.Call) and \
                            isinstance(src.func, ast.Attribute) and \
                            isinstance(src.func.value, ast.Name) and \
                            src.func.value.id == name:
                        if src.func.attr in ('findall', 'split', 'sub',
                                             'subn'):
                            every = True
                        vs |= {t.id for t in tg if isinstance(t, ast.Name)}
                    elif isinstance(y, ast.Call) and \
                            isinstance(y.func, ast.Attribute) and \
                            isinstance(y.func.value, ast.Name) and \
                            y.func.value.id == name and \
                            y.func.attr in ('findall', 'split', 'sub',
                                            'subn'):
                        every = True
                for y in ast.walk(fn):
                    if isinstance(y, ast.Call) and \
                            isinstance(y.func, ast.Attribute) and \
                            isinstance(y.func.value, ast.Name) and \
                            y.func.value.id in vs:
                        if y.func.attr == 'group':
                            for a0 in y.args:
                                if isinstance(a0, ast.Constant):
                                    read.add(a0.value)
                                else:
                                    every = True
                        elif y.func.attr in ('groups', 'groupdict',
                                             'expand'):
                            every = True
            if not every:
                out = [g0 for g0 in out if g0 in read]
            rep.check(not out, 'X20', '%s.%s' % (mn, name),
                      'no capture group of `%s` is repeated' % name,
                      'group %s of %s stands under a repetition: every '
                      'repetition overwrites what the one before captured, '
                      'so .group(%s) is the LAST piece only - of an '
                      'extension line with several parameters (`AUTH PLAIN '
                      'LOGIN`) or a command with several arguments all but '
                      'the last are dropped without an error: the client '
                      'does not see the extensions the server advertised'
                      % (out[0] if out else '', name,
                         out[0] if out else ''),
                      loc='%s:%d' % (m.relpath, st.lineno),
                      reason='capture groups are matched at most once')
    if n < 6:
        rep.error('anchor vanished: compiled patterns of the SMTP modules '
                  '(%d < 6)' % n)
