"""C11 - a relay reports success only for recipients the next hop accepted.

N1 result-kind contract: what Relay.attempt can *return* is None | Reply |
   mapping | sequence - never an exception object (the queue's dispatch treats
   any other returned value as success)
N2 no unchecked reply: every Reply obtained from a Client command in the relay
   client is examined (or falls under an exemption with a reason)
N3 success is reachable only under positive acceptance
N4 classification: permanent errors only under a 5xx-class fact, transient
   otherwise; DNS errors transient, "no usable records" permanent
N5 every anticipated failure resolves the request with a relay error
   (typestate, rules/pool.py)
N6 subprocess output is handled as what it is (bytes) before it is compared
   or put into a Reply
"""
from __future__ import annotations

import ast
from typing import List

from ..engine import Engine
from ..report import Report
from ..cfg import Node, TIMEOUT
from ..facts import path_of, canon, holds, atoms_of_test
from ..kinds import Kinds, KindFlow, show, U, ks
from ..model import walk_own
from ..resolve import Ctx
from .. import dataflow
from . import common, pool, c07

RELAY = 'slimta.relay.Relay'
PERM = 'slimta.relay.PermanentRelayError'
TRANS = 'slimta.relay.TransientRelayError'
SMTPC = 'slimta.relay.smtp.client.SmtpRelayClient'
CLIENT = 'slimta.smtp.client.Client'

CLIENT_COMMANDS = {'get_banner', 'ehlo', 'helo', 'lhlo', 'starttls', 'auth',
                   'mailfrom', 'rcptto', 'data', 'send_data',
                   'send_empty_data', 'rset', 'quit', 'get_reply',
                   'custom_command'}
# (relay-client method, client command) -> reason the reply may be ignored
N2_EXEMPT = {
    ('_rset', 'rset'): 'best effort after a failure; the next command '
                       'reveals a dead connection',
    ('_disconnect', 'quit'): 'connection is closed regardless of the reply',
    ('_send_empty_data', 'send_empty_data'): 'closes an already failed '
                                             'transaction',
    ('_check_server_timeout', 'get_reply'): 'any unsolicited reply means '
                                            'the server gave up',
}


def run(e: Engine, rep: Report):
    rep.rule('N1', 'Relay.attempt (all implementations) and every '
             'AsyncResult.set(x) of a pool client produce only None | Reply '
             '| Dict | sequence kinds at top level')
    rep.rule('N2', 'every reply of a Client command issued by the relay '
             'client is used (tested, returned or handed to a checker); '
             '_check_replies tests each of its parameters')
    rep.rule('N3', 'success results are set/returned only under positive '
             'acceptance facts')
    rep.rule('N4', 'permanent vs transient classification follows the reply '
             'class / exit status / resolver outcome')
    rep.rule('N8', 'no malformed reply turns into a non-relay exception: the '
             'code group of reply_line_pattern is included, position by '
             'position, in code_pattern (regex syntax trees)')
    rep.rule('N6', 'bytes from the subprocess are not compared with str '
             'literals nor put into a Reply undecoded')
    rep.rule('N7', 'a per-recipient result mapping built by a relay is '
             'total over envelope.recipients on every path that returns it')
    rep.tables.add('c11.N2_EXEMPT')
    rep.tables.add('c11.DNS_DEFINITIVE_NEGATIVE')
    rep.not_decided += ['what a real peer sends', 'enumeration of downstream '
                        'scripts as executions', 'HTTP 4xx->permanent / '
                        '5xx->transient mapping (HTTP semantics, pinned by '
                        'unit tests)']
    K = Kinds(e)
    n1(e, rep, K)
    n2(e, rep)
    n3(e, rep, K)
    n4(e, rep, K)
    pool.request_typestate(e, rep, 'N5')
    n6(e, rep, K)
    n7(e, rep, 'N7')
    n4_catch_all(e, rep)
    n4_dns(e, rep)
    n8(e, rep)
    rep.rule('N9', 'the pass over envelope.recipients that sends RCPT runs '
             'to completion: no break / return / filter, one RCPT per '
             'recipient')
    n9(e, rep)
    n10(e, rep)
    n11(e, rep)
    n12(e, rep)
    n13(e, rep)
    n14(e, rep)
    n15(e, rep)
    n16(e, rep)
    n17(e, rep)
    n18(e, rep)
    n19(e, rep)
    n20(e, rep)
    from . import c19 as _c19
    common.reuse(e, rep, _c19.l7, 'N21',
                 '= C19-L7: a connection is re-used only after the '
                 'clean-up RSET was answered (an unanswered RSET left '
                 'behind shifts every reply of the next message by one: a '
                 'refusal is reported as a delivery)', only={'L7'})
    rep.rule('N22', 'what the peer advertised is turned into a number '
             'only where a bad value is expected: an int() / float() of an '
             'extension parameter (getparam without a filter, '
             'extensions[...]) in the SMTP client or the relay clients lies '
             'in a try that takes ValueError and TypeError - `SIZE` without '
             'a value (RFC 1870) gives None, and the TypeError of int(None) '
             'is neither a result nor a relay error')
    n22(e, rep)
    rep.rule('N23', 'a domain is declared to have no usable records (the '
             'permanent 550 5.1.2) on the resolver\'s answer alone: the '
             'test that guards `raise ValueError` in MxRecord.get reads the '
             'cached answer itself, not a list narrowed by something that '
             'changes at run time (hosts that were down a moment ago, the '
             'attempt number) - a domain whose exchangers are all '
             'momentarily unreachable is a transient failure')
    n23(e, rep)
    rep.rule('N24', 'which output stream of the delivery program is quoted '
             '(and read for its leading 5.X.X) is chosen on the text with '
             'the white space taken off: in the raise_error methods of the '
             'pipe relays no `or` chain has the raw stdout / stderr parameter '
             'as an operand that another operand follows (a program that '
             'prints a blank line on stdout and "5.1.1 ..." on stderr is '
             'otherwise answered from the blank stream: the permanent '
             'failure is reported as a transient one)')
    n24(e, rep)
    rep.floor('N1', 9, 'relay implementations / set sites')
    rep.floor('N2', 12, 'client command sites')


def bad_top_kinds(kinds):
    return [k for k in kinds if isinstance(k, tuple) and k[0] == 'exc']


# -------------------------------------------------------------------- N1
def n1(e: Engine, rep: Report, K: Kinds):
    for c in e.concrete_classes(RELAY):
        if c == RELAY:
            continue
        ctx = e.method_ctx(c, 'attempt')
        kinds = K.return_kinds(ctx)
        rep.evaluations += 1
        rep.functions.add(ctx.func.qname)
        where = '%s[%s]' % (ctx.func.qname, c.rpartition('.')[2])
        bad = bad_top_kinds(kinds)
        w = None
        if bad:
            w = explain_return(e, K, ctx)
        rep.check(not bad, 'N1', where, 'return kinds of attempt()',
                  'attempt() can *return* a failure object (%s): '
                  'Queue._attempt treats any returned non-mapping value as '
                  'success and removes the message' % show(frozenset(bad)),
                  reason='returns ' + show(kinds), loc=ctx.func.loc(),
                  witness=w)
    K.async_set_kinds()
    for ctx, n, kinds in K.set_sites:
        rep.evaluations += 1
        bad = bad_top_kinds(kinds)
        rep.check(not bad, 'N1', ctx.func.qname,
                  'result.set(...) value kinds',
                  'a pool client resolves a request with set(<exception '
                  'object>) instead of set_exception(): the failure is '
                  'returned as a success', reason='sets ' + show(kinds),
                  loc=n.loc())
    if len(K.set_sites) < 2:
        rep.error('anchor vanished: AsyncResult.set sites (%d < 2)'
                  % len(K.set_sites))


def explain_return(e: Engine, K: Kinds, ctx: Ctx, depth=0) -> List[str]:
    """Which return statement(s) carry the exception kind (recursively)."""
    out = []
    g = e.build(ctx)
    flow = KindFlow(K, g)
    for n in g.of_kind('stmt'):
        if isinstance(n.ast, ast.Return) and n.ast.value is not None and \
                flow.IN.get(n.id) is not None:
            kk = flow.eval_at(n, n.ast.value)
            if bad_top_kinds(kk):
                out.append('%s %s: %s  [%s]' % (n.loc(), ctx.func.name,
                                                n.text(60), show(kk)))
                if isinstance(n.ast.value, ast.Call) and depth < 4:
                    res = e.r.resolve_call(n.ast.value, ctx)
                    for t in res.targets:
                        out.extend(explain_return(e, K, t.ctx(), depth + 1))
    return out


# -------------------------------------------------------------------- N2
def n2(e: Engine, rep: Report):
    for cq in e.concrete_classes(SMTPC):
        short = cq.rpartition('.')[2]
        c = e.p.classes[cq]
        seen = set()
        for k in e.p.mro(cq):
            kc = e.p.classes.get(k)
            if kc is None or not k.startswith('slimta.relay'):
                continue
            for mname, m in kc.methods.items():
                if mname in seen:
                    continue
                seen.add(mname)
                if e.p.lookup_method(cq, mname) is not m:
                    continue
                ctx = Ctx(m, cq)
                check_reply_uses(e, rep, ctx, short)
    # _check_replies tests every parameter
    for cq in e.concrete_classes(SMTPC):
        ctx = e.method_ctx(cq, '_check_replies')
        if ctx.func.cls.qname != cq and cq != SMTPC:
            continue
        g = e.build(ctx, inline=e.inline_same_self(), max_depth=3)
        fid = g.entry.frame.id
        prms = ctx.func.params[1:]

        def cpath(x, fr):
            # (a helper's parameter stands for what it was given)
            try:
                return canon(x, fr)
            except Exception:
                return path_of(x, fr)

        def examined(n):
            """parameters whose reply (or an element iterated from it) this
            test node asks is_error() of"""
            out = set()
            for prm in prms:
                pth = '%s#%d' % (prm, fid)
                iter_vars = {pth}
                for lp in g.of_kind('iter'):
                    if path_of(lp.ast.iter, lp.frame) == pth:
                        for el in ast.walk(lp.ast.target):
                            if isinstance(el, ast.Name):
                                iter_vars.add(path_of(el, lp.frame))
                t = n.ast
                if isinstance(t, ast.Call) and \
                        isinstance(t.func, ast.Attribute) and \
                        t.func.attr == 'is_error' and \
                        cpath(t.func.value, n.frame) in iter_vars:
                    out.add(prm)
                # any(r.is_error() for r in prm) / all(...) / a filtering
                # comprehension over the parameter
                for cx in ast.walk(n.ast):
                    if isinstance(cx, (ast.GeneratorExp, ast.ListComp,
                                       ast.SetComp)):
                        vs = set()
                        for gen in cx.generators:
                            if path_of(gen.iter, n.frame) == pth:
                                vs |= {x.id for x in ast.walk(gen.target)
                                       if isinstance(x, ast.Name)}
                        if vs and any(
                                isinstance(y, ast.Call) and
                                isinstance(y.func, ast.Attribute) and
                                y.func.attr == 'is_error' and
                                isinstance(y.func.value, ast.Name) and
                                y.func.value.id in vs
                                for y in ast.walk(cx)):
                            out.add(prm)
            return out
        tests = {n.id: examined(n) for n in g.of_kind('test')}
        for prm in prms:
            rep.evaluations += 1
            tested = any(prm in v for v in tests.values())
            rep.check(tested, 'N2', ctx.func.qname,
                      'parameter `%s` is tested with is_error()' % prm,
                      'the %s reply is handed to _check_replies but never '
                      'examined there: a rejection at that stage is '
                      'reported as success' % prm,
                      reason='is_error() test present', loc=ctx.func.loc())
        # the replies are examined in the order the commands were sent
        # (the parameter order): the error that is raised is that of the
        # first stage that failed
        before = dataflow.must_events_before(
            g, lambda n: ['seen:' + q for q in tests.get(n.id, ())]
            if n.kind == 'test' else [])
        for a, b in zip(prms, prms[1:]):
            for n in g.of_kind('test'):
                if b not in tests.get(n.id, ()):
                    continue
                rep.evaluations += 1
                st = before.get(n.id)
                rep.check(st is None or ('seen:' + a) in st, 'N2',
                          ctx.func.qname,
                          '`%s` is examined after `%s`' % (b, a),
                          'the %s reply is examined before the %s reply: '
                          'when both stages failed the relay error is built '
                          'from the later stage\'s reply (wrong class / '
                          'wrong recipient verdict)' % (b, a),
                          loc=n.loc(), reason='stage order mailfrom, '
                          'rcpttos, data')


def check_reply_uses(e: Engine, rep: Report, ctx: Ctx, short: str):
    f = ctx.func
    where = '%s[%s]' % (f.qname, short)
    # locals that stand for self.client
    alias = {t.id for a in walk_own(f.node) if isinstance(a, ast.Assign) and
             ast.unparse(a.value) == 'self.client'
             for t in a.targets if isinstance(t, ast.Name)}

    def is_client(x):
        return ast.unparse(x) == 'self.client' or (
            isinstance(x, ast.Name) and x.id in alias)

    def command_of(x):
        """the client command whose reply the expression x evaluates to:
        self.client.cmd(...), or a bound self.client.cmd / a lambda / a
        nested function returning such a reply, run by a helper of this
        object that hands back what the callable returned"""
        if not isinstance(x, ast.Call):
            return None
        if isinstance(x.func, ast.Attribute) and \
                x.func.attr in CLIENT_COMMANDS and is_client(x.func.value):
            return x.func.attr
        fw = _forwarders(e, ctx.self_cls)
        if isinstance(x.func, ast.Attribute) and \
                isinstance(x.func.value, ast.Name) and \
                x.func.value.id == 'self' and x.func.attr in fw:
            i = fw[x.func.attr]
            if i < len(x.args):
                c = x.args[i]
                if isinstance(c, ast.Attribute) and \
                        c.attr in CLIENT_COMMANDS and is_client(c.value):
                    return c.attr
                if isinstance(c, ast.Lambda):
                    return command_of(c.body)
                if isinstance(c, ast.Name):
                    # a nested function that returns the reply
                    for d in ast.walk(f.node):
                        if isinstance(d, ast.FunctionDef) and \
                                d.name == c.id and d is not f.node:
                            for r in ast.walk(d):
                                if isinstance(r, ast.Return) and \
                                        r.value is not None:
                                    v = r.value
                                    if isinstance(v, ast.Name):
                                        for a in ast.walk(d):
                                            if isinstance(a, ast.Assign) \
                                                    and any(
                                                    isinstance(t, ast.Name)
                                                    and t.id == v.id
                                                    for t in a.targets):
                                                v = a.value
                                    cmd = command_of(v)
                                    if cmd:
                                        return cmd
        return None
    sites = []
    cmd_of = {}
    for n in walk_own(f.node):
        if isinstance(n, ast.Call):
            cmd = command_of(n)
            if cmd:
                sites.append(n)
                cmd_of[id(n)] = cmd
    if not sites:
        return
    rep.functions.add(f.qname)
    parents = {}
    for n in ast.walk(f.node):
        for c in ast.iter_child_nodes(n):
            parents[id(c)] = n
    for call in sites:
        rep.evaluations += 1
        cmd = cmd_of[id(call)]
        text = 'reply of client.%s() in %s' % (cmd, f.name)
        ex = N2_EXEMPT.get((f.name, cmd))
        par = parents.get(id(call))
        used = False
        how = ''
        if isinstance(par, ast.Return):
            used, how = True, 'returned to the caller'
        elif isinstance(par, ast.Assign) and len(par.targets) == 1 and \
                isinstance(par.targets[0], ast.Name):
            v = par.targets[0].id
            for n in walk_own(f.node):
                if isinstance(n, ast.Name) and n.id == v and \
                        isinstance(n.ctx, ast.Load):
                    p2 = parents.get(id(n))
                    # v.is_error() / v.code / return v / passed on
                    if isinstance(p2, ast.Attribute) and \
                            p2.attr in ('is_error', 'code'):
                        used, how = True, 'tested via .%s' % p2.attr
                    elif isinstance(p2, (ast.Return, ast.Call)):
                        used, how = True, 'returned / passed on'
                    elif isinstance(p2, ast.BoolOp):
                        used = used or False
        elif isinstance(par, ast.Expr):
            used = False
        else:
            used, how = True, 'used in an expression'
        if used:
            rep.ok('N2', where, text, reason=how, loc=f.loc(call))
        elif ex:
            rep.exempt('N2', where, text, ex, loc=f.loc(call))
        else:
            rep.bad('N2', where, text,
                    'the reply of %s is discarded (or stored and never '
                    'examined): a rejection at this stage goes unnoticed '
                    'and the attempt can still report success' % cmd,
                    loc=f.loc(call))


_FW_CACHE = {}


def _forwarders(e: Engine, cq: str):
    """{method name: position (after self) of a callable parameter whose
    result the method hands back} - `return func(*args)` possibly under a
    timeout, or through another such method"""
    key = (id(e), cq)
    if key in _FW_CACHE:
        return _FW_CACHE[key][1]
    meths = {}
    for k in e.p.mro(cq):
        c = e.p.classes.get(k)
        if c is None:
            continue
        for nm, m in c.methods.items():
            meths.setdefault(nm, m)
    out = {}
    changed = True
    while changed:
        changed = False
        for nm, m in meths.items():
            if nm in out:
                continue
            # (a static method has no receiver in front)
            params = m.params[1:] if m.params[:1] in (['self'], ['cls']) \
                else list(m.params)
            for r in walk_own(m.node):
                if not (isinstance(r, ast.Return) and
                        isinstance(r.value, ast.Call)):
                    continue
                c = r.value
                if isinstance(c.func, ast.Name) and c.func.id in params:
                    out[nm] = params.index(c.func.id)
                    changed = True
                elif isinstance(c.func, ast.Attribute) and \
                        isinstance(c.func.value, ast.Name) and \
                        c.func.value.id == 'self' and c.func.attr in out:
                    i = out[c.func.attr]
                    if i < len(c.args) and isinstance(c.args[i], ast.Name) \
                            and c.args[i].id in params:
                        out[nm] = params.index(c.args[i].id)
                        changed = True
    _FW_CACHE[key] = (e, out)
    return out


def _peer_talkers(e: Engine, cq: str):
    """Names of the methods of class cq (inherited ones included) that
    talk to the peer: they use self.client / self.io / self.socket, or call
    such a method on self."""
    meths = {}
    for k in e.p.mro(cq):
        c = e.p.classes.get(k)
        if c is None:
            continue
        for nm, m in c.methods.items():
            meths.setdefault(nm, m)
    talk = set()
    for nm, m in meths.items():
        src = ast.unparse(m.node)
        if 'self.client.' in src or 'self.io.' in src or \
                'self.socket.' in src:
            talk.add(nm)
    changed = True
    while changed:
        changed = False
        for nm, m in meths.items():
            if nm in talk:
                continue
            for x in walk_own(m.node):
                if isinstance(x, ast.Call) and \
                        isinstance(x.func, ast.Attribute) and \
                        isinstance(x.func.value, ast.Name) and \
                        x.func.value.id == 'self' and x.func.attr in talk:
                    talk.add(nm)
                    changed = True
                    break
    return talk


# -------------------------------------------------------------------- N3
def n3(e: Engine, rep: Report, K: Kinds):
    # (a) SMTP/LMTP _deliver: result.set unreachable from exception arms
    for cq in e.concrete_classes(SMTPC):
        short = cq.rpartition('.')[2]
        ctx = e.method_ctx(cq, '_deliver')

        def resolves_request(builder, call, target, frame):
            # helpers of the same object that resolve the request
            # themselves are looked into; the protocol steps are not
            # (nor is a helper that only strings the stages together)
            STAGES = ('_send_envelope', '_send_message_data')
            if not (target.recv_is_self and frame.self_same) or \
                    target.func.name in STAGES:
                return False
            return any(
                isinstance(x, ast.Attribute) and isinstance(x.ctx, ast.Load)
                and (x.attr == 'set' or (
                    x.attr in STAGES and isinstance(x.value, ast.Name) and
                    x.value.id == 'self'))
                for x in ast.walk(target.func.node))
        g = e.build(ctx, inline=resolves_request,
                    raises=pool.make_raises(e), assert_raises=False)
        where = '%s[%s]' % (ctx.func.qname, short)
        rep.functions.add(ctx.func.qname)
        sets = [n for n in g.nodes if n.kind == 'call' and
                e.call_name(n) == 'set' and
                isinstance(n.ast.func, ast.Attribute)]
        hs = g.of_kind('handler')
        if not sets:
            rep.error('anchor vanished: result.set in %s' % where)
        for s in sets:
            rep.evaluations += 1
            bad = None
            for h in hs:
                pth = dataflow.find_path(g, h, lambda x: x is s)
                if pth:
                    bad = pth
                    break
            rep.check(bad is None, 'N3', where,
                      'result.set(...) not reachable from a failure arm',
                      'the success result is set on a path that went '
                      'through an exception handler of _deliver', loc=s.loc(),
                      reason='only on the exception-free path',
                      witness=dataflow.render_path(bad) if bad else None)
        # the stages precede the success: envelope and data both sent
        before = dataflow.must_events_before(
            g, lambda n: [e.call_name(n)] if n.kind in ('call', 'call_enter')
            and e.call_name(n) in ('_send_envelope', '_send_message_data')
            else [])
        for s in sets:
            st = before.get(s.id) or frozenset()
            rep.check({'_send_envelope', '_send_message_data'} <= set(st),
                      'N3', where, 'success only after envelope and data '
                      'were sent', 'result.set(...) is reachable without '
                      'both _send_envelope and _send_message_data having '
                      'completed', loc=s.loc(),
                      reason='both stages dominate the success')
        # once the server's verdicts are in, the request is resolved before
        # any further protocol step: a fault in such a step would replace the
        # verdicts by one failure for the whole envelope
        datas = [n for n in g.calls()
                 if e.call_name(n) == '_send_message_data']
        for s in sets:
            for d in datas:
                rep.evaluations += 1

                talkers = _peer_talkers(e, cq)

                def io_step(x):
                    return x.kind == 'call' and x is not s and \
                        isinstance(x.ast.func, ast.Attribute) and \
                        isinstance(x.ast.func.value, ast.Name) and \
                        x.ast.func.value.id == 'self' and \
                        x.ast.func.attr in talkers
                pth = dataflow.find_path(
                    g, d, lambda x: x is s,
                    edge_ok=lambda a, l, s2: not isinstance(l, tuple))
                hit = None
                if pth:
                    hit = [x for x, _ in pth[1:] if io_step(x)]
                    if not hit:
                        # any path, not only the shortest
                        fwd = dataflow.reachable(
                            g, d, lambda a, l, s2: not isinstance(l, tuple)
                            and a is not s)
                        hit = [x for x in g.nodes if x.id in fwd and
                               io_step(x) and x is not d and s.id in
                               dataflow.reachable(
                                   g, x, lambda a, l, s2:
                                   not isinstance(l, tuple))]
                rep.check(not hit, 'N3', where,
                          'the request is resolved before any further '
                          'protocol step',
                          'between the reply to the message data and '
                          'result.set(...) the client runs `%s`: when that '
                          'step fails (connection lost, timeout) the '
                          'per-recipient verdicts already received are '
                          'discarded and the whole envelope is reported as '
                          'one transient failure - a recipient the server '
                          'rejected for good is retried, an accepted one is '
                          'reported failed' % (hit[0].text(40) if hit
                                               else ''),
                          loc=s.loc(), reason='no self._step() between the '
                          'data reply and result.set')
        # entries are overwritten only where nothing was recorded / only with
        # what the server said
        fx = e.facts(g)
        flow = KindFlow(K, g)
        for n in g.of_kind('stmt'):
            if not (isinstance(n.ast, ast.Assign) and
                    isinstance(n.ast.targets[0], ast.Subscript)):
                continue
            tgt = n.ast.targets[0]
            base = path_of(tgt.value, n.frame)
            if not base or not base.startswith('rcpt_results'):
                continue
            rep.evaluations += 1
            st = fx.at(n) or frozenset()
            vk = flow.eval_at(n, n.ast.value)
            is_exc = bool(bad_top_kinds(vk))
            if is_exc:
                ok = any(p and k.endswith('.is_error()') for p, k in st)
                rep.check(ok, 'N3', where, 'failure entry only for an error '
                          'reply: ' + n.text(50),
                          'a recipient is marked failed without an '
                          'is_error() reply', loc=n.loc(),
                          reason='dominated by reply.is_error()')
            else:
                ok = any((p and k.endswith(' is None')) or
                         (not p and k.endswith('.is_error()'))
                         for p, k in st)
                if not ok:
                    # written for the keys picked out beforehand:
                    #   open = [k for k, v in table.items() if v is None]
                    #   for k in open: table[k] = ...
                    fnode = n.frame.ctx.func.node
                    for lp in walk_own(fnode):
                        if not (isinstance(lp, ast.For) and
                                isinstance(lp.iter, ast.Name) and
                                isinstance(lp.target, ast.Name) and
                                any(x is n.ast for x in ast.walk(lp)) and
                                isinstance(tgt.slice, ast.Name) and
                                tgt.slice.id == lp.target.id):
                            continue
                        ds = [a.value for a in walk_own(fnode)
                              if isinstance(a, ast.Assign) and any(
                                  isinstance(t, ast.Name) and
                                  t.id == lp.iter.id for t in a.targets)]
                        if len(ds) == 1 and isinstance(
                                ds[0], (ast.ListComp, ast.GeneratorExp,
                                        ast.SetComp)) and \
                                len(ds[0].generators) == 1:
                            gen = ds[0].generators[0]
                            it = gen.iter
                            tgl = gen.target
                            if isinstance(it, ast.Call) and \
                                    isinstance(it.func, ast.Attribute) and \
                                    it.func.attr == 'items' and \
                                    ast.unparse(it.func.value) == \
                                    ast.unparse(tgt.value) and \
                                    isinstance(tgl, ast.Tuple) and \
                                    len(tgl.elts) == 2 and \
                                    isinstance(ds[0].elt, ast.Name) and \
                                    isinstance(tgl.elts[0], ast.Name) and \
                                    ds[0].elt.id == tgl.elts[0].id and \
                                    isinstance(tgl.elts[1], ast.Name) and \
                                    len(gen.ifs) == 1 and \
                                    ast.unparse(gen.ifs[0]) == \
                                    '%s is None' % tgl.elts[1].id:
                                ok = True
                rep.check(ok, 'N3', where, 'success entry only where no '
                          'failure was recorded: ' + n.text(50),
                          'a per-recipient result is overwritten with a '
                          'success value although a failure may be recorded '
                          'for it', loc=n.loc(),
                          reason='dominated by `value is None` / not '
                          'is_error()')
    # (b) _send_envelope records per-recipient rejections
    ctx = e.method_ctx(SMTPC, '_send_envelope')
    g = e.build(ctx, inline=e.inline_same_self(deny=_peer_talkers(e, SMTPC)),
                max_depth=3)
    fx = e.facts(g)
    flow = KindFlow(K, g)
    where = ctx.func.qname
    found = 0
    # the functional spelling: {rcpt: failure for ... if reply.is_error()}
    for fr, comp, key, val, guards in common.comp_entry_writes(g):
        vk = K.eval(val, fr.ctx, None, fr)
        if not bad_top_kinds(vk):
            continue
        found += 1
        rep.evaluations += 1
        rep.check(any(p and k.endswith('.is_error()') for p, k in guards),
                  'N3', where, 'rejected RCPT recorded as failure',
                  'per-recipient failure recorded without an is_error() '
                  'test', loc=fr.ctx.func.loc(comp),
                  reason='comprehension filtered by rcpt_reply.is_error()')
    for n in g.of_kind('stmt'):
        if isinstance(n.ast, ast.Assign) and \
                isinstance(n.ast.targets[0], ast.Subscript) and \
                bad_top_kinds(flow.eval_at(n, n.ast.value)):
            found += 1
            st = fx.at(n) or frozenset()
            rep.evaluations += 1
            rep.check(any(p and k.endswith('.is_error()') for p, k in st),
                      'N3', where, 'rejected RCPT recorded as failure',
                      'per-recipient failure recorded without an is_error() '
                      'test', loc=n.loc(),
                      reason='dominated by rcpt_reply.is_error()')
    rep.check(found > 0, 'N3', where, 'rejected recipients are recorded',
              '_send_envelope never records a per-recipient failure: a '
              'rejected RCPT is reported with the message result (success)',
              reason='failure entry written under is_error()',
              loc=ctx.func.loc())
    # (c) HTTP: result.set only under a 2xx status
    ctx = e.method_ctx('slimta.relay.http.HttpRelayClient',
                       '_process_response')
    g = e.build(ctx)
    fx = e.facts(g)
    where = ctx.func.qname
    rep.functions.add(where)
    sets = [n for n in g.nodes if n.kind == 'call' and
            e.call_name(n) == 'set']
    if not sets:
        rep.error('anchor vanished: result.set in _process_response')
    for s in sets:
        rep.evaluations += 1
        st = fx.at(s) or frozenset()
        ok = any(p and ".startswith('2')" in k for p, k in st)
        rep.check(ok, 'N3', where, 'HTTP success only for a 2xx status',
                  'result.set(...) is reachable for a non-2xx HTTP status',
                  loc=s.loc(), reason="dominated by status.startswith('2')")
    # (d) pipe: None only for exit status 0
    for cq in e.concrete_classes('slimta.relay.pipe.PipeRelay'):
        short = cq.rpartition('.')[2]
        ctx = e.method_ctx(cq, '_exec_process')
        g = e.build(ctx, inline=e.inline_same_self(),
                    raises=pool.make_raises(e), assert_raises=False)
        fx = e.facts(g)
        flow = KindFlow(K, g)
        where = '%s[%s]' % (ctx.func.qname, short)
        rep.functions.add(ctx.func.qname)
        live = dataflow.reachable(g)

        def final_returns(frame, depth=0):
            """return statements that decide what the root returns: a
            `return helper(...)` of an inlined helper is decided by the
            helper's own returns"""
            out = []
            for n in g.of_kind('stmt'):
                if not isinstance(n.ast, ast.Return) or \
                        n.frame is not frame or n.id not in live or \
                        fx.at(n) is None:
                    continue
                v = n.ast.value
                kids = [c for c in frame.children if c.call is v] \
                    if isinstance(v, ast.Call) else []
                if kids and depth < 4:
                    for c in kids:
                        out += final_returns(c, depth + 1)
                else:
                    out.append(n)
            return out
        rets = final_returns(g.entry.frame)
        if not rets:
            rep.error('anchor vanished: return in %s' % where)
        for n in rets:
            kk = flow.eval_at(n, n.ast.value) if n.ast.value is not None \
                else ks('None')
            if 'None' not in kk:
                continue
            rep.evaluations += 1
            st = fx.at(n) or frozenset()
            ok = any(('.returncode' in k) and
                     ((not p and k.endswith(' != 0')) or
                      (p and k.endswith(' == 0')) or
                      # `not p.returncode` / `if p.returncode: ...`
                      (not p and k.endswith('.returncode')))
                     for p, k in st)
            w = None
            if not ok:
                pth = dataflow.find_path(g, g.entry, lambda x: x is n)
                w = dataflow.render_path(pth) if pth else None
            rep.check(ok, 'N3', where, 'None (success) only for exit '
                      'status 0', 'the pipe relay can report success for a '
                      'non-zero exit status', loc=n.loc(),
                      reason='dominated by returncode == 0', witness=w)


# -------------------------------------------------------------------- N4
def n4(e: Engine, rep: Report, K: Kinds):
    p = e.p
    # SmtpRelayError.factory
    ctx = e.ctx('slimta.relay.smtp.SmtpRelayError.factory')
    g = e.build(ctx)
    fx = e.facts(g)
    flow = KindFlow(K, g)
    where = ctx.func.qname
    rep.functions.add(where)
    saw = set()
    for n in g.of_kind('stmt'):
        if not isinstance(n.ast, ast.Return) or n.ast.value is None:
            continue
        kk = flow.eval_at(n, n.ast.value)
        st = fx.at(n) or frozenset()
        five = [(pp, k) for pp, k in st if k.endswith(".code[0] == '5'")]
        for k in kk:
            if not (isinstance(k, tuple) and k[0] == 'exc'):
                continue
            rep.evaluations += 1
            if p.is_subclass(k[1], PERM):
                saw.add('perm')
                rep.check(any(pp for pp, _ in five), 'N4', where,
                          'permanent error only for a 5xx reply',
                          'a non-5xx reply is classified as a permanent '
                          'failure (the message bounces instead of being '
                          'retried)', loc=n.loc(),
                          reason="dominated by code[0] == '5'")
            elif p.is_subclass(k[1], TRANS):
                saw.add('trans')
                rep.check(any(not pp for pp, _ in five), 'N4', where,
                          'transient error only for a non-5xx reply',
                          'a 5xx reply is classified as transient (retried '
                          'forever instead of bounced)', loc=n.loc(),
                          reason="dominated by code[0] != '5'")
    if saw != {'perm', 'trans'}:
        rep.bad('N4', where, 'factory produces both classes',
                'SmtpRelayError.factory no longer distinguishes permanent '
                'from transient replies (%s)' % sorted(saw),
                loc=ctx.func.loc())
    # class hierarchy
    for sub, base in (('slimta.relay.smtp.SmtpPermanentRelayError', PERM),
                      ('slimta.relay.smtp.SmtpTransientRelayError', TRANS),
                      ('slimta.relay.smtp.mx.NoDomainError', PERM)):
        rep.evaluations += 1
        p.cls(sub)
        rep.check(p.is_subclass(sub, base) and not p.is_subclass(
            sub, TRANS if base == PERM else PERM), 'N4', sub,
            'is a %s' % base.rpartition('.')[2],
            '%s is not (only) a %s: the queue dispatches on these base '
            'classes' % (sub, base), reason='class hierarchy')
    # MX: resolver outcome mapping
    ctx = e.method_ctx('slimta.relay.smtp.mx.MxSmtpRelay', 'attempt')
    g = e.build(ctx, inline=e.inline_same_self(), max_depth=3)
    where = ctx.func.qname
    rep.functions.add(where)
    want = {'slimta.util.dns.DNSError': ('trans', TRANS),
            'builtins.ValueError': ('perm', PERM)}
    for h in g.of_kind('handler'):
        for ty in h.extra.get('types', []):
            if ty not in want:
                continue
            label, base = want.pop(ty)
            inside = [m for m in g.nodes if any(
                sc.kind == 'handler' and sc.ast is h.ast for sc in m.scopes)]
            built = set()
            for m in inside:
                res = m.extra.get('res')
                for cq in (res.ctor_of if res else []):
                    if p.is_subclass(cq, PERM):
                        built.add('perm')
                    elif p.is_subclass(cq, TRANS):
                        built.add('trans')
            raises = [m for m in inside if m.kind == 'stmt' and
                      isinstance(m.ast, ast.Raise)]
            rep.evaluations += 1
            rep.check(built == {label} and bool(raises), 'N4', where,
                      '%s maps to a %s failure' % (ty.rpartition('.')[2],
                                                   'permanent' if
                                                   label == 'perm' else
                                                   'transient'),
                      'the %s arm of MxSmtpRelay.attempt raises %s '
                      'instead of a %s relay error' % (
                          ty.rpartition('.')[2], sorted(built) or 'nothing',
                          'permanent' if label == 'perm' else 'transient'),
                      loc=h.loc(), reason='raises ' + label)
    for ty in want:
        rep.bad('N4', where, '%s arm present' % ty.rpartition('.')[2],
                'MxSmtpRelay.attempt no longer translates %s into a relay '
                'error: another exception type escapes' % ty,
                loc=ctx.func.loc())
    # pipe raise_error overrides
    for cq in e.concrete_classes('slimta.relay.pipe.PipeRelay'):
        ctx = e.method_ctx(cq, 'raise_error')
        if ctx.func.cls.qname != cq:
            continue
        g = e.build(ctx, inline=e.inline_same_self(), max_depth=3)
        fx = e.facts(g)
        where = ctx.func.qname
        rep.functions.add(where)
        classes = set()
        tfv = None
        for k0 in e.p.mro(cq):
            tfv = common.class_constants(e, k0).get('EX_TEMPFAIL', tfv)

        def _is_tempfail(k, tfv=tfv):
            # the named constant, or its value once the canonical form has
            # folded the class-level literal in
            return 'EX_TEMPFAIL' in k or (
                tfv is not None and k.endswith(' == %r' % (tfv,)))
        # a flag computed once (`permanent = <pattern>.match(msg)`) stands
        # for its definition
        flagdefs = {}
        for s2 in g.of_kind('stmt'):
            if isinstance(s2.ast, ast.Assign) and \
                    len(s2.ast.targets) == 1 and \
                    isinstance(s2.ast.targets[0], ast.Name):
                flagdefs.setdefault(path_of(s2.ast.targets[0], s2.frame),
                                    []).append(s2)
        frames = {x.frame.id: x.frame for x in g.nodes}

        def expand(st):
            for _ in range(3):
                for pp, k in list(st):
                    nm, _h, fid = k.rpartition('#')
                    fr = frames.get(int(fid)) if fid.isdigit() and \
                        nm.isidentifier() else None
                    try:
                        if fr is not None and nm in getattr(
                                fr, 'arg_exprs', {}):
                            # a helper's parameter: what it was given
                            ax, afr = fr.arg_exprs[nm]
                            st.update(atoms_of_test(ax, pp, afr))
                        ds = flagdefs.get(k)
                        if ds and len(ds) == 1:
                            st.update(atoms_of_test(ds[0].ast.value, pp,
                                                    ds[0].frame))
                        if k.endswith(' is None'):
                            # `m = <pattern>.match(x)` ... `m is not None`:
                            # a match object is truthy
                            ds = flagdefs.get(k[:-len(' is None')])
                            v = ds[0].ast.value if ds and len(ds) == 1 \
                                else None
                            if isinstance(v, ast.Call) and \
                                    isinstance(v.func, ast.Attribute) and \
                                    v.func.attr in ('match', 'search',
                                                    'fullmatch'):
                                st.update(atoms_of_test(v, not pp,
                                                        ds[0].frame))
                    except Exception:
                        pass
            return st

        def judge(toks, st, n):
            for t in toks:
                rep.evaluations += 1
                if p.is_subclass(t, TRANS):
                    classes.add('trans')
                    if cq.endswith('PipeRelay'):
                        ok = any(not pp and '_permanent_error_pattern' in k
                                 for pp, k in st)
                        cond = 'output without a 5.x.x prefix'
                    else:
                        ok = any(pp and _is_tempfail(k) for pp, k in st)
                        cond = 'exit status EX_TEMPFAIL'
                    rep.check(ok, 'N4', where, 'transient only for ' + cond,
                              'TransientRelayError is raised outside its '
                              'condition (%s)' % cond, loc=n.loc(),
                              reason='guard dominates')
                elif p.is_subclass(t, PERM):
                    classes.add('perm')
                    if cq.endswith('PipeRelay'):
                        ok = any(pp and '_permanent_error_pattern' in k
                                 for pp, k in st)
                        cond = 'output with a 5.x.x prefix'
                    else:
                        ok = any(not pp and _is_tempfail(k)
                                 for pp, k in st)
                        cond = 'an exit status other than EX_TEMPFAIL'
                    rep.check(ok, 'N4', where, 'permanent only for ' + cond,
                              'PermanentRelayError is raised outside its '
                              'condition (%s)' % cond, loc=n.loc(),
                              reason='guard dominates')
        for n in g.of_kind('stmt'):
            if not isinstance(n.ast, ast.Raise) or fx.at(n) is None:
                continue
            toks = [l[1] for l, s in n.succ if isinstance(l, tuple)]
            exc = n.ast.exc
            if isinstance(exc, ast.Call) and isinstance(exc.func, ast.Name) \
                    and not any(p.is_subclass(t, TRANS) or
                                p.is_subclass(t, PERM) for t in toks):
                # `raise error_class(...)` with the class picked per branch
                # (`code, error_class = '550', PermanentRelayError`): each
                # choice is judged where it is made
                vq = path_of(exc.func, n.frame)
                picked = []
                for d in common.reaching_defs(g, n, vq):
                    if d is None or not isinstance(d.ast, ast.Assign) or \
                            len(d.ast.targets) != 1:
                        picked = None
                        break
                    tg, vv = d.ast.targets[0], d.ast.value
                    if isinstance(tg, (ast.Tuple, ast.List)) and \
                            isinstance(vv, (ast.Tuple, ast.List)) and \
                            len(tg.elts) == len(vv.elts):
                        for t0, v0 in zip(tg.elts, vv.elts):
                            if path_of(t0, d.frame) == vq:
                                vv = v0
                    q = p.resolve_expr_qname(d.frame.ctx.func.module, vv) \
                        if isinstance(vv, (ast.Name, ast.Attribute)) \
                        else None
                    if q is None or fx.at(d) is None:
                        picked = None
                        break
                    picked.append((q, d))
                if picked:
                    for q, d in picked:
                        judge([q], expand(set(fx.at(d))), d)
                    continue
            judge(toks, expand(set(fx.at(n))), n)
        # raise_error raises on every path
        rep.evaluations += 1
        reach_exit = g.exit.id in dataflow.reachable(
            g, edge_ok=lambda a, l, s: not (isinstance(l, tuple)))
        rep.check(not reach_exit and classes == {'trans', 'perm'}, 'N4',
                  where, 'raise_error raises a relay error on every path',
                  'raise_error can return normally (the failed delivery is '
                  'then reported as success) or no longer produces both '
                  'classes: %s' % sorted(classes), loc=ctx.func.loc(),
                  reason='no normal exit; both classes produced')


# -------------------------------------------------------------------- N6
BYTES_STR_METHODS = {'startswith', 'endswith', 'split', 'rsplit', 'find',
                     'index', 'replace', 'partition', 'rpartition', 'count',
                     'strip', 'rstrip', 'lstrip', 'join'}


def n6(e: Engine, rep: Report, K: Kinds):
    nsites = 0
    for cq in e.concrete_classes('slimta.relay.pipe.PipeRelay'):
        short = cq.rpartition('.')[2]
        ctx = e.method_ctx(cq, '_exec_process')
        g = e.build(ctx, inline=e.inline_same_self(), max_depth=3)
        flow = KindFlow(K, g)
        where = '%s[%s]' % (ctx.func.qname, short)
        for n in g.nodes:
            if n.kind != 'call' or flow.IN.get(n.id) is None:
                continue
            f = n.ast.func
            # bytes.method('str literal')
            if isinstance(f, ast.Attribute) and f.attr in BYTES_STR_METHODS \
                    and n.ast.args:
                rk = flow.eval_at(n, f.value)
                for a in n.ast.args:
                    ak = flow.eval_at(n, a)
                    if U in rk or U in ak:
                        continue
                    nsites += 1
                    rep.evaluations += 1
                    mism = ('Bytes' in rk and 'Str' in ak) or \
                        ('Str' in rk and 'Bytes' in ak)
                    rep.check(not mism, 'N6', where,
                              '%s in %s' % (n.text(50),
                                            n.frame.ctx.func.name),
                              'the subprocess output is %s here but is '
                              'combined with a %s argument: TypeError '
                              'escapes the relay instead of a relay error'
                              % (show(rk), show(ak)), loc=n.loc(),
                              reason='operand kinds agree (%s / %s)' % (
                                  show(rk), show(ak)))
            # Reply(code, message) with a bytes message
            res = n.extra.get('res')
            if res is not None and any(c.endswith('reply.Reply')
                                       for c in res.ctor_of):
                if len(n.ast.args) >= 2:
                    mk = flow.eval_at(n, n.ast.args[1])
                    if U in mk:
                        continue
                    nsites += 1
                    rep.evaluations += 1
                    rep.check('Bytes' not in mk, 'N6', where,
                              '%s in %s' % (n.text(50),
                                            n.frame.ctx.func.name),
                              'undecoded subprocess output (%s) is used as '
                              'the Reply message: the message setter '
                              'matches a str pattern against it and raises '
                              'TypeError' % show(mk), loc=n.loc(),
                              reason='message kind ' + show(mk))
    if nsites < 3:
        rep.error('anchor vanished: bytes/str sites in raise_error '
                  'overrides (%d < 3)' % nsites)


# -------------------------------------------------------------------- N7
def n7(e: Engine, rep: Report, rule: str):
    """Totality of per-recipient mappings.  A relay that builds its result
    with `results[rcpt] = ...` inside a loop over envelope.recipients must
    return a mapping that has an entry for every recipient on every path
    (also when the loop is left by an exception): recipients without an
    entry are invisible to Queue._handle_partial_relay - neither delivered,
    retried nor bounced - and vanish when the message is removed."""
    found = 0
    for cq in e.concrete_classes(RELAY):
        if not cq.startswith('slimta.relay.pipe'):
            continue
        ctx = e.method_ctx(cq, '_try_pipe_all_rcpts')
        if ctx.func.cls.qname != cq and cq != 'slimta.relay.pipe.PipeRelay':
            continue
        # with the helpers the fill loop may have been moved into (also
        # when run through gevent.with_timeout)
        g = e.build(ctx, raises=pool.make_raises(e), assert_raises=False,
                    inline=e.inline_same_self(
                        deny=['_exec_process', '_process_args',
                              'raise_error']), max_depth=3)
        where = ctx.func.qname
        rep.functions.add(where)
        rets = [n for n in g.of_kind('stmt')
                if isinstance(n.ast, ast.Return) and
                isinstance(n.ast.value, ast.Name) and
                n.frame is g.entry.frame]
        for r in rets:
            rv = path_of(r.ast.value, r.frame)
            # loops over envelope.recipients that assign rv[<loopvar>] in
            # every iteration (possibly under `not in rv`)
            good = []
            fn = ctx.func.node
            rv_name = r.ast.value.id

            def over_recipients(it, depth=0):
                if 'recipients' in ast.unparse(it) and not isinstance(
                        it, (ast.ListComp, ast.GeneratorExp)):
                    return True
                if isinstance(it, (ast.ListComp, ast.GeneratorExp)) and \
                        len(it.generators) == 1 and \
                        isinstance(it.elt, ast.Name) and \
                        isinstance(it.generators[0].target, ast.Name) and \
                        it.elt.id == it.generators[0].target.id:
                    gnr = it.generators[0]
                    only_missing = all(
                        isinstance(c, ast.Compare) and len(c.ops) == 1 and
                        isinstance(c.ops[0], ast.NotIn) and
                        ast.unparse(c.comparators[0]) == rv_name
                        for c in gnr.ifs)
                    return only_missing and over_recipients(gnr.iter,
                                                            depth + 1)
                if isinstance(it, ast.Name) and depth < 3:
                    defs = [a.value for a in walk_own(fn)
                            if isinstance(a, ast.Assign) and any(
                                isinstance(t, ast.Name) and t.id == it.id
                                for t in a.targets)]
                    return len(defs) == 1 and over_recipients(defs[0],
                                                              depth + 1)
                return False

            for lp in g.of_kind('iter'):
                # (also over a list of the recipients still missing)
                if not (isinstance(lp.ast, ast.For) and
                        over_recipients(lp.ast.iter)):
                    continue
                lv = path_of(lp.ast.target, lp.frame)

                def is_set(n, lp=lp, lv=lv):
                    return n.kind == 'stmt' and \
                        isinstance(n.ast, ast.Assign) and \
                        isinstance(n.ast.targets[0], ast.Subscript) and \
                        canon(n.ast.targets[0].value, n.frame) == rv and \
                        path_of(n.ast.targets[0].slice, n.frame) == lv
                # per iteration: either the entry is assigned, or the path
                # established that it already exists
                def step(n, label, st, lp=lp, lv=lv):
                    if st:
                        return True
                    if is_set(n) and not isinstance(label, tuple):
                        return True
                    if n.kind == 'test' and label in ('T', 'F'):
                        from ..facts import atoms_of_test
                        for pol, k in atoms_of_test(n.ast, label == 'T',
                                                    n.frame):
                            if pol and k == '%s in %s' % (lv, rv):
                                return True
                    return False
                body = [s for l, s in lp.succ if l == 'body']
                if not body:
                    continue
                miss = dataflow.typestate_witness(
                    g, False, step, lambda n, st: n is lp and not st,
                    start=body[0])
                if miss is None:
                    good.append(lp)
            # the same fill written as one expression:
            #   rv.update((r, ...) for r in <missing>) / rv.update({r: ...})
            # where <missing> ranges over the recipients that have no entry
            def bulk_fill(n):
                if n.kind != 'call' or e.call_name(n) != 'update' or \
                        not isinstance(n.ast.func, ast.Attribute) or \
                        path_of(n.ast.func.value, n.frame) != rv or \
                        len(n.ast.args) != 1:
                    return False
                a = n.ast.args[0]
                if isinstance(a, (ast.GeneratorExp, ast.ListComp)) and \
                        len(a.generators) == 1 and \
                        isinstance(a.elt, ast.Tuple) and a.elt.elts and \
                        isinstance(a.generators[0].target, ast.Name) and \
                        isinstance(a.elt.elts[0], ast.Name) and \
                        a.elt.elts[0].id == a.generators[0].target.id:
                    return over_recipients(a.generators[0].iter)
                if isinstance(a, ast.DictComp) and len(a.generators) == 1 \
                        and isinstance(a.key, ast.Name) and \
                        isinstance(a.generators[0].target, ast.Name) and \
                        a.key.id == a.generators[0].target.id:
                    return over_recipients(a.generators[0].iter)
                return False
            bulk = [n for n in g.nodes if bulk_fill(n)]
            if not good and not bulk:
                continue
            found += 1
            rep.evaluations += 1

            def tstep(n, label, st):
                if n in good and label == 'done':
                    return True
                if n in bulk and not isinstance(label, tuple):
                    return True
                return st
            pth = dataflow.typestate_witness(
                g, False, tstep, lambda n, st: n is r and not st)
            rep.check(pth is None, rule, where,
                      'returned mapping has an entry for every recipient',
                      'the per-recipient result can be returned without a '
                      'completed pass over envelope.recipients (the loop '
                      'was left by an exception and the handler does not '
                      'fill in the rest): recipients without an entry are '
                      'never retried or bounced', loc=r.loc(),
                      reason='a completed fill loop precedes every return',
                      witness=dataflow.render_path(pth, 16) if pth else None)
    if found < 1:
        rep.error('anchor vanished: per-recipient mapping construction in '
                  'the pipe relay')


# ------------------------------------------------ N4: catch-all translation
def _transient_by_construction(e: Engine, g, fx, n: Node, expr,
                               depth: int = 0) -> bool:
    """Is the Reply denoted by `expr` (evaluated at node n) provably 4xx?"""
    if depth > 6:
        return False
    if isinstance(expr, ast.Call):
        f = expr.func
        # Reply('4xx', ...)
        if ast.unparse(f).endswith('Reply') and expr.args and \
                isinstance(expr.args[0], ast.Constant) and \
                str(expr.args[0].value).startswith('4'):
            return True
        # Reply(...).copy(<4xx constant>)
        if isinstance(f, ast.Attribute) and f.attr == 'copy' and expr.args:
            a0, fr0 = common.deref(expr.args[0], n.frame)
            code = common.reply_constant_code(e, a0, fr0.ctx)
            if code and code.startswith('4'):
                return True
        # a helper of the same object all of whose returns are transient
        vals = common.values_of(g, expr, n.frame)
        if not (len(vals) == 1 and vals[0][0] is expr):
            def node_of(fr):
                for m in g.nodes:
                    if m.frame is fr:
                        return m
                return n
            return all(_transient_by_construction(
                e, g, fx, node_of(fr2), v2, depth + 1) for v2, fr2 in vals)
        return False
    p = path_of(expr, n.frame)
    if p is None:
        return False
    st = fx.at(n) or frozenset()
    for pol, k in st:
        if pol and k.startswith(p + '.code == ') and \
                k.endswith("'") and k.split("== '")[1].startswith('4'):
            return True
    # single definition from a transient expression
    defs = [s for s in g.of_kind('stmt') if isinstance(s.ast, ast.Assign)
            and path_of(s.ast.targets[0], s.frame) == p]
    return bool(defs) and all(
        _transient_by_construction(e, g, fx, d, d.ast.value, depth + 1)
        for d in defs)


# c-ares result codes that are an authoritative "there is no such record";
# every other code reports that the resolver could not find out
DNS_DEFINITIVE_NEGATIVE = {'ARES_ENOTFOUND',   # NXDOMAIN
                           'ARES_ENODATA'}     # name exists, no such record


def n4_dns(e: Engine, rep: Report):
    """Only an authoritative negative answer may lead the MX lookup to
    conclude that the domain has no usable records (-> permanent failure);
    any other resolver error must stay an error (-> transient)."""
    c = e.p.classes.get('slimta.relay.smtp.mx.MxRecord')
    if c is None:
        rep.error('anchor vanished: slimta.relay.smtp.mx.MxRecord')
        return
    n = 0

    class _Body:
        # the statements of the class body itself (class-level tables)
        qname = c.qname

        def __init__(self):
            self.node = ast.Module(body=[
                st for st in c.node.body if not isinstance(
                    st, (ast.FunctionDef, ast.AsyncFunctionDef,
                         ast.ClassDef))], type_ignores=[])

        def loc(self, x=None):
            return '%s:%s' % (c.module.relpath,
                              getattr(x, 'lineno', c.node.lineno))
    used = {x.id for m in c.methods.values() for x in ast.walk(m.node)
            if isinstance(x, ast.Name)}
    # ... also through module-level helpers the methods call
    changed = True
    while changed:
        changed = False
        for st in c.module.tree.body:
            if isinstance(st, ast.FunctionDef) and st.name in used:
                more = {x.id for x in ast.walk(st)
                        if isinstance(x, ast.Name)} - used
                if more:
                    used |= more
                    changed = True

    class _ModTables:
        # module-level tables the class's methods name
        qname = c.module.name

        def __init__(self):
            self.node = ast.Module(body=[
                st for st in c.module.tree.body
                if isinstance(st, ast.Assign) and any(
                    isinstance(t, ast.Name) and t.id in used
                    for t in st.targets)], type_ignores=[])

        def loc(self, x=None):
            return '%s:%s' % (c.module.relpath, getattr(x, 'lineno', 1))
    for mname, m in sorted(c.methods.items()) + [
            ('<class body>', _Body()), ('<module tables>', _ModTables())]:
        for x in walk_own(m.node):
            if isinstance(x, (ast.Name, ast.Attribute)):
                nm = x.id if isinstance(x, ast.Name) else x.attr
                if not nm.startswith('ARES_E'):
                    continue
                n += 1
                rep.evaluations += 1
                rep.check(nm in DNS_DEFINITIVE_NEGATIVE, 'N4', m.qname,
                          'resolver code %s treated as "no such record"'
                          % nm,
                          '%s is handled like an authoritative negative '
                          'answer: a resolver *error* (server failure, '
                          'refused, timeout ...) then ends in "no usable '
                          'DNS records" = permanent failure, the mail '
                          'bounces instead of being retried' % nm,
                          loc=m.loc(x), reason='authoritative negative '
                          'answer (NXDOMAIN / NODATA)')
    if n < 2:
        rep.error('anchor vanished: resolver codes in MxRecord (%d < 2)' % n)


def n8(e: Engine, rep: Report, rule: str = 'N8'):
    """Reply.recv stores the parsed code through the validating `code`
    property, which raises ValueError - not an SmtpError - for what it does
    not accept.  So every code the reply parser can produce must be one the
    validator accepts: per-position inclusion of the character classes of
    reply_line_pattern's code group in those of code_pattern."""
    from .. import regexast as rx
    a = rx.module_pattern(e, 'slimta.smtp.io', 'reply_line_pattern')
    b = rx.module_pattern(e, 'slimta.smtp.reply', 'code_pattern')
    if a is None or b is None:
        rep.error('anchor vanished: reply_line_pattern / code_pattern')
        return
    # which group of the line pattern is the code?  recv_reply says so
    ctx = e.method_ctx('slimta.smtp.io.IO', 'recv_reply')
    pfn = common.reply_parser_func(e) or ctx.func
    scan = [pfn.node] + ([ctx.func.node] if ctx.func is not pfn else [])
    gv = {}
    for fnode in scan:
        gv.update(rx.group_vars(fnode))
    gno = gv.get('code')
    if gno is None:
        # the running code is assigned from a group variable
        for fnode in scan:
            for a in walk_own(fnode):
                if isinstance(a, ast.Assign) and any(
                        isinstance(t, ast.Name) and t.id == 'code'
                        for t in a.targets) and \
                        isinstance(a.value, ast.Name):
                    gno = gv.get(a.value.id, gno)
    if gno is None:
        # the variable whose decoded value is returned as the code
        for n in walk_own(ctx.func.node):
            if isinstance(n, ast.Return) and isinstance(n.value, ast.Tuple) \
                    and n.value.elts:
                x = n.value.elts[0]
                while isinstance(x, (ast.Call, ast.Attribute)):
                    x = x.func if isinstance(x, ast.Call) else x.value
                if isinstance(x, ast.Name):
                    gno = gv.get(x.id)
    rep.evaluations += 1
    if gno is None:
        rep.error('anchor vanished: `code = match.group(k)` in recv_reply')
        return
    items = rx.find_group(list(rx.parse(a[0], a[1])), gno)
    got = rx.fixed_charsets(items, a[1]) if items is not None else None
    want = rx.fixed_charsets(list(rx.parse(b[0], b[1])), b[1])
    where = 'slimta.smtp.io.reply_line_pattern'
    mod = e.p.modules['slimta.smtp.io']
    loc = '%s:%d' % (mod.relpath, a[2].lineno)
    if got is None or want is None:
        rep.unknown(rule, where, 'code group vs code_pattern',
                    'cannot compare the code group of %r with %r'
                    % (a[0], b[0]), loc=loc)
        return
    ok = len(got) == len(want) and all(g <= w for g, w in zip(got, want))
    extra = ''
    if not ok and len(got) == len(want):
        for i, (g, w) in enumerate(zip(got, want)):
            if not g <= w:
                extra = 'position %d admits %s' % (
                    i, ''.join(chr(c) for c in sorted(g - w))[:12])
                break
    rep.check(ok, rule, where,
              'every code the reply parser yields passes Reply.code',
              'the reply parser takes group %d of %r for the code, but '
              'Reply.code only accepts %r (%s): such a reply makes Reply.recv '
              'raise ValueError, which the relay client hands on as it is - '
              'the attempt ends with an exception that is not a relay error'
              % (gno, a[0], b[0], extra or 'different length'), loc=loc,
              reason='character classes of the code group are included in '
              'those of code_pattern')


def n4_catch_all(e: Engine, rep: Report):
    """Disconnects, timeouts and socket errors are reported as transient:
    the reply handed to SmtpRelayError.factory in those arms of _run is 4xx
    by construction."""
    for cq in e.concrete_classes(SMTPC):
        short = cq.rpartition('.')[2]
        ctx = e.method_ctx(cq, '_get_error_reply')
        if cq != SMTPC and ctx.func.cls.qname != cq:
            continue
        g = e.build(ctx, raises=lambda b, n, r: set())
        fx = e.facts(g)
        where = '%s[%s]' % (ctx.func.qname, short)
        rep.functions.add(ctx.func.qname)
        rets = [n for n in g.of_kind('stmt')
                if isinstance(n.ast, ast.Return) and n.ast.value is not None
                and fx.at(n) is not None]
        if not rets:
            rep.error('anchor vanished: returns of _get_error_reply')
        for r in rets:
            rep.evaluations += 1
            rep.check(_transient_by_construction(e, g, fx, r, r.ast.value),
                      'N4', where, 'error reply `%s` is 4xx by construction'
                      % r.text(40),
                      'the reply used to report a lost connection can be an '
                      'earlier non-4xx reply of the session: a disconnect '
                      'is then classified as a permanent failure and the '
                      'message bounces instead of being retried',
                      loc=r.loc(), reason="constant 4xx Reply, or reused "
                      "only under code == '421'")
    ctx = e.method_ctx(SMTPC, '_run')
    base_raises = pool.make_raises(e)

    def raises(b, n, r):
        # (a gevent Timeout can surface in anything that may block: the
        # Timeout arm is judged like the others)
        toks = base_raises(b, n, r)
        return (set(toks) | {TIMEOUT}) if toks else toks
    g = e.build(ctx, raises=raises, assert_raises=False,
                inline=e.inline_same_self(
                    deny=['poll', '_connect', '_handshake', '_deliver',
                          '_disconnect', '_check_server_timeout']),
                max_depth=4)
    fx = e.facts(g)
    where = ctx.func.qname
    arms = [h for h in g.of_kind('handler') if h.frame is g.entry.frame and
            any(t in ('gevent.Timeout', 'builtins.OSError') or
                t.endswith('.SmtpError') for t in h.extra.get('types', []))]
    n_f = 0
    for h in arms:
        inside = [m for m in g.nodes if any(
            sc.kind == 'handler' and sc.ast is h.ast for sc in m.scopes)]
        for m in inside:
            if m.kind == 'call' and e.call_name(m) == 'factory' and \
                    m.ast.args:
                a = m.ast.args[0]
                p = path_of(a, m.frame)
                # (definitions on branches the facts rule out - the arm of
                # a shared helper that belongs to another handler - are not
                # definitions of this arm)
                defs = [s for s in inside if s.kind == 'stmt' and
                        isinstance(s.ast, ast.Assign) and
                        path_of(s.ast.targets[0], s.frame) == p and
                        fx.at(s) is not None]

                def from_error_reply(v, fr):
                    # _get_error_reply(...) - judged on its own above - also
                    # when it is reached through a bound callable
                    if isinstance(v, ast.Call) and \
                            e.call_name_of(v) == '_get_error_reply':
                        return True
                    kids = [c for c in fr.children if c.call is v or
                            getattr(c.call, '_orig', None) is v]
                    return any(c.ctx.func.name == '_get_error_reply'
                               for c in kids)
                # factory(get_reply()) with `get_reply = partial(self.m, x)`
                # chosen per exception class: each choice is judged
                pdefs = []
                if not defs and isinstance(a, ast.Call) and \
                        isinstance(a.func, ast.Name) and not a.args:
                    cp = path_of(a.func, m.frame)
                    pdefs = [s for s in inside if s.kind == 'stmt' and
                             isinstance(s.ast, ast.Assign) and
                             path_of(s.ast.targets[0], s.frame) == cp and
                             fx.at(s) is not None]

                def partial_ok(d, v=None, dctx=None):
                    v = d.ast.value if v is None else v
                    dctx = d.ctx if dctx is None else dctx
                    if not (isinstance(v, ast.Call) and
                            ast.unparse(v.func).endswith('partial') and
                            v.args and isinstance(v.args[0], ast.Attribute)):
                        return False
                    mname = v.args[0].attr
                    if mname == '_get_error_reply':
                        return True
                    hm = e.p.lookup_method(ctx.self_cls or
                                           ctx.func.cls.qname, mname)
                    if hm is None or len(v.args) != 2:
                        return False
                    rets = [r for r in walk_own(hm.node)
                            if isinstance(r, ast.Return)]
                    prm = hm.params[1] if len(hm.params) > 1 else None
                    shape = len(rets) == 1 and isinstance(
                        rets[0].value, ast.Call) and isinstance(
                        rets[0].value.func, ast.Attribute) and \
                        rets[0].value.func.attr == 'copy' and \
                        len(rets[0].value.args) == 1 and isinstance(
                            rets[0].value.args[0], ast.Name) and \
                        rets[0].value.args[0].id == prm
                    code = common.reply_constant_code(e, v.args[1], dctx) \
                        if isinstance(v.args[1], (ast.Name, ast.Attribute)) \
                        else None
                    return shape and code is not None and \
                        str(code).startswith('4')
                # ... or handed straight to the helper that calls it:
                # self._fail(result, partial(self._canned_reply, timed_out))
                parg = None
                if not defs and not pdefs and isinstance(a, ast.Call) and \
                        isinstance(a.func, ast.Name) and not a.args and \
                        a.func.id in getattr(m.frame, 'arg_exprs', {}):
                    parg = m.frame.arg_exprs[a.func.id]
                if parg is not None:
                    ok = partial_ok(None, parg[0], parg[1].ctx)
                elif pdefs:
                    ok = all(partial_ok(d) for d in pdefs)
                    n_f += len(pdefs) - 1
                elif defs:
                    ok = all(from_error_reply(d.ast.value, d.frame) or
                             _transient_by_construction(e, g, fx, d,
                                                        d.ast.value)
                             for d in defs)
                else:
                    ok = from_error_reply(a, m.frame) or \
                        _transient_by_construction(e, g, fx, m, a)
                n_f += 1
                rep.evaluations += 1
                rep.check(ok, 'N4', where,
                          'catch-all arm `%s` reports a transient failure'
                          % h.text(30),
                          'an I/O error / timeout arm of _run builds its '
                          'relay error from a reply that is not 4xx by '
                          'construction', loc=m.loc(),
                          reason='4xx constant or _get_error_reply')
    if n_f < 3:
        rep.error('anchor vanished: factory(...) in the I/O arms of _run '
                  '(%d < 3)' % n_f)


# -------------------------------------------------------------------- N9
def n9(e: Engine, rep: Report, rule: str = 'N9'):
    """Every recipient of the envelope is offered to the server: the pass
    over envelope.recipients that sends RCPT runs to completion.  A
    recipient that was never offered has no reply of its own; its entry in
    the result table stays empty and is filled with the end-of-data verdict -
    it is reported delivered although the server never heard of it."""
    ctx = e.method_ctx(SMTPC, '_send_envelope')
    g = e.build(ctx, inline=e.inline_same_self(
        deny=_peer_talkers(e, SMTPC) - {'_send_envelope'}), max_depth=3,
        raises=lambda b, n, r: set())
    where = ctx.func.qname
    rep.functions.add(where)
    n = 0
    fn = ctx.func.node
    for x in walk_own(fn):
        if isinstance(x, (ast.ListComp, ast.GeneratorExp, ast.DictComp)) \
                and any('recipients' in ast.unparse(gen.iter)
                        for gen in x.generators) and \
                '_rcptto' in ast.unparse(x):
            n += 1
            rep.evaluations += 1
            rep.check(not any(gen.ifs for gen in x.generators), rule, where,
                      'RCPT is sent for every recipient',
                      'the comprehension that sends RCPT filters the '
                      'recipients: the ones left out are never offered to '
                      'the server but are reported with the end-of-data '
                      'result', loc=ctx.func.loc(x),
                      reason='unfiltered pass over envelope.recipients')
    for lp in g.of_kind('iter'):
        if not (isinstance(lp.ast, ast.For) and
                'recipients' in ast.unparse(lp.ast.iter)):
            continue
        calls = [c for c in g.nodes if c.kind in ('call', 'call_enter') and
                 e.call_name(c) in ('_rcptto', 'rcptto') and any(
                     sc.kind == 'loop' and sc.ast is lp.ast
                     for sc in c.scopes)]
        if not calls:
            continue
        n += 1
        rep.evaluations += 1
        leaves = [s for s in ast.walk(lp.ast)
                  if isinstance(s, (ast.Break, ast.Return))]
        # (a break / return that belongs to a loop nested inside is fine)
        inner = [s for s in ast.walk(lp.ast)
                 if isinstance(s, (ast.For, ast.While)) and s is not lp.ast]
        own = [s for s in leaves if isinstance(s, ast.Return) or not any(
            any(y is s for y in ast.walk(i)) for i in inner)]
        counts = common.per_iteration_counts(
            g, lp, lambda c: 1 if c in calls and c.kind == 'call' or (
                c in calls and c.kind == 'call_enter') else 0)
        rep.check(not own and 0 not in counts, rule, where,
                  'RCPT is sent for every recipient',
                  'the loop that sends RCPT can stop early (%s) or skip a '
                  'recipient: the recipients it never reached are not '
                  'offered to the server, their entries stay empty and are '
                  'filled with the end-of-data result - reported delivered '
                  'although the server never saw them' % (
                      'line %d' % own[0].lineno if own else 'an iteration '
                      'without RCPT'), loc=lp.loc(),
                  reason='no break / return, one RCPT per iteration')
    if n < 1:
        rep.error('anchor vanished: the pass over envelope.recipients that '
                  'sends RCPT in _send_envelope')


# -------------------------------------------------------------------- N10
def n10(e: Engine, rep: Report, rule: str = 'N10'):
    """The pool hands the attempt's caller what the client decided: the
    request's AsyncResult is read with .get(), which re-raises the relay
    error the client set.  `.value` of a failed result is None - read as
    "delivered" by the queue - so it may only be read once success is
    established (`.successful()` / `.exception is None`)."""
    rep.rule(rule, 'RelayPool.attempt returns the request\'s result through '
             'AsyncResult.get() (re-raises the client\'s relay error); '
             '`.value` is read only under an established success')
    ctx = e.method_ctx('slimta.relay.pool.RelayPool', 'attempt')
    g = e.build(ctx, raises=lambda b, n, r: set(),
                inline=e.inline_same_self(), max_depth=3)
    fx = e.facts(g)
    where = ctx.func.qname
    rep.functions.add(where)
    # locals holding the request's AsyncResult
    res = set()
    for s2 in g.of_kind('stmt'):
        if isinstance(s2.ast, ast.Assign) and \
                isinstance(s2.ast.value, ast.Call) and \
                ast.unparse(s2.ast.value.func).endswith('AsyncResult') and \
                isinstance(s2.ast.targets[0], ast.Name):
            res.add(path_of(s2.ast.targets[0], s2.frame))
    if not res:
        rep.error('anchor vanished: AsyncResult() in RelayPool.attempt')
        return
    rets = [r for r in g.of_kind('stmt') if isinstance(r.ast, ast.Return)
            and r.frame is g.entry.frame]
    rep.evaluations += 1
    if not rets:
        rep.bad(rule, where, 'the result is returned',
                'attempt() no longer returns the client\'s result',
                loc=ctx.func.loc())
    n_read = 0
    for n in g.nodes:
        if n.kind not in ('stmt', 'call', 'test'):
            continue
        for x in ast.walk(n.ast):
            if isinstance(x, ast.Attribute) and x.attr == 'value' and \
                    isinstance(x.ctx, ast.Load) and \
                    path_of(x.value, n.frame) in res:
                n_read += 1
                rep.evaluations += 1
                st = fx.at(n) or frozenset()
                rp = path_of(x.value, n.frame)
                ok = holds(st, (True, '%s.successful()' % rp)) or \
                    holds(st, (True, '%s.exception is None' % rp)) or \
                    holds(st, (False, '%s.exception' % rp))
                rep.check(ok, rule, where,
                          'AsyncResult.value read only after success',
                          '`%s` is read without knowing that the request '
                          'succeeded: when the client called '
                          'set_exception() the value is None, which the '
                          'queue takes for a delivered message - every '
                          'whole-message failure is reported as success'
                          % ast.unparse(x), loc=n.loc(),
                          reason='dominated by successful() / exception '
                          'is None')
    for r in rets:
        v = r.ast.value
        rep.evaluations += 1
        def is_res(x, fr):
            if path_of(x, fr) in res:
                return True
            # a helper that creates, queues and returns the request
            if isinstance(x, ast.Call):
                vals = common.values_of(g, x, fr)
                return bool(vals) and not (
                    len(vals) == 1 and vals[0][0] is x) and all(
                    path_of(v2, f2) in res for v2, f2 in vals)
            if isinstance(x, ast.Name):
                x2, f2 = common.origin(g, x, fr)
                return x2 is not x and is_res(x2, f2)
            return False
        via_get = isinstance(v, ast.Call) and \
            isinstance(v.func, ast.Attribute) and v.func.attr == 'get' and \
            is_res(v.func.value, r.frame)
        via_value = v is not None and any(
            isinstance(x, ast.Attribute) and x.attr == 'value' and
            path_of(x.value, r.frame) in res for x in ast.walk(v))
        if via_value:
            continue            # judged above
        rep.check(via_get, rule, where, 'attempt returns result.get()',
                  'attempt() returns `%s` instead of the request\'s '
                  'result.get(): the client\'s verdict (value or relay '
                  'error) does not reach the queue' % (
                      ast.unparse(v) if v is not None else None),
                  loc=r.loc(), reason='return <AsyncResult>.get()')


# -------------------------------------------------------------------- N11
# conversions of peer- / sender-supplied text that raise on some inputs
# (what they raise is a ValueError subclass unless noted)
TEXT_RAISES = {
    'encode': ['builtins.UnicodeError'],
    'decode': ['builtins.UnicodeError'],
    'int': ['builtins.ValueError'],
    'float': ['builtins.ValueError'],
    'ip_address': ['builtins.ValueError'],
    'inet_pton': ['builtins.OSError', 'builtins.ValueError'],
    'inet_aton': ['builtins.OSError'],
    'b64decode': ['builtins.ValueError'],
    'unhexlify': ['builtins.ValueError'],
    'loads': ['builtins.ValueError'],
}
LENIENT_ERRORS = {'replace', 'ignore', 'xmlcharrefreplace',
                  'backslashreplace', 'surrogateescape', 'namereplace'}
TOTAL_CODECS = {'utf-8', 'utf8', 'utf_8', 'latin-1', 'latin1', 'iso-8859-1'}


def n11(e: Engine, rep: Report, rule: str = 'N11'):
    """attempt() of a relay that computes on recipient text before it talks
    to anybody (the MX relay: domain extraction, lookup keys) lets no
    text-conversion error escape: whatever a recipient address looks like,
    the outcome is a relay error."""
    rep.rule(rule, 'no text-conversion exception (table TEXT_RAISES) leaves '
             'MxSmtpRelay.attempt: a malformed recipient domain ends in a '
             'relay error, not in another exception type')
    rep.tables.add('c11.TEXT_RAISES')
    ctx = e.method_ctx('slimta.relay.smtp.mx.MxSmtpRelay', 'attempt')

    def raises(b, n, r):
        if n.kind != 'call':
            return set()
        if r is not None and r.targets:
            return set()
        nm = e.call_name(n)
        toks = TEXT_RAISES.get(nm)
        if not toks:
            return set()
        if nm in ('encode', 'decode'):
            # str.encode to a total codec / with a lenient error handler
            args = list(n.ast.args)
            kw = {k.arg: k.value for k in n.ast.keywords}
            enc = args[0] if args else kw.get('encoding')
            err = args[1] if len(args) > 1 else kw.get('errors')
            if isinstance(err, ast.Constant) and err.value in LENIENT_ERRORS:
                return set()
            if nm == 'encode' and (enc is None or (
                    isinstance(enc, ast.Constant) and
                    str(enc.value).lower() in TOTAL_CODECS)):
                return set()
        if nm in ('int', 'float') and not isinstance(n.ast.func, ast.Name):
            return set()
        return set(toks)
    g = e.build(ctx, inline=e.inline_same_self(), raises=raises, max_depth=4)
    where = ctx.func.qname
    rep.functions.add(where)
    reach = dataflow.reachable(g)
    escaping = {}
    for n in g.nodes:
        if n.id not in reach:
            continue
        for l, s2 in n.succ:
            if s2 is g.raise_exit and isinstance(l, tuple) and \
                    n.kind == 'call' and l[1] in sum(TEXT_RAISES.values(),
                                                     []):
                escaping.setdefault(l[1], n)
    rep.evaluations += 1
    if not escaping:
        rep.ok(rule, where, 'no text-conversion error escapes',
               reason='every raising conversion on the way is handled',
               loc=ctx.func.loc())
    for t, n in sorted(escaping.items()):
        pth = dataflow.find_path(g, g.entry, lambda x: x is n)
        rep.bad(rule, where, '%s leaves attempt()' % t.rpartition('.')[2],
                '`%s` raises %s for some recipient domains (empty label, '
                'label over 63 characters, ...) and no arm turns it into a '
                'relay error: the queue sees an unexpected exception and '
                'retries a message that can never be delivered, instead of '
                'bouncing it' % (n.text(50), t), loc=n.loc(),
                witness=dataflow.render_path(pth, 12) if pth else None)


# -------------------------------------------------------------------- N12
def n12(e: Engine, rep: Report, rule: str = 'N12'):
    """A per-recipient table may hold error objects (that is what it is
    for).  An attempt() that takes one entry out of a table it got from
    another attempt() / an AsyncResult and returns it hands the queue a
    bare error object as the result of the whole attempt - read as
    "delivered"."""
    rep.rule(rule, 'no attempt() returns an entry taken out of a '
             'per-recipient table it received (values() / items() / '
             '[key] / get / pop of what another attempt() or '
             'AsyncResult.get() returned): an entry may be an error '
             'object')
    n = 0
    for cq in e.concrete_classes(RELAY):
        if cq == RELAY:
            continue
        ctx = e.method_ctx(cq, 'attempt')
        g = e.build(ctx, raises=lambda b, nn, r: set(),
                    inline=e.inline_same_self(), max_depth=3)
        where = '%s[%s]' % (ctx.func.qname, cq.rpartition('.')[2])
        rep.functions.add(ctx.func.qname)

        def received(x, fr):
            x, fr = common.origin(g, x, fr)
            if not (isinstance(x, ast.Call) and
                    isinstance(x.func, ast.Attribute)):
                return False
            if x.func.attr == 'attempt':
                return True
            return x.func.attr == 'get' and len(x.args) <= 1 and \
                'result' in ast.unparse(x.func.value).lower()

        def table_of(x, fr, depth=0):
            """(mapping expression, frame) the value is an entry of"""
            if depth > 6:
                return None
            if isinstance(x, ast.Name):
                fn = fr.ctx.func
                for st in walk_own(fn.node):
                    if isinstance(st, (ast.For, ast.comprehension)) and any(
                            isinstance(t, ast.Name) and t.id == x.id
                            for t in ast.walk(st.target)):
                        it = st.iter
                        if isinstance(it, ast.Call) and \
                                isinstance(it.func, ast.Attribute) and \
                                it.func.attr in ('values', 'items'):
                            return it.func.value, fr
                x2, f2 = common.origin(g, x, fr)
                if x2 is not x:
                    return table_of(x2, f2, depth + 1)
                return None
            if isinstance(x, ast.Subscript):
                v = x.value
                if isinstance(v, ast.Call) and isinstance(v.func, ast.Name) \
                        and v.func.id in ('list', 'tuple', 'sorted') and \
                        v.args:
                    return table_of_iter(v.args[0], fr)
                if isinstance(x.slice, ast.Slice):
                    return None
                return v, fr
            if isinstance(x, ast.Call):
                f = x.func
                if isinstance(f, ast.Attribute) and f.attr in (
                        'pop', 'popitem', 'setdefault') or (
                        isinstance(f, ast.Attribute) and f.attr == 'get'
                        and len(x.args) >= 1 and
                        'result' not in ast.unparse(f.value).lower()):
                    return f.value, fr
                if isinstance(f, ast.Name) and f.id == 'next' and x.args:
                    a = x.args[0]
                    if isinstance(a, ast.Call) and \
                            isinstance(a.func, ast.Name) and \
                            a.func.id == 'iter' and a.args:
                        a = a.args[0]
                    return table_of_iter(a, fr)
            return None

        def table_of_iter(it, fr):
            if isinstance(it, ast.Call) and \
                    isinstance(it.func, ast.Attribute) and \
                    it.func.attr in ('values', 'items'):
                return it.func.value, fr
            return None
        rets = [r for r in g.of_kind('stmt') if isinstance(r.ast, ast.Return)
                and r.frame is g.entry.frame and r.ast.value is not None]
        for r in rets:
            for v, fr in common.values_of(g, r.ast.value, r.frame):
                n += 1
                rep.evaluations += 1
                t = table_of(v, fr)
                bad = t is not None and received(t[0], t[1])
                rep.check(not bad, rule, where,
                          'returned `%s`' % ' '.join(
                              ast.unparse(v).split())[:40],
                          'attempt() returns `%s`, an entry of the table '
                          '`%s` it received: for a recipient the next hop '
                          'refused the entry is an error OBJECT, which the '
                          'queue takes for a delivered message'
                          % (ast.unparse(v), ast.unparse(t[0]) if t
                             else ''), loc=r.loc(),
                          reason='not an entry of a received table')
    if n < 3:
        rep.error('anchor vanished: attempt() return values (%d < 3)' % n)


# -------------------------------------------------------------------- N13
SAME_LENGTH = {'sorted', 'list', 'tuple', 'reversed'}


def n13(e: Engine, rep: Report, rule: str = 'N13'):
    """`i = n % len(A)` is an index into A.  Used on another sequence it is
    an IndexError - not a relay error - as soon as that one is shorter."""
    rep.rule(rule, 'in the relay modules an index reduced modulo len(A) '
             'indexes A itself (or a same-length copy: sorted / list / '
             'tuple of A), not a sequence filtered or de-duplicated from '
             'it: attempt() never ends in an IndexError')
    n = 0
    for f in e.p.functions.values():
        if not f.module.name.startswith('slimta.relay'):
            continue
        mods = {}
        for a in walk_own(f.node):
            if isinstance(a, ast.Assign) and len(a.targets) == 1 and \
                    isinstance(a.targets[0], ast.Name) and \
                    isinstance(a.value, ast.BinOp) and \
                    isinstance(a.value.op, ast.Mod) and \
                    isinstance(a.value.right, ast.Call) and \
                    isinstance(a.value.right.func, ast.Name) and \
                    a.value.right.func.id == 'len' and a.value.right.args:
                mods[a.targets[0].id] = a.value.right.args[0]
        for x in walk_own(f.node):
            if not isinstance(x, ast.Subscript):
                continue
            idx = x.slice
            of = None
            if isinstance(idx, ast.Name) and idx.id in mods:
                of = mods[idx.id]
            elif isinstance(idx, ast.BinOp) and isinstance(idx.op, ast.Mod) \
                    and isinstance(idx.right, ast.Call) and \
                    isinstance(idx.right.func, ast.Name) and \
                    idx.right.func.id == 'len' and idx.right.args:
                of = idx.right.args[0]
            if of is None:
                continue
            n += 1
            rep.evaluations += 1
            rep.functions.add(f.qname)
            seq = x.value
            same = ast.unparse(seq) == ast.unparse(of)
            why = None
            if not same and isinstance(seq, ast.Name):
                defs = [a for a in walk_own(f.node)
                        if isinstance(a, ast.Assign) and any(
                            isinstance(t, ast.Name) and t.id == seq.id
                            for t in a.targets)]
                if len(defs) == 1:
                    v = defs[0].value
                    if isinstance(v, ast.Call) and \
                            isinstance(v.func, ast.Name) and \
                            v.func.id in SAME_LENGTH and v.args and \
                            ast.unparse(v.args[0]) == ast.unparse(of):
                        same = True
                    elif isinstance(v, (ast.List, ast.ListComp, ast.Call,
                                        ast.SetComp, ast.Set)):
                        why = 'built separately (`%s`)' % ' '.join(
                            ast.unparse(v).split())[:40]
            if same:
                rep.ok(rule, f.qname, '`%s`' % ast.unparse(x), loc=f.loc(x),
                       reason='index reduced modulo the length of the '
                       'sequence it indexes')
            elif why:
                rep.bad(rule, f.qname, '`%s`' % ast.unparse(x),
                        'the index is reduced modulo len(%s) but used on '
                        '`%s`, which is %s and can be shorter: the attempt '
                        'ends in an IndexError instead of a result or a '
                        'relay error' % (ast.unparse(of), ast.unparse(seq),
                                         why), loc=f.loc(x))
            else:
                rep.unknown(rule, f.qname, '`%s`' % ast.unparse(x),
                            'cannot see that `%s` is as long as `%s`' % (
                                ast.unparse(seq), ast.unparse(of)),
                            loc=f.loc(x))
    if n < 1:
        rep.ok(rule, 'slimta.relay', 'no index reduced modulo a length',
               reason='nothing to check', nontrivial=False)


# -------------------------------------------------------------------- N14
def n14(e: Engine, rep: Report, rule: str = 'N14'):
    """One relay error for the whole envelope gives every recipient the same
    class.  Made from ONE entry of a collection of per-recipient replies it
    reports the others' 4xx as permanent (or their 5xx as transient)."""
    rep.rule(rule, 'a whole-envelope failure (raise / set_exception) is not '
             'made from one fixed entry of a collection of per-recipient '
             'replies: each recipient keeps the class of its own reply')
    n = 0
    seen = set()
    for cq in e.concrete_classes(SMTPC):
        for k in e.p.mro(cq):
            kc = e.p.classes.get(k)
            if kc is None or not k.startswith('slimta.relay'):
                continue
            for mname, m in sorted(kc.methods.items()):
                if m.qname in seen:
                    continue
                seen.add(m.qname)
                n += _n14_function(e, rep, rule, m)
    if n < 2:
        rep.error('anchor vanished: whole-envelope failure sites (%d < 2)'
                  % n)


def _n14_function(e, rep, rule, m):
    fn = m.node
    n = 0
    loops = {ast.unparse(st.iter) for st in walk_own(fn)
             if isinstance(st, (ast.For, ast.comprehension))}

    def single_def(name):
        ds = [a for a in walk_own(fn) if isinstance(a, ast.Assign) and any(
            isinstance(t, ast.Name) and t.id == name for t in a.targets)]
        return ds[0].value if len(ds) == 1 else None

    def per_recipient(y):
        """is the collection one of per-recipient replies?"""
        if ast.unparse(y) in loops or any(
                l.startswith(ast.unparse(y) + '.') for l in loops):
            return True
        if isinstance(y, ast.Name):
            v = single_def(y.id)
            if isinstance(v, (ast.ListComp, ast.GeneratorExp)):
                txt = ' '.join(ast.unparse(g.iter) for g in v.generators)
                return 'recipients' in txt or 'values()' in txt or \
                    'items()' in txt or 'rcpt' in txt
        return False
    sites = []
    for x in walk_own(fn):
        if isinstance(x, ast.Raise) and x.exc is not None:
            sites.append((x, x.exc))
        elif isinstance(x, ast.Call) and isinstance(x.func, ast.Attribute) \
                and x.func.attr == 'set_exception' and x.args:
            sites.append((x, x.args[0]))
    for site, arg in sites:
        n += 1
        rep.evaluations += 1
        rep.functions.add(m.qname)
        # factory(<reply>) / the value itself, through one local
        if isinstance(arg, ast.Name):
            arg = single_def(arg.id) or arg
        if isinstance(arg, ast.Call) and isinstance(arg.func, ast.Attribute) \
                and arg.func.attr == 'factory' and arg.args:
            arg = arg.args[0]
        if isinstance(arg, ast.Name):
            arg = single_def(arg.id) or arg
        one = isinstance(arg, ast.Subscript) and \
            isinstance(arg.slice, (ast.Constant, ast.UnaryOp)) and \
            per_recipient(arg.value)
        rep.check(not one, rule, m.qname,
                  'failure made from `%s`' % ' '.join(
                      ast.unparse(arg).split())[:40],
                  'the failure of the whole envelope is made from `%s`, one '
                  'fixed entry of the per-recipient replies `%s`: when the '
                  'recipients were refused with different classes (550 and '
                  '450) all of them are reported with the class of that one '
                  '- a 4xx outcome is bounced as permanent, or a 5xx one '
                  'retried as transient' % (
                      ast.unparse(arg), ast.unparse(arg.value)
                      if isinstance(arg, ast.Subscript) else ''),
                  loc=m.loc(site), reason='not a fixed entry of a '
                  'collection of per-recipient replies')
    return n


# -------------------------------------------------------------------- N15
def n15(e: Engine, rep: Report, rule: str = 'N15'):
    """Reply.command is bytes on the SMTP side and a str where the HTTP relay
    parses it out of a header.  The relay-error constructors get both: a
    bytes-only (or str-only) method on it must sit behind a type test, or the
    error that should report the refusal dies with AttributeError - which the
    client's catch-all turns into a transient "Delivery failed"."""
    rep.rule(rule, 'the relay-error constructors apply bytes-only / '
             'str-only methods (decode / encode) to reply.command only '
             'behind an isinstance test of it, as long as a relay builds '
             'replies whose command is not a bytes literal (the HTTP relay: '
             'header text)')
    # producers: Reply(code, message, <command>) in the relay modules
    producers = []
    for f in e.p.functions.values():
        if not f.module.name.startswith('slimta.relay'):
            continue
        for c in walk_own(f.node):
            if isinstance(c, ast.Call) and \
                    ast.unparse(c.func).rpartition('.')[2] == 'Reply':
                cmd = c.args[2] if len(c.args) >= 3 else None
                for k in c.keywords:
                    if k.arg == 'command':
                        cmd = k.value
                if cmd is None or (isinstance(cmd, ast.Constant) and
                                   isinstance(cmd.value, (bytes,
                                                          type(None)))):
                    continue
                txt = ast.unparse(cmd)
                if 'current_command' in txt:
                    continue          # the relay client's own bytes marker
                producers.append((f, c, txt))
    n = 0
    for cq in ['slimta.relay.smtp.SmtpRelayError'] + list(
            e.p.subclasses('slimta.relay.smtp.SmtpRelayError')):
        c = e.p.classes.get(cq)
        init = c.methods.get('__init__') if c is not None else None
        if init is None:
            continue
        ctx = e.method_ctx(cq, '__init__')
        g = e.build(ctx, raises=lambda b, nn, r: set())
        fx = e.facts(g)
        rep.functions.add(init.qname)
        cmd_names = {t.id for a in walk_own(init.node)
                     if isinstance(a, ast.Assign) and
                     'command' in ast.unparse(a.value)
                     for t in a.targets if isinstance(t, ast.Name)}
        for nd in g.calls():
            f = nd.ast.func
            if not (isinstance(f, ast.Attribute) and
                    f.attr in ('decode', 'encode')):
                continue
            rv = f.value
            if not ((isinstance(rv, ast.Name) and rv.id in cmd_names) or
                    'command' in ast.unparse(rv)):
                continue
            n += 1
            rep.evaluations += 1
            st = fx.at(nd) or frozenset()
            key = canon(rv, nd.frame)
            guarded = any(p and k.startswith('isinstance(%s' % key)
                          for p, k in st) or any(
                (not p) and k.startswith('isinstance(%s' % key)
                for p, k in st)
            rep.check(guarded or not producers, rule, init.qname,
                      '`%s` on the command of the reply' % ' '.join(
                          ast.unparse(nd.ast).split())[:40],
                      '`%s` runs on reply.command whatever its type, but '
                      '%s builds the reply with `%s` (text taken from a '
                      'header, a str): the constructor of the relay error '
                      'raises AttributeError, and the refusal is reported '
                      'as a transient "Delivery failed" instead of with '
                      'its own class' % (
                          ' '.join(ast.unparse(nd.ast).split())[:40],
                          producers[0][0].qname if producers else '',
                          producers[0][2] if producers else ''),
                      loc=nd.loc(), reason='behind an isinstance test' if
                      guarded else 'every relay passes bytes literals')
    if n < 1:
        rep.ok(rule, 'slimta.relay.smtp.SmtpRelayError',
               'no bytes-only / str-only method on reply.command',
               reason='nothing to check (producers: %d)' % len(producers),
               nontrivial=False)


# -------------------------------------------------------------------- N20
def n20(e: Engine, rep: Report, rule: str = 'N20'):
    """Python unbinds the name of `except E as name` when the clause ends.
    Reading it afterwards (`raise exc` after the loop that caught it) raises
    UnboundLocalError - out of a relay that is a bare exception in place of
    the relay error the code meant to report."""
    rep.rule(rule, 'in the relay modules no name bound by `except ... as` is '
             'read outside its clause unless the function binds it '
             'elsewhere too (the language unbinds it at the end of the '
             'clause)')
    n = 0
    bad = 0
    for f in sorted(e.p.functions.values(), key=lambda f: f.qname):
        if not f.module.name.startswith('slimta.relay'):
            continue
        hs = [h for h in walk_own(f.node)
              if isinstance(h, ast.ExceptHandler) and h.name]
        for h in hs:
            n += 1
            inside = {id(x) for st in h.body for x in ast.walk(st)}
            other = [x for x in walk_own(f.node) if isinstance(x, ast.Name)
                     and x.id == h.name and isinstance(x.ctx, ast.Store)]
            if other or h.name in f.params:
                continue          # bound elsewhere as well: not judged
            # (handlers of the same name count as clauses of their own)
            same = set()
            for h2 in hs:
                if h2.name == h.name:
                    same |= {id(x) for st in h2.body for x in ast.walk(st)}
            reads = [x for x in walk_own(f.node) if isinstance(x, ast.Name)
                     and x.id == h.name and isinstance(x.ctx, ast.Load) and
                     id(x) not in same]
            for x in reads:
                bad += 1
                rep.evaluations += 1
                rep.functions.add(f.qname)
                rep.bad(rule, f.qname, '`%s` read outside its except clause'
                        % h.name,
                        '`%s` is bound by `except ... as %s` only; Python '
                        'deletes that name when the clause ends, so this '
                        'read raises UnboundLocalError: the relay fails '
                        'with a bare exception (retried as an unexpected '
                        'error) instead of the relay error it meant to '
                        'report' % (h.name, h.name), loc=f.loc(x))
    rep.evaluations += 1
    if not bad:
        rep.ok(rule, 'slimta.relay', 'no except-name read after its clause',
               reason='%d named except clauses scanned' % n,
               nontrivial=False)


# -------------------------------------------------------------------- N19
def n19(e: Engine, rep: Report, rule: str = 'N19'):
    """The LMTP relay client drives an LmtpClient, whose ehlo() / helo() are
    stubs raising NotImplementedError.  A step inherited from the SMTP relay
    client that reaches one of them (the HELO fall-back after `500`) ends the
    attempt with that bare exception instead of a relay error."""
    rep.rule(rule, 'nothing the LMTP relay client can run calls a method '
             'that its client class stubs out with NotImplementedError')
    from ..resolve import is_abstract
    cq = 'slimta.relay.smtp.lmtpclient.LmtpRelayClient'
    cc = 'slimta.smtp.client.LmtpClient'
    if cq not in e.p.classes or cc not in e.p.classes:
        rep.error('anchor vanished: LmtpRelayClient / LmtpClient')
        return
    ctx = e.method_ctx(cq, '_run')
    g = e.build(ctx, raises=lambda b, n, r: set(),
                inline=e.inline_same_self(deny=['poll']), max_depth=8)
    n = 0
    sites = []
    for nd in g.calls():
        f = nd.ast.func
        if isinstance(f, ast.Attribute) and \
                (path_of(f.value, nd.frame) or '') == 'self.client':
            sites.append((nd, f))
        # a bound method of the client handed to a runner
        # (self._timed(t, self.client.rcptto, rcpt))
        for a in list(nd.ast.args) + [k.value for k in nd.ast.keywords]:
            for y in ast.walk(a):
                if isinstance(y, ast.Attribute) and \
                        isinstance(y.ctx, ast.Load) and \
                        (path_of(y.value, nd.frame) or '') == 'self.client' \
                        and not any(isinstance(z, ast.Call) and z.func is y
                                    for z in ast.walk(a)):
                    sites.append((nd, y))
    for nd, f in sites:
        m = e.p.lookup_method(cc, f.attr)
        if m is None:
            continue
        n += 1
        rep.evaluations += 1
        rep.functions.add(nd.frame.ctx.func.qname)
        rep.check(not is_abstract(m), rule,
                  '%s[LmtpRelayClient]' % nd.frame.ctx.func.qname,
                  'client.%s() exists for LMTP' % f.attr,
                  'the LMTP relay client can reach `%s`, which LmtpClient '
                  'stubs out (raise NotImplementedError): the attempt ends '
                  'with that exception - for the queue an unexpected error, '
                  'retried, although the peer gave a definite answer'
                  % nd.text(40), loc=nd.loc(),
                  reason='implemented by LmtpClient')
    if n < 3:
        rep.error('anchor vanished: client commands below '
                  'LmtpRelayClient._run (%d < 3)' % n)


# -------------------------------------------------------------------- N18
def n18(e: Engine, rep: Report, rule: str = 'N18'):
    """SmtpRelayError.factory(reply) makes a relay error that carries the
    reply - the edges copy that reply into their own answer.  A reply the
    peer sent is handed to it only where is_error() has said so on this
    path: a 2xx / 3xx reply wrapped in a relay error comes out of the edge
    as `250 ...` for a message that was not relayed."""
    rep.rule(rule, 'a reply received from the peer is made into a relay '
             'error (SmtpRelayError.factory) only under its own is_error(): '
             'never a reply whose class has not been looked at (judged on '
             'the inlined _run of the SMTP / LMTP relay clients; sites whose '
             'argument cannot be traced to a client command are not judged)')
    n = 0
    for cq in e.concrete_classes('slimta.relay.smtp.client.SmtpRelayClient'):
        short = cq.rpartition('.')[2]
        ctx = e.method_ctx(cq, '_run')
        g = e.build(ctx, raises=lambda b, nn, r: set(),
                    inline=e.inline_same_self(deny=['poll']), max_depth=8)
        fx = e.facts(g)
        for fr in {x.frame for x in g.nodes}:
            rep.functions.add(fr.ctx.func.qname)
        for nd in g.calls():
            fn = nd.ast.func
            if not (isinstance(fn, ast.Attribute) and fn.attr == 'factory'
                    and nd.ast.args and
                    'RelayError' in ast.unparse(fn.value)):
                continue
            a = nd.ast.args[0]
            if not isinstance(a, ast.Name):
                continue
            n += 1
            st = fx.at(nd) or frozenset()
            try:
                q = canon(a, nd.frame)
            except Exception:
                q = path_of(a, nd.frame)
            guarded = holds(st, (True, q + '.is_error()')) or any(
                pol and k.endswith('.is_error()') and
                k[:-len('.is_error()')] in (q, path_of(a, nd.frame))
                for pol, k in st)
            src, sfr = common.origin(g, a, nd.frame)
            def is_peer(x):
                return isinstance(x, ast.Call) and \
                    isinstance(x.func, ast.Attribute) and \
                    'client' in ast.unparse(x.func.value)
            peer = is_peer(src)
            if not peer and isinstance(src, ast.Name):
                # a local bound more than once (`data = None` first): what
                # reaches this call
                for d in common.reaching_defs(g, nd, path_of(src, sfr)):
                    if d is not None and isinstance(d.ast, ast.Assign) and \
                            len(d.ast.targets) == 1 and \
                            isinstance(d.ast.targets[0], ast.Name):
                        v2, _f2 = common.origin(g, d.ast.value, d.frame)
                        if is_peer(v2):
                            peer = True
                            src = v2
            if not peer:
                continue                 # built here / a loop element: N2, N4
            rep.evaluations += 1
            where = '%s[%s]' % (nd.frame.ctx.func.qname, short)
            rep.check(guarded, rule, where, 'relay error made from `%s`'
                      % a.id,
                      'the reply to `%s` is made into a relay error although '
                      'is_error() has not been established for it on this '
                      'path: when the peer answered 2xx / 3xx the failure '
                      'carries a positive reply, which the edge hands on as '
                      'its own answer - the sender is told `250` for a '
                      'message that was not relayed' % ' '.join(
                          ast.unparse(src).split())[:40], loc=nd.loc(),
                      reason='under is_error()')
    if n < 10:
        rep.error('anchor vanished: SmtpRelayError.factory call sites below '
                  '_run (%d < 10)' % n)


def _error_by_construction(e: Engine, d: Node) -> bool:
    """`x = Reply('5xx' / '4xx', ...)` or the value of _get_error_reply"""
    v = d.ast.value
    if isinstance(v, ast.Call) and ast.unparse(v.func).endswith('Reply') \
            and v.args and isinstance(v.args[0], ast.Constant) and \
            str(v.args[0].value)[:1] in ('4', '5'):
        return True
    if isinstance(v, ast.Call) and isinstance(v.func, ast.Attribute) and \
            v.func.attr == '_get_error_reply':
        return True
    return False


# -------------------------------------------------------------------- N17
def n17(e: Engine, rep: Report, rule: str = 'N17'):
    """`No usable DNS records` is a permanent verdict (ValueError -> 550).
    MxRecord.get may reach it only with records it may trust: those of a
    lookup that this call made and that came back, or cached ones that have
    not expired.  A call that waited for somebody else's lookup (which may
    have failed: SERVFAIL, timeout) and then finds no records has learnt
    nothing - bouncing the message then turns a resolver failure into a
    permanent one."""
    rep.rule(rule, 'MxRecord.get raises its "no records" ValueError only '
             'after its own _resolve() returned on this path, or with '
             'records that are not expired')
    ctx = e.method_ctx('slimta.relay.smtp.mx.MxRecord', 'get')
    g = e.build(ctx, raises=lambda b, n, r: {'builtins.Exception'}
                if n.kind == 'call' and (e.call_name(n) or '').startswith(
                    '_resolve') else set(),
                inline=e.inline_same_self(deny=['_resolve', '_resolve_mx',
                                                '_resolve_a']), max_depth=3)
    where = ctx.func.qname
    rep.functions.add(where)
    raises = [n for n in g.of_kind('stmt') if isinstance(n.ast, ast.Raise)
              and n.ast.exc is not None and
              'ValueError' in ast.unparse(n.ast.exc)]
    # (the exception object may be built first: raise ValueError(msg))
    if not raises:
        rep.error('anchor vanished: the "no records" ValueError of '
                  'MxRecord.get')
        return
    from ..facts import atoms_of_test

    def step(n, label, st):
        if st:
            return True
        if n.kind == 'call' and (e.call_name(n) or '').startswith(
                '_resolve') and not isinstance(label, tuple):
            return True
        if n.kind == 'test' and label in ('T', 'F'):
            for pol, k in atoms_of_test(n.ast, label == 'T', n.frame):
                # the edge on which the cache has NOT expired
                if not pol and k == 'self.expired':
                    return True
                if not pol and 'self._expiration' in k and '<=' in k:
                    return True
        return False
    for r in raises:
        rep.evaluations += 1
        w = dataflow.typestate_witness(g, False, step,
                                       lambda n, st: n is r and not st)
        rep.check(w is None, rule, where,
                  '"no records" verdict rests on a lookup of this call or on '
                  'unexpired records',
                  'MxRecord.get can raise its permanent "no usable DNS '
                  'records" error on a path where the record was expired and '
                  'this call made no lookup that returned (it waited for, or '
                  'skipped, the lookup): a resolver failure somewhere else '
                  'bounces this message', loc=r.loc(),
                  reason='_resolve() returned, or not expired, on every path',
                  witness=dataflow.render_path(w, 12) if w else None)


# -------------------------------------------------------------------- N16
def n16(e: Engine, rep: Report, rule: str = 'N16'):
    """gevent counts a greenlet that was killed (GreenletExit) as
    successful(), with the GreenletExit instance as its .value.  A relay
    that kills its workers on a timeout and then collects `.value` files
    that instance in its result - neither a success value nor a relay
    error."""
    rep.rule(rule, 'in the relay modules no `.value` of a greenlet is '
             'collected on a path that follows a kill() of greenlets in the '
             'same function (a killed greenlet is "successful" with a '
             'GreenletExit object as its value)')
    n = 0
    for f in e.p.functions.values():
        if not f.module.name.startswith('slimta.relay'):
            continue
        kills = [x for x in walk_own(f.node) if isinstance(x, ast.Call) and
                 isinstance(x.func, ast.Attribute) and
                 x.func.attr in ('kill', 'killall', 'killone')]
        reads = [x for x in walk_own(f.node) if isinstance(x, ast.Attribute)
                 and x.attr == 'value' and isinstance(x.ctx, ast.Load) and
                 isinstance(x.value, ast.Name)]
        if not kills or not reads:
            continue
        ctx = Ctx(f, f.cls.qname if f.cls is not None else None)
        g = e.build(ctx, raises=lambda b, nn, r: {TIMEOUT}
                    if nn.kind == 'call' else set())
        rep.functions.add(f.qname)
        knodes = [c for c in g.calls() if c.ast in kills]
        for nd in g.nodes:
            if nd.kind not in ('stmt', 'call', 'test'):
                continue
            hit = [x for x in c07.own_exprs(nd) for y in ast.walk(x)
                   if y in reads]
            if not hit:
                continue
            n += 1
            rep.evaluations += 1
            w = dataflow.typestate_witness(
                g, False, lambda a, l, st: True if a in knodes else st,
                lambda a, st, nd=nd: a is nd and st)
            rep.check(w is None, rule, f.qname,
                      '`.value` collected at line %d' % nd.ast.lineno,
                      'after the workers were killed (timeout) their '
                      '`.value` is still collected: gevent reports a killed '
                      'greenlet as successful() with a GreenletExit object '
                      'as value, which ends up in the result table - the '
                      'queue matches no failure class for it and drops the '
                      'recipient instead of retrying', loc=nd.loc(),
                      reason='no kill on a path before',
                      witness=dataflow.render_path(w, 10) if w else None)
    if n == 0:
        rep.ok(rule, 'slimta.relay', 'no greenlet value collected after a '
               'kill', reason='nothing to check', nontrivial=False)


# ---------------------------------------------------------------------- N22
def n22(e: Engine, rep: Report):
    mods = [m for q, m in e.p.modules.items()
            if q == 'slimta.smtp.client' or q.startswith('slimta.relay.smtp')]
    if not mods:
        rep.error('anchor vanished: slimta.smtp.client / slimta.relay.smtp')
        return

    def advertised(x):
        if isinstance(x, ast.Call) and isinstance(x.func, ast.Attribute) \
                and x.func.attr == 'getparam':
            return not (len(x.args) > 1 or any(
                k.arg == 'filter' for k in x.keywords))
        if isinstance(x, ast.Subscript) and \
                isinstance(x.value, ast.Attribute) and \
                x.value.attr == 'extensions':
            return True
        return False
    n = 0
    for f in e.p.functions.values():
        if f.module not in mods:
            continue
        conv = [c for c in walk_own(f.node) if isinstance(c, ast.Call) and
                isinstance(c.func, ast.Name) and
                c.func.id in ('int', 'float') and len(c.args) >= 1]
        if not conv:
            continue
        local = {}
        for a in walk_own(f.node):
            if isinstance(a, ast.Assign) and len(a.targets) == 1 and \
                    isinstance(a.targets[0], ast.Name):
                local.setdefault(a.targets[0].id, []).append(a.value)
        for c in conv:
            a0 = c.args[0]
            src = [a0] if not isinstance(a0, ast.Name) else \
                local.get(a0.id, [])
            if not any(advertised(v) for v in src):
                continue
            n += 1
            rep.evaluations += 1
            rep.functions.add(f.qname)
            guarded = any(isinstance(y, ast.Attribute) and
                          y.attr in ('isdigit', 'isdecimal')
                          for y in walk_own(f.node))
            for t in walk_own(f.node):
                if isinstance(t, ast.Try) and any(
                        c in ast.walk(b) for b in t.body):
                    names = set()
                    for h in t.handlers:
                        if h.type is None:
                            names |= {'ValueError', 'TypeError'}
                        else:
                            for y in ast.walk(h.type):
                                if isinstance(y, ast.Name):
                                    names.add(y.id)
                    if {'ValueError', 'TypeError'} <= names or \
                            names & {'Exception', 'BaseException'}:
                        guarded = True
            rep.check(guarded, 'N22', f.qname,
                      '`%s` expects a bad value'
                      % ' '.join(ast.unparse(c).split())[:50],
                      '`%s` converts what the server advertised: an '
                      'extension named without a value gives None (TypeError), '
                      'one with text in place of the number ValueError - '
                      'neither is a relay error, so the attempt ends with an '
                      'exception type the queue does not classify (or the '
                      'raw exception as the result) although the server '
                      'would have taken the message'
                      % ' '.join(ast.unparse(c).split())[:50],
                      loc=f.loc(c), reason='inside try/except ValueError, '
                      'TypeError')
    rep.evaluations += 1
    if n == 0:
        rep.ok('N22', 'slimta.relay.smtp', 'no int() / float() of an '
               'advertised extension parameter in %d module(s)' % len(mods),
               reason='nothing converted by the caller', nontrivial=False)


# ---------------------------------------------------------------------- N23
def n23(e: Engine, rep: Report):
    MXR = 'slimta.relay.smtp.mx.MxRecord'
    c = e.p.classes.get(MXR)
    if c is None or 'get' not in c.methods:
        rep.error('anchor vanished: %s.get' % MXR)
        return
    f = c.methods['get']
    rep.functions.add(f.qname)

    def narrowing(v):
        for y in ast.walk(v):
            if isinstance(y, (ast.ListComp, ast.GeneratorExp, ast.SetComp)) \
                    and any(g.ifs for g in y.generators):
                return y
            if isinstance(y, ast.Call) and isinstance(y.func, ast.Name) and \
                    y.func.id in ('filter', 'takewhile', 'dropwhile'):
                return y
        return None
    n = 0
    for t in walk_own(f.node):
        if not isinstance(t, ast.If):
            continue
        if not any(isinstance(r, ast.Raise) and r.exc is not None and
                   'ValueError' in ast.unparse(r.exc)
                   for b in t.body for r in ast.walk(b)):
            continue
        n += 1
        rep.evaluations += 1
        bad = None
        for nm in ast.walk(t.test):
            if not isinstance(nm, ast.Name) or nm.id == 'self':
                continue
            if nm.id in f.params:
                bad = (nm.id, 'a parameter of get()')
                continue
            for a in walk_own(f.node):
                tg = a.targets if isinstance(a, ast.Assign) else (
                    [a.target] if isinstance(a, ast.AugAssign) else [])
                if any(isinstance(x, ast.Name) and x.id == nm.id
                       for x in tg):
                    y = narrowing(a.value)
                    if y is not None:
                        bad = (nm.id, '`%s`' % ' '.join(
                            ast.unparse(y).split())[:60])
        rep.check(bad is None, 'N23', f.qname,
                  '`%s` judges the resolver\'s answer'
                  % ' '.join(ast.unparse(t.test).split())[:50],
                  'the "no usable DNS records" verdict (ValueError, which '
                  'MxSmtpRelay.attempt turns into the permanent 550 5.1.2) '
                  'is reached on `%s`, which is %s and not the cached '
                  'answer: when the filter leaves nothing although the '
                  'domain has records, mail that a retry would deliver is '
                  'bounced' % (bad[0] if bad else '', bad[1] if bad else ''),
                  loc=f.loc(t), reason='reads the cached answer only')
    if n == 0:
        rep.ok('N23', f.qname, 'get() raises no ValueError under a test',
               reason='nothing to judge', nontrivial=False)


# ---------------------------------------------------------------------- N24
def n24(e: Engine, rep: Report):
    n = 0
    for f in sorted(e.p.functions.values(), key=lambda f: f.qname):
        if f.name != 'raise_error' or \
                not f.module.name.startswith('slimta.relay.pipe'):
            continue
        params = [a.arg for a in f.node.args.args][2:4]
        rep.functions.add(f.qname)
        for x in walk_own(f.node):
            if not (isinstance(x, ast.BoolOp) and isinstance(x.op, ast.Or)):
                continue
            n += 1
            rep.evaluations += 1
            raw = [v.id for v in x.values[:-1]
                   if isinstance(v, ast.Name) and v.id in params]
            rep.check(not raw, 'N24', f.qname,
                      '`%s`' % ' '.join(ast.unparse(x).split())[:60],
                      '`%s` picks the stream on the raw output: a stream '
                      'that holds only a line break is true, so the other '
                      'stream - the one with the diagnostic and its 5.X.X '
                      'status - is never looked at and the failure is '
                      'reported with the wrong class'
                      % ' '.join(ast.unparse(x).split())[:60],
                      loc=f.loc(x), reason='operands are stripped / derived '
                      'values, or the raw parameter stands last')
    if n == 0:
        rep.ok('N24', 'slimta.relay.pipe', 'no `or` chain in the raise_error '
               'methods', nontrivial=False, reason='nothing chosen by '
               'truthiness')
