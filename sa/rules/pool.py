"""Request typestate for RelayPoolClient subclasses (shared by C11-N5, C14-T3
and C19-L3).

A request obtained from `self.poll()` with a truthy result must, on every path
to the next `poll()` or to the end of `_run` - including exception edges - be
resolved exactly through `result.set(...)`, `result.set_exception(...)` or be
put back with `queue.appendleft((result, envelope))`.  A stranded request
leaves `RelayPool.attempt` blocked in `result.get()` forever.
"""
from __future__ import annotations

import ast
from collections import deque
from typing import Dict, List, Optional, Set, Tuple

from ..engine import Engine
from ..report import Report
from ..cfg import Node, ANY, TIMEOUT, CFG
from ..facts import path_of, canon
from ..resolve import Ctx
from .. import dataflow
from . import common

POOL_CLIENT = 'slimta.relay.pool.RelayPoolClient'

# External callables that do not raise for the purposes of the typestate
# (value constructors and accessors).  Everything else external may raise.
PURE_EXTERNAL_NAMES = {
    'set', 'set_exception', 'ready', 'str', 'len', 'isinstance', 'dict',
    'list', 'tuple', 'zip', 'enumerate', 'range', 'sorted', 'min', 'max',
    'int', 'bool', 'repr', 'getattr', 'hasattr', 'format', 'join', 'split',
    'startswith', 'endswith', 'decode', 'encode', 'upper', 'lower', 'items',
    'keys', 'values', 'get', 'append', 'add', 'fromkeys', 'copy', 'group',
    'match', 'finditer', 'rstrip', 'strip', 'getfqdn', 'Timeout',
    'getheader', 'getheaders', 'locked', 'release', 'super', 'wraps',
    'urlsplit', 'b64encode', 'memoryview', 'bytes', 'bytearray', 'type',
    'callable', 'iter', 'next', 'any', 'all', 'id', 'hex', 'rsplit',
    'partial', 'repeat', 'discard', 'insort', 'time', 'uuid4', 'fileno',
    '__init__', 'replace', 'index', 'count', 'lstrip', 'find', 'title',
}


def _may_raise(e: Engine, ctx: Ctx, memo: Dict, stack: Set) -> bool:
    """Can an exception other than AssertionError leave this function?
    (explicit raise, or a call to an impure external, transitively).
    Functions of slimta.logging are effect-free by convention (DESIGN 2.2)."""
    key = ctx.key()
    if key in memo:
        return memo[key]
    if key in stack:
        return False
    if ctx.func.module.name.startswith('slimta.logging'):
        memo[key] = False
        return False
    stack = stack | {key}
    from ..model import walk_own
    out = False
    for n in walk_own(ctx.func.node):
        if isinstance(n, ast.Raise):
            out = True
            break
        if isinstance(n, ast.Call):
            res = e.r.resolve_call(n, ctx)
            if res.unresolved:
                out = True
                break
            for x in res.externals:
                nm = x.rpartition('.')[2].replace('()', '')
                if nm not in PURE_EXTERNAL_NAMES and \
                        not nm[:1].isupper():
                    out = True
                    break
            if out:
                break
            for t in res.targets:
                if _may_raise(e, t.ctx(), memo, stack):
                    out = True
                    break
            if out:
                break
    if len(stack) == 1:
        memo[key] = out
    return out


def make_raises(e: Engine):
    memo: Dict = {}

    def raises(builder, n: Node, res):
        if res is None:
            return {ANY}
        may = False
        if res.unresolved:
            may = True
        for x in res.externals:
            nm = x.rpartition('.')[2].replace('()', '')
            if nm not in PURE_EXTERNAL_NAMES and not nm[:1].isupper():
                may = True
        for t in res.targets:
            if _may_raise(e, t.ctx(), memo, set()):
                may = True
        if not may:
            return set()
        toks = {ANY}
        if any(common.timeout_scope(e, sc) for sc in n.scopes):
            toks.add(TIMEOUT)
        return toks
    return raises


def _poll_sites(e: Engine, g: CFG) -> List[Node]:
    """stmt nodes `a, b = self.poll()`."""
    out = []
    for n in g.of_kind('stmt'):
        a = n.ast
        if isinstance(a, ast.Assign) and isinstance(a.value, ast.Call) and \
                isinstance(a.value.func, ast.Attribute) and \
                a.value.func.attr == 'poll':
            res = e.r.resolve_call(a.value, n.ctx)
            if any(t.func.qname == POOL_CLIENT + '.poll'
                   for t in res.targets):
                out.append(n)
        elif isinstance(a, ast.Assign) and isinstance(a.value, ast.Call):
            # `a, b = self._next_request()` where the helper hands on what
            # poll() returned (or "no request": None / (None, None))
            from . import common
            vals = common.values_of(g, a.value, n.frame)
            if len(vals) == 1 and vals[0][0] is a.value:
                continue

            def is_poll(v, fr):
                if isinstance(v, ast.Call) and \
                        isinstance(v.func, ast.Attribute) and \
                        v.func.attr == 'poll':
                    r2 = e.r.resolve_call(v, fr.ctx)
                    return any(t.func.qname == POOL_CLIENT + '.poll'
                               for t in r2.targets)
                return False

            def is_none(v):
                return (isinstance(v, ast.Constant) and v.value is None) or (
                    isinstance(v, ast.Tuple) and all(
                        isinstance(x, ast.Constant) and x.value is None
                        for x in v.elts))
            if any(is_poll(v, fr) for v, fr in vals) and all(
                    is_poll(v, fr) or is_none(v) for v, fr in vals):
                out.append(n)
    return out


def request_typestate(e: Engine, rep: Report, rule: str,
                      only_exc: Optional[Tuple[str, ...]] = None):
    """only_exc: restrict violations to witnesses whose path contains an
    exception edge with one of these tokens (C14-T3 looks at Timeout only);
    None = every stranded request counts."""
    p = e.p
    rep.rule(rule, 'pool request typestate: a polled request is resolved '
             '(set / set_exception / appendleft) exactly once in effect on '
             'every path, including exception edges' +
             (' [restricted to %s edges]' % ','.join(only_exc)
              if only_exc else ''))
    classes = [c for c in e.concrete_classes(POOL_CLIENT)
               if c != POOL_CLIENT]
    if len(classes) < 3:
        rep.error('anchor vanished: RelayPoolClient subclasses (%d < 3)'
                  % len(classes))
    raises = make_raises(e)
    for c in classes:
        ctx = e.method_ctx(c, '_run')
        where = '%s[%s]' % (ctx.func.qname, c.rpartition('.')[2])
        g = e.build(ctx, inline=e.inline_same_self(deny=['poll']),
                    raises=raises, max_depth=8, assert_raises=False)
        for fr in {n.frame for n in g.nodes}:
            rep.functions.add(fr.ctx.func.qname)
        polls = _poll_sites(e, g)
        if not polls:
            rep.error('anchor vanished: no `x, y = self.poll()` in %s'
                      % where)
            continue
        # request variables: names bound from poll(), closed under bind
        res_vars: Set[str] = set()     # resolvable (first element)
        pair_vars: Set[str] = set()    # any element of the pair
        for s in polls:
            tg = s.ast.targets[0]
            if isinstance(tg, (ast.Tuple, ast.List)) and tg.elts:
                first = path_of(tg.elts[0], s.frame)
                if first:
                    res_vars.add(first)
                for el in tg.elts:
                    q = path_of(el, s.frame)
                    if q:
                        pair_vars.add(q)
            else:
                q = path_of(tg, s.frame)
                if q:
                    res_vars.add(q)
                    pair_vars.add(q)
        changed = True
        while changed:
            changed = False
            for b in g.of_kind('bind'):
                x = b.extra
                if x.get('is_self') or x.get('arg') is None:
                    continue
                ap = path_of(x['arg'], x['arg_frame'])
                new = '%s#%d' % (x['param'], b.frame.id)
                if ap in res_vars and new not in res_vars:
                    res_vars.add(new)
                    pair_vars.add(new)
                    changed = True
                elif ap in pair_vars and new not in pair_vars:
                    pair_vars.add(new)
                    changed = True

        def resolved_paths(n: Node):
            """variable paths a resolution call names (set / set_exception
            on it, or a (result, envelope) pair given back to the queue)"""
            if n.kind != 'call' or not isinstance(n.ast.func, ast.Attribute):
                return []
            nm = n.ast.func.attr
            if nm in ('set', 'set_exception'):
                q = path_of(n.ast.func.value, n.frame)
                return [q] if q in res_vars else []
            out = []
            if nm in ('appendleft', 'append'):
                # queue.appendleft((result, envelope))
                for a in n.ast.args:
                    if isinstance(a, ast.Tuple):
                        for el in a.elts:
                            q = path_of(el, n.frame)
                            if q in res_vars:
                                out.append(q)
            return out

        def live(names):
            return ('live', frozenset(names))

        def is_live(st):
            return isinstance(st, tuple) and st[0] == 'live'

        def is_requeued(st):
            return isinstance(st, tuple) and st[0] == 'requeued'

        def step(n: Node, label, st):
            """status after leaving n through edge `label`.  A live request
            is known by the names that stand for it: the poll() target, and
            the parameters it was handed to.  Resolving another name (the
            request of an earlier poll, kept by a caller's local) does not
            settle it."""
            if n in polls and not isinstance(label, tuple):
                tg = n.ast.targets[0]
                first = tg.elts[0] if isinstance(tg, (ast.Tuple, ast.List)) \
                    and tg.elts else tg
                names = {path_of(first, n.frame)}
                if isinstance(tg, (ast.Tuple, ast.List)):
                    names |= {path_of(el, n.frame) for el in tg.elts}
                return live(x for x in names if x)
            if is_requeued(st):
                # given back to the queue: another client will settle it
                return st
            if not is_live(st):
                return st
            names = st[1]
            if n.kind == 'bind' and not isinstance(label, tuple):
                x = n.extra
                if not x.get('is_self') and x.get('arg') is not None:
                    ap = path_of(x['arg'], x['arg_frame'])
                    if ap in names:
                        return live(names | {'%s#%d' % (x['param'],
                                                        n.frame.id)})
                return st
            if n.kind == 'stmt' and isinstance(n.ast, ast.Assign) and \
                    not isinstance(label, tuple) and \
                    isinstance(n.ast.value, (ast.Name, ast.Tuple, ast.List)):
                # x = result / r, env = result, envelope (also what a `for`
                # over an inlined generator receives from its `yield`)
                vf = n.extra.get('yield_frame') or n.frame
                v = n.ast.value
                pairs = []
                for t in n.ast.targets:
                    if isinstance(v, ast.Name):
                        pairs.append((t, v))
                    elif isinstance(t, (ast.Tuple, ast.List)) and \
                            len(t.elts) == len(v.elts):
                        pairs += list(zip(t.elts, v.elts))
                new = set(names)
                hit = False
                for t, vv in pairs:
                    if isinstance(vv, ast.Name) and \
                            path_of(vv, vf) in names:
                        q = path_of(t, n.frame)
                        if q:
                            hit = True
                            new.add(q)
                            res_vars.add(q)
                            pair_vars.add(q)
                if hit:
                    return live(new)
            if n.kind == 'test' and label in ('T', 'F'):
                t = n.ast
                if path_of(t, n.frame) in names:
                    return st if label == 'T' else 'none'
                if isinstance(t, ast.Call) and \
                        isinstance(t.func, ast.Attribute) and \
                        t.func.attr == 'ready' and \
                        path_of(t.func.value, n.frame) in names:
                    return 'done' if label == 'T' else st
                if isinstance(t, ast.Compare) and len(t.ops) == 1 and \
                        isinstance(t.ops[0], (ast.Is, ast.IsNot)) and \
                        path_of(t.left, n.frame) in names and \
                        isinstance(t.comparators[0], ast.Constant) and \
                        t.comparators[0].value is None:
                    is_none = (label == 'T') == isinstance(t.ops[0], ast.Is)
                    return 'none' if is_none else st
                return st
            if any(q in names for q in resolved_paths(n)):
                # the resolution call itself is assumed not to fail
                if n.ast.func.attr in ('appendleft', 'append') and \
                        not isinstance(label, tuple):
                    return ('requeued', names)
                return 'done'
            return st

        # forward may-analysis over sets of statuses
        def transfer(n, states):
            out = {}
            for label, s in n.succ:
                out[label] = frozenset(step(n, label, x) for x in states)
            return out
        IN = dataflow.forward(g, frozenset(['none']), transfer,
                              lambda a, b: a | b)
        rep.evaluations += len(IN)

        def witness(goal: Node, need_tokens, want=is_live) -> Optional[List]:
            """BFS over (node, status) from entry to goal with status
            'live'; optionally requires an exception edge with a token."""
            start = (g.entry.id, 'none', False)
            prev = {start: None}
            work = deque([start])
            nodes = {n.id: n for n in g.nodes}
            found = None
            while work:
                cur = work.popleft()
                nid, st, tok = cur
                n = nodes[nid]
                if n is goal and want(st) and (tok or not need_tokens):
                    found = cur
                    break
                for label, s in n.succ:
                    st2 = step(n, label, st)
                    tok2 = tok or (isinstance(label, tuple) and
                                   need_tokens is not None and
                                   label[1] in need_tokens)
                    nxt = (s.id, st2, tok2)
                    if nxt not in prev:
                        prev[nxt] = (cur, label)
                        work.append(nxt)
            if found is None:
                return None
            path = [(nodes[found[0]], None)]
            cur = found
            while prev[cur] is not None:
                pc, label = prev[cur]
                path.append((nodes[pc[0]], label))
                cur = pc
            return path[::-1]

        # a request given back to the queue is not settled by this client
        # any more (the client that takes it next will)
        if only_exc is None:
            for n in g.calls():
                if not (isinstance(n.ast.func, ast.Attribute) and
                        n.ast.func.attr in ('set', 'set_exception')):
                    continue
                qs = resolved_paths(n)
                st = IN.get(n.id) or frozenset()
                hit = [x for x in st if is_requeued(x) and
                       any(q in x[1] for q in qs)]
                if not hit:
                    continue
                w = witness(n, None, want=lambda x: is_requeued(x) and any(
                    q in x[1] for q in qs))
                rep.bad(rule, where, '`%s` after the request was given '
                        'back' % n.text(40),
                        'the client puts the request back on the queue and '
                        'then settles it as well: the attempt is told that '
                        'delivery failed while the next client takes the '
                        'same request off the queue and delivers it - one '
                        'request, two outcomes', loc=n.loc(),
                        witness=dataflow.render_path(w, 18) if w else None)
        # obligations: every terminal and every re-poll
        sinks = [(g.exit, 'normal end of _run'),
                 (g.raise_exit, 'exception leaves _run')] + \
            [(s, 'next poll()') for s in polls]
        for node, desc in sinks:
            st = IN.get(node.id)
            text = 'request resolved before %s' % desc
            if node in polls:
                text += ' in ' + node.frame.ctx.func.name
            if st is None:
                rep.ok(rule, where, text, reason='not reachable',
                       nontrivial=False)
                continue
            bad = any(is_live(x) for x in st)
            w = None
            if bad:
                w = witness(node, only_exc)
                if w is None:
                    bad = False   # live only on paths outside the restriction
            if not bad:
                rep.ok(rule, where, text,
                       reason='statuses on arrival: %s' % sorted(
                           x[0] if isinstance(x, tuple) else x for x in st),
                       loc=node.loc())
            else:
                rep.bad(rule, where, text,
                        'a request obtained from poll() can reach %s '
                        'unresolved: RelayPool.attempt() then blocks in '
                        'result.get() forever' % desc,
                        loc=node.loc(),
                        witness=dataflow.render_path(w, 18))
