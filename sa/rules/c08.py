"""C08 - nothing crosses the STARTTLS boundary; AUTH only when permitted.

R8.1 no plaintext byte survives the socket swap (recv_buffer emptied or
     refused wherever self.socket is replaced by wrap_socket(...))
R8.2 after the handshake the server is back in the just-greeted state
R8.3 AUTH gating (precondition row AUTH of C07)
R8.4 bare AUTH is answered, not crashed (R7.6 for AUTH)
R8.5 the insecure-mechanism guard is present and live for PLAIN / LOGIN
R8.6 authenticated only on 235; credentials handed over unmodified
R8.7 malformed AUTH maps to a reply (exception-escape analysis)
"""
from __future__ import annotations

import ast
import os
from typing import Dict, List, Optional, Set

from ..engine import Engine
from ..report import Report
from ..cfg import Node, CFG, ANY, TIMEOUT
from ..facts import path_of, canon, holds, atoms_of_test, key_paths
from ..model import Program, walk_own
from ..resolve import Ctx
from .. import dataflow, tables
from . import common, c07

SERVER = c07.SERVER
IO = 'slimta.smtp.io.IO'
AUTHS = 'slimta.smtp.auth.AuthSession'
SESSION = c07.SESSION
CLEAR_MECHS = (b'PLAIN', b'LOGIN')


def run(e: Engine, rep: Report):
    rep.rule('R8.1', 'wherever self.socket is replaced by wrap_socket(...) '
             'the receive buffer is emptied (or the swap refused when it is '
             'not empty) before the function returns successfully')
    rep.rule('R8.2', 'success path of _command_STARTTLS resets ehlo_as, '
             'have_mailfrom, have_rcptto and drops the STARTTLS extension')
    rep.rule('R8.3', 'AUTH callback only with AUTH offered, after EHLO, not '
             'yet authenticated, outside a transaction')
    rep.rule('R8.4', 'the AUTH argument is never used unguarded (bare AUTH)')
    rep.rule('R8.5', 'mechanism.server_attempt is unreachable with an '
             'insecure mechanism on an unencrypted session, and the '
             'insecure predicate can be true for PLAIN and LOGIN of the '
             'installed pysasl')
    rep.rule('R8.6', 'authed / session.auth only under 235; the credentials '
             'object reaches the callback unmodified')
    rep.rule('R8.7', 'no malformed-input exception class escapes '
             '_command_AUTH')
    rep.not_decided += ['the TLS layer itself', 'Unicode normalisation '
                        'inside pysasl', 'byte-level behaviour of buffered '
                        'plaintext (decided structurally: the buffer is '
                        'emptied at the swap)']
    r81(e, rep)
    r82(e, rep)
    r83_r84(e, rep)
    r85(e, rep)
    r86(e, rep)
    r87(e, rep)
    rep.rule('R8.8', 'who-may-extend: the offered extension set is added '
             'to / replaced by the constructor only (STARTTLS, once '
             'withdrawn after the handshake, cannot come back)')
    r88(e, rep)
    rep.rule('R8.9', 'an accepted HELO empties the extension set '
             '(self.extensions.reset() on every path that sets ehlo_as): '
             'extension commands are refused in a session without EHLO')
    r89(e, rep)
    rep.rule('R8.10', 'state of Extensions derived from the set is '
             'refreshed by every method that changes the set')
    r810(e, rep)
    rep.rule('R8.11', '= C07-R7.8: the flags the AUTH gate tests by '
             'truthiness (have_mailfrom, authed, ehlo_as) are set to values '
             'that are truthy whenever the command was accepted (a null '
             'reverse-path stored in have_mailfrom lets AUTH run inside a '
             'transaction)')
    c07.r78(e, rep, 'R8.11')
    rep.rule('R8.12', 'the challenge-response history handed to the SASL '
             'mechanism belongs to one AUTH command: a local list created '
             'in server_attempt, or object state emptied on every path '
             'before the first use (responses of a cancelled attempt are '
             'not credentials of the next one)')
    r812(e, rep)
    rep.rule('R8.13', 'a session handler answers by changing the reply it '
             'was given: no method of SmtpSession rebinds its `reply` '
             'parameter (a new Reply bound to the local name never reaches '
             'the server - AUTH stays 235 although the handler meant 454)')
    r813(e, rep)
    rep.rule('R8.14', '= C07-R7.15: recv_line hands back only whole lines '
             '(SASL responses are read with it: a line cut at a length cap '
             'is a credential the client did not send)')
    c07.r715(e, rep, 'R8.14')
    rep.rule('R8.15', 'a validator that fails has not accepted: an '
             'exception out of the application\'s handle_* method leaves '
             'SmtpSession._call_validator (no arm swallows it) - the reply '
             'handed in starts as the success reply (235 for AUTH), so going '
             'on after a failed validator authenticates the client')
    r815(e, rep)
    rep.rule('R8.16', 'nothing received in clear text outlives the '
             'handshake: every attribute of IO that its receive path writes '
             '(recv_buffer and whatever is derived from it: parsed replies, '
             'partial lines, cursors) is reset by encrypt_socket_client and '
             'encrypt_socket_server')
    r816(e, rep)
    common.reuse(e, rep, c07.r711, 'R8.17',
                 '= C07-R7.11: what the server does on its own initiative '
                 '(greeting, a handshake at the start of the session) is '
                 'not a verb: no _command_<NAME> that handle() itself starts '
                 'with can be spelled with the alphabet of the command '
                 'patterns (a handshake the client can ask for by name runs '
                 'in the middle of the session and resets nothing)',
                 only={'R7.11'})
    rep.rule('R8.18', 'whether the client sent a response is never read '
             'off the decoded bytes: no value that comes out of b64decode '
             '(directly or through a helper of AuthSession) is tested for '
             'truth (`x or ...`, `not x`, `if x`) - the zero-length response '
             '`=` of RFC 4954 decodes to b\'\', which is false: the server '
             'sends a challenge the client does not expect and takes the '
             'next line for the credentials')
    r818(e, rep)
    rep.floor('R8.1', 1, 'socket swap sites')


# ------------------------------------------------------------------ R8.1
def r81(e: Engine, rep: Report):
    p = e.p
    sites = []
    for f in p.functions.values():
        if f.cls is None or not f.module.name.startswith('slimta.'):
            continue
        sn = f.self_name
        def is_wrap(v, depth=0):
            if isinstance(v, ast.Call) and isinstance(v.func, ast.Attribute) \
                    and v.func.attr == 'wrap_socket':
                return True
            if isinstance(v, ast.Name) and depth < 2:
                defs = [a.value for a in walk_own(f.node)
                        if isinstance(a, ast.Assign) and any(
                            isinstance(t, ast.Name) and t.id == v.id
                            for t in a.targets)]
                return bool(defs) and all(is_wrap(d, depth + 1)
                                          for d in defs)
            return False
        # in the class that owns the receive buffer every replacement of
        # the socket after construction is a swap, whatever produced the new
        # socket (a handshake handed in as a callable, a helper)
        owns_buffer = f.name != '__init__' and any(
            isinstance(a, ast.Assign) and any(
                isinstance(t, ast.Attribute) and t.attr == 'recv_buffer' and
                isinstance(t.value, ast.Name) and t.value.id == 'self'
                for t in a.targets)
            for m2 in f.cls.methods.values() if m2.name == '__init__'
            for a in walk_own(m2.node))
        for n in walk_own(f.node):
            if isinstance(n, ast.Assign) and (is_wrap(n.value) or
                                              owns_buffer):
                for t in n.targets:
                    if isinstance(t, ast.Attribute) and \
                            isinstance(t.value, ast.Name) and \
                            t.value.id == sn and t.attr == 'socket':
                        sites.append((f, n))
    for f, stmt in sites:
        ctx = Ctx(f)
        g = e.build(ctx, inline=e.inline_same_self())
        fx = e.facts(g)
        where = f.qname
        rep.functions.add(where)

        def ev(n):
            if n.kind == 'stmt' and isinstance(n.ast, ast.Assign):
                v = n.ast.value
                if isinstance(v, ast.Constant) and v.value == b'':
                    for t in n.ast.targets:
                        if path_of(t, n.frame) == 'self.recv_buffer':
                            return ['clear']
            return []
        after = dataflow.must_events_after(g, ev, edge=c07.no_call_exc,
                                           on_raise=dataflow.TOP)
        for n in g.of_kind('stmt'):
            if n.ast is not stmt:
                continue
            rep.evaluations += 1
            st = after.get(n.id)
            cleared = isinstance(st, dataflow.Top) or (
                st is not None and 'clear' in st)
            facts = fx.at(n)
            refused = holds(facts, (False, 'self.recv_buffer'))
            p2 = None
            if not (cleared or refused):
                p2 = dataflow.find_path(
                    g, n, lambda x: x is g.exit,
                    avoid=lambda x: bool(ev(x)),
                    edge_ok=lambda a, l, s: not isinstance(l, tuple))
            rep.check(cleared or refused, 'R8.1', where,
                      'self.socket = ....wrap_socket(...) leaves no '
                      'buffered plaintext',
                      'the socket is replaced by its TLS wrapper while '
                      'IO.recv_buffer keeps bytes received in clear text: '
                      'they are parsed as commands/replies after the '
                      'handshake (STARTTLS injection)',
                      reason='recv_buffer emptied after / required empty '
                      'before the swap', loc=n.loc(),
                      witness=dataflow.render_path(p2) if p2 else None)


# ------------------------------------------------------------------ R8.2
def r82(e: Engine, rep: Report):
    ctx = e.method_ctx(SERVER, '_command_STARTTLS')
    g = e.build(ctx, inline=e.inline_same_self(
        deny=['_call_custom_handler']), max_depth=5)
    where = ctx.func.qname
    rep.functions.add(where)
    attrs = ('ehlo_as', 'have_mailfrom', 'have_rcptto', 'ext:STARTTLS')
    trig = [n for n in g.nodes if n.kind == 'call' and
            e.call_name(n) == '_call_custom_handler' and
            c07.cb_name(n) == 'STARTTLS']
    if not trig:
        rep.error('anchor vanished: STARTTLS callback site')
        return

    def resets(n: Node):
        out = set()
        if n.kind == 'stmt' and isinstance(n.ast, ast.Assign):
            v = n.ast.value
            falsy = isinstance(v, ast.Constant) and not v.value
            for t in n.ast.targets:
                pth = path_of(t, n.frame) if isinstance(t, ast.Attribute) \
                    else None
                if pth and pth.startswith('self.') and pth[5:] in attrs:
                    out.add(('set' if falsy else 'dirty', pth[5:]))
        if n.kind == 'call' and e.call_name(n) == 'drop' and n.ast.args \
                and isinstance(n.ast.args[0], ast.Constant) and \
                n.ast.args[0].value == 'STARTTLS' and \
                canon(n.ast.func.value, n.frame) == 'self.extensions':
            out.add(('set', 'ext:STARTTLS'))
        if n.kind == 'call' and e.call_name(n) == 'reset' and \
                canon(n.ast.func.value, n.frame) == 'self.extensions':
            out.add(('set', 'ext:STARTTLS'))
        return out

    def step(n, label, st):
        trg, cs, rs = st
        if n in trig and not isinstance(label, tuple):
            trg, rs, cs = True, frozenset(), 'unknown'
        if n.kind == 'test' and label in ('T', 'F'):
            for pol, k in atoms_of_test(n.ast, label == 'T', n.frame):
                if k.endswith(".code == '220'"):
                    cs = 'ok' if pol else 'notok'
                elif pol and '.code == ' in k:
                    cs = 'notok'
        if not isinstance(label, tuple):
            for kind, a in resets(n):
                rs = (rs | {a}) if kind == 'set' else (rs - {a})
        return (trg, cs, rs)
    init = (False, 'unknown', frozenset())
    IN = dataflow.typestate(g, init, step)
    st = IN.get(g.exit.id) or frozenset()
    for a in attrs:
        rep.evaluations += 1
        bad = [s for s in st if s[0] and s[1] != 'notok' and a not in s[2]]
        w = None
        if bad:
            pth = dataflow.typestate_witness(
                g, init, step, lambda n, s: n is g.exit and s in bad)
            w = dataflow.render_path(pth, 20) if pth else None
        nice = a.replace('ext:', 'extension ')
        rep.check(not bad, 'R8.2', where,
                  'after the handshake: %s forgotten' % nice,
                  'state `%s` established in clear text survives the TLS '
                  'handshake: the session is not back in its just-greeted '
                  'state' % nice,
                  reason='reset on every successful path', loc=ctx.func.loc(),
                  witness=w)


# ------------------------------------------------------------- R8.3 / R8.4
def r83_r84(e: Engine, rep: Report):
    name = '_command_AUTH'
    g = c07.build(e, name)
    fx = e.facts(g)
    where = SERVER + '.' + name
    sub = Report(rep.prop, rep.tier, rep.repo)
    seen = set()
    c07.r71(e, sub, g, fx, where, c07.arg_path(g), seen)
    if 'AUTH' not in seen:
        rep.error('anchor vanished: AUTH callback site')
    c07.r76(e, sub, name, where)
    for o in sub.obls:
        rule = 'R8.3' if o.rule == 'R7.1' else 'R8.4'
        rep.add(rule, o.where, o.text, o.status, o.what, o.loc, o.witness,
                o.nontrivial, o.reason)
    rep.evaluations += sub.evaluations


# ------------------------------------------------------------------ R8.5
def _pysasl_root() -> Optional[str]:
    for base in ('/venv/lib/python3.12/site-packages',):
        pth = os.path.join(base, 'pysasl')
        if os.path.isdir(pth):
            return pth
    import glob
    for pth in glob.glob('/venv/lib/python3*/site-packages/pysasl'):
        return pth
    return None


def _mech_classes(root: str) -> Dict[bytes, ast.ClassDef]:
    """PLAIN/LOGIN mechanism classes of the installed pysasl (AST only):
    classes whose __init__ default name is the mechanism name."""
    out = {}
    trees = {}
    for dp, dn, fns in os.walk(os.path.join(root, 'mechanism')):
        for fn in fns:
            if fn.endswith('.py'):
                with open(os.path.join(dp, fn)) as f:
                    try:
                        trees[fn] = ast.parse(f.read())
                    except SyntaxError:
                        continue
    classes = {}
    for t in trees.values():
        for n in t.body:
            if isinstance(n, ast.ClassDef):
                classes[n.name] = n
    for n in classes.values():
        for s in n.body:
            if isinstance(s, ast.FunctionDef) and s.name == '__init__':
                for d in s.args.defaults:
                    if isinstance(d, ast.Constant) and \
                            isinstance(d.value, bytes) and \
                            d.value in CLEAR_MECHS:
                        out[d.value] = n
    return out, classes


def _class_defines(cls: ast.ClassDef, classes, attr: str, seen=None) -> bool:
    seen = seen or set()
    if cls.name in seen:
        return False
    seen.add(cls.name)
    for s in cls.body:
        if isinstance(s, ast.Assign):
            for t in s.targets:
                if isinstance(t, ast.Name) and t.id == attr:
                    return True
        if isinstance(s, ast.AnnAssign) and isinstance(s.target, ast.Name) \
                and s.target.id == attr and s.value is not None:
            return True
        if isinstance(s, ast.FunctionDef) and s.name == attr:
            return True
        if isinstance(s, ast.FunctionDef):
            for n in ast.walk(s):
                if isinstance(n, ast.Attribute) and n.attr == attr and \
                        isinstance(n.ctx, ast.Store) and \
                        isinstance(n.value, ast.Name) and \
                        n.value.id == 'self':
                    return True
    for b in cls.bases:
        nm = b.id if isinstance(b, ast.Name) else (
            b.attr if isinstance(b, ast.Attribute) else None)
        if nm in classes and _class_defines(classes[nm], classes, attr,
                                            seen):
            return True
    return False


def _can_be_true(expr, mech: bytes, mech_var: str, func_node, mechs,
                 classes, depth=0):
    """True / False / None(unknown): can `expr` be truthy when the local
    `mech_var` is the installed pysasl mechanism `mech`?"""
    if depth > 6:
        return None
    if isinstance(expr, ast.Constant):
        return bool(expr.value)
    if isinstance(expr, ast.BoolOp):
        vals = [_can_be_true(v, mech, mech_var, func_node, mechs, classes,
                             depth + 1) for v in expr.values]
        if isinstance(expr.op, ast.Or):
            if any(v is True for v in vals):
                return True
            return None if any(v is None for v in vals) else False
        if any(v is False for v in vals):
            return False
        return None if any(v is None for v in vals) else True
    if isinstance(expr, ast.Call) and isinstance(expr.func, ast.Name) and \
            expr.func.id == 'getattr' and len(expr.args) >= 2 and \
            isinstance(expr.args[0], ast.Name) and \
            expr.args[0].id == mech_var and \
            isinstance(expr.args[1], ast.Constant):
        cls = mechs.get(mech)
        if cls is None:
            return None
        if _class_defines(cls, classes, expr.args[1].value):
            return None          # defined: value unknown, may be true
        if len(expr.args) >= 3:
            return _can_be_true(expr.args[2], mech, mech_var, func_node,
                                mechs, classes, depth + 1)
        return False
    if isinstance(expr, ast.Attribute) and isinstance(expr.value, ast.Name) \
            and expr.value.id == mech_var:
        cls = mechs.get(mech)
        if cls is None:
            return None
        return None if _class_defines(cls, classes, expr.attr) else False
    if isinstance(expr, ast.Compare) and len(expr.ops) == 1 and \
            isinstance(expr.ops[0], ast.In):
        left = ast.unparse(expr.left)
        if left.startswith(mech_var + '.name') or 'name' in left.lower():
            try:
                vals = ast.literal_eval(expr.comparators[0])
            except Exception:
                return None
            norm = set()
            for v in vals:
                if isinstance(v, str):
                    v = v.encode('ascii')
                if isinstance(v, bytes):
                    norm.add(v.upper())
            return mech in norm
        return None
    if isinstance(expr, ast.Name):
        vals = [n.value for n in walk_own(func_node)
                if isinstance(n, ast.Assign) and len(n.targets) == 1 and
                isinstance(n.targets[0], ast.Name) and
                n.targets[0].id == expr.id]
        if len(vals) == 1:
            return _can_be_true(vals[0], mech, mech_var, func_node, mechs,
                                classes, depth + 1)
        return None
    return None


def r85(e: Engine, rep: Report):
    ctx = e.method_ctx(AUTHS, 'server_attempt')
    g = e.build(ctx, inline=e.inline_same_self())
    where = ctx.func.qname
    rep.functions.add(where)
    # the downstream attempt: <local>.server_attempt(...) on an external obj
    calls = [n for n in g.nodes if n.kind == 'call' and
             e.call_name(n) == 'server_attempt' and
             not e.targets(n) and isinstance(n.ast.func, ast.Attribute) and
             isinstance(n.ast.func.value, ast.Name)]
    if not calls:
        rep.error('anchor vanished: mechanism.server_attempt(...) call in '
                  'AuthSession.server_attempt')
        return
    mech_var = calls[0].ast.func.value.id
    mech_path = canon(calls[0].ast.func.value, calls[0].frame)
    fnode = ctx.func.node
    # names data-dependent on the mechanism object
    dep = {mech_var}
    changed = True
    while changed:
        changed = False
        for n in walk_own(fnode):
            if isinstance(n, ast.Assign) and len(n.targets) == 1 and \
                    isinstance(n.targets[0], ast.Name) and \
                    n.targets[0].id not in dep:
                if any(isinstance(x, ast.Name) and x.id in dep
                       for x in ast.walk(n.value)):
                    # the mechanism itself comes from get_server(name);
                    # predicates on it must mention it
                    dep.add(n.targets[0].id)
                    changed = True

    def classify(t: ast.expr):
        txt = ast.unparse(t)
        names = {x.id for x in ast.walk(t) if isinstance(x, ast.Name)}
        if '.encrypted' in txt or txt.endswith('encrypted'):
            return 'enc'
        if names & (dep - {mech_var}) or (mech_var + '.') in txt or \
                'getattr(' + mech_var in txt:
            return 'ins'
        return None

    def step(n, label, st):
        ins, enc = st
        if n.kind == 'test' and label in ('T', 'F'):
            c = classify(n.ast)
            if c == 'ins':
                ins = 'T' if label == 'T' else 'F'
            elif c == 'enc':
                enc = 'T' if label == 'T' else 'F'
        return (ins, enc)
    init = ('U', 'U')
    IN = dataflow.typestate(g, init, step)
    for n in calls:
        rep.evaluations += 1
        st = IN.get(n.id) or frozenset()
        bad = [s for s in st if s[0] in ('U', 'T') and s[1] in ('U', 'F')]
        # a plain truthiness test of the mechanism object itself is not an
        # insecurity test
        w = None
        if bad:
            pth = dataflow.typestate_witness(
                g, init, step, lambda x, s: x is n and s in bad)
            w = dataflow.render_path(pth, 20) if pth else None
        rep.check(not bad, 'R8.5', where,
                  'mechanism.server_attempt guarded against insecure '
                  'mechanism on an unencrypted session',
                  'the SASL exchange can start on a path where the '
                  'mechanism is (possibly) insecure and the session is '
                  '(possibly) unencrypted: clear-text credentials accepted '
                  'without TLS', reason='every path either proves the '
                  'mechanism secure or the session encrypted',
                  loc=n.loc(), witness=w)
    # liveness of the insecure predicate for PLAIN / LOGIN
    root = _pysasl_root()
    ins_tests = [n for n in g.of_kind('test') if classify(n.ast) == 'ins'
                 and not (isinstance(n.ast, ast.Name) and
                          n.ast.id == mech_var)]
    if root is None:
        rep.notes.append('R8.5 liveness not decided: pysasl sources not '
                         'found')
        return
    rep.tables.add('installed pysasl sources (AST only): ' + root)
    mechs, classes = _mech_classes(root)
    for m in CLEAR_MECHS:
        rep.evaluations += 1
        if m not in mechs:
            rep.notes.append('R8.5: pysasl has no %r mechanism class' % m)
            continue
        verdicts = [_can_be_true(t.ast, m, mech_var, fnode, mechs, classes)
                    for t in ins_tests]
        live = any(v is True or v is None for v in verdicts)
        rep.check(live, 'R8.5', where,
                  'insecure predicate is live for %s' % m.decode(),
                  'the guard can never be true for the %s mechanism of the '
                  'installed pysasl (%s defines no such attribute and the '
                  'default is falsy): %s is accepted on an unencrypted '
                  'session' % (m.decode(), mechs[m].name, m.decode()),
                  reason='predicate can evaluate to true for this mechanism',
                  loc=ctx.func.loc())


# ------------------------------------------------------------------ R8.6
def r86(e: Engine, rep: Report):
    # SmtpSession.AUTH: self.auth only under 235
    ctx = e.method_ctx(SESSION, 'AUTH')
    g = e.build(ctx, inline=c07.SESSION_INLINE(e), max_depth=3)
    fx = e.facts(g)
    rp = '%s#%d' % (ctx.func.params[1], g.entry.frame.id)
    found = 0
    for n in g.of_kind('stmt'):
        if isinstance(n.ast, ast.Assign) and any(
                path_of(t, n.frame) == 'self.auth' for t in n.ast.targets):
            if isinstance(n.ast.value, ast.Constant) and \
                    not n.ast.value.value:
                continue
            found += 1
            rep.evaluations += 1
            rep.check(holds(fx.at(n), (True, "%s.code == '235'" % rp)),
                      'R8.6', ctx.func.qname,
                      'session.auth recorded only under 235',
                      'the edge records an authenticated identity although '
                      'the AUTH reply is not 235', loc=n.loc(),
                      reason="dominated by reply.code == '235'")
    if not found:
        rep.error('anchor vanished: self.auth assignment in SmtpSession.AUTH')
    # ... and only after the application's validator saw the credentials
    vals = [n for n in g.calls() if e.call_name(n) == '_call_validator']
    before = dataflow.must_events_before(
        g, lambda n: ['validated'] if n in vals else [])
    for n in g.of_kind('stmt'):
        if isinstance(n.ast, ast.Assign) and any(
                path_of(t, n.frame) == 'self.auth' for t in n.ast.targets) \
                and not (isinstance(n.ast.value, ast.Constant) and
                         not n.ast.value.value):
            rep.evaluations += 1
            rep.check('validated' in (before.get(n.id) or ()), 'R8.6',
                      ctx.func.qname,
                      'session.auth recorded only after the validator ran',
                      'the identity is recorded before handle_auth decided: '
                      'when the application rejects the credentials (535) '
                      'session.auth still names them and later policy '
                      'checks treat the session as authenticated',
                      loc=n.loc(), reason='_call_validator on every path '
                      'before')
    # the authenticated flag is never taken back: AUTH stays refused for the
    # rest of the session
    nfl = 0
    for mname, m in sorted(e.p.cls(SERVER).methods.items()):
        for n in walk_own(m.node):
            if isinstance(n, ast.Assign) and any(
                    isinstance(t, ast.Attribute) and t.attr == 'authed' and
                    isinstance(t.value, ast.Name) and t.value.id == 'self'
                    for t in n.targets):
                nfl += 1
                falsy = isinstance(n.value, ast.Constant) and \
                    not n.value.value
                if mname == '__init__' or not falsy:
                    continue
                rep.evaluations += 1
                rep.bad('R8.3', m.qname, 'self.authed reset',
                        '%s clears the authenticated flag: a client that '
                        'already authenticated can run AUTH again in the '
                        'same session (the AUTH-after-AUTH refusal is '
                        'defeated by going through this command first)'
                        % mname, loc=m.loc(n))
    if nfl < 2:
        rep.error('anchor vanished: assignments of Server.authed (%d < 2)'
                  % nfl)
    # server flag
    name = '_command_AUTH'
    g = c07.build(e, name)
    fx = e.facts(g)
    sub = Report(rep.prop, rep.tier, rep.repo)
    c07.r72(e, sub, g, fx, SERVER + '.' + name)
    for o in sub.obls:
        rep.add('R8.6', o.where, o.text, o.status, o.what, o.loc, o.witness,
                o.nontrivial, o.reason)
    # credentials unmodified: callback argument is the plain result of
    # auth.server_attempt(arg)
    for n in c07.cb_sites(e, g):
        if c07.cb_name(n) != 'AUTH' or len(n.ast.args) < 3:
            continue
        a, afr = common.deref(n.ast.args[2], n.frame)
        ok = False
        if isinstance(a, ast.Name):
            srcs = [s for s in g.of_kind('stmt')
                    if isinstance(s.ast, ast.Assign) and any(
                        isinstance(t, ast.Name) and t.id == a.id
                        for t0 in s.ast.targets for t in (
                            t0.elts if isinstance(t0, (ast.Tuple, ast.List))
                            else [t0])) and s.frame is afr]
            def attempt(s):
                v = s.ast.value
                if not isinstance(v, ast.Call) or not isinstance(
                        s.ast.targets[0], ast.Name):
                    return False
                ap = common.applied_call(e, s.ctx, v)
                fnx = ap[0] if ap else v.func
                return isinstance(fnx, ast.Attribute) and \
                    fnx.attr == 'server_attempt'
            ok = len(srcs) >= 1 and all(attempt(s) for s in srcs)
            if not ok and srcs:
                # `done, outcome = self._exchange(arg)` with tagged tuple
                # returns: the returns whose tag contradicts what is known
                # at the callback do not reach it
                st = fx.at(n) or frozenset()
                good = True
                seen_any = False
                for s2 in srcs:
                    tg = s2.ast.targets[0]
                    if not (isinstance(tg, (ast.Tuple, ast.List)) and
                            isinstance(s2.ast.value, ast.Call)):
                        good = False
                        break
                    idx = [k for k, t in enumerate(tg.elts)
                           if isinstance(t, ast.Name) and t.id == a.id]
                    vals = common.values_of(g, s2.ast.value, s2.frame)
                    if not idx or (len(vals) == 1 and
                                   vals[0][0] is s2.ast.value):
                        good = False
                        break
                    for v, vf in vals:
                        if not (isinstance(v, ast.Tuple) and
                                len(v.elts) == len(tg.elts)):
                            good = False
                            break
                        dead = False
                        for k, t in enumerate(tg.elts):
                            if k == idx[0] or not isinstance(t, ast.Name):
                                continue
                            tp = path_of(t, s2.frame)
                            el = v.elts[k]
                            if not isinstance(el, ast.Constant):
                                # a tag that is an object - a canned reply
                                # of the module, the reply carried by the
                                # caught error - where the callback is only
                                # reached with the tag being None
                                hn = {h.name for h in ast.walk(
                                    vf.ctx.func.node)
                                    if isinstance(h, ast.ExceptHandler)
                                    and h.name}
                                obj = common.reply_constant_code(
                                    e, el, vf.ctx) is not None or (
                                    isinstance(el, ast.Attribute) and
                                    el.attr == 'reply' and
                                    isinstance(el.value, ast.Name) and
                                    el.value.id in hn)
                                if obj and holds(st, (True, tp + ' is None')):
                                    dead = True
                                continue
                            truth = bool(el.value)
                            if holds(st, (not truth, tp)):
                                dead = True
                            if el.value is not None and \
                                    holds(st, (True, tp + ' is None')):
                                dead = True
                        if dead:
                            continue
                        seen_any = True
                        x = v.elts[idx[0]]
                        ap = common.applied_call(e, vf.ctx, x) if isinstance(
                            x, ast.Call) else None
                        fnx = ap[0] if ap else (x.func if isinstance(
                            x, ast.Call) else None)
                        if not (isinstance(fnx, ast.Attribute) and
                                fnx.attr == 'server_attempt'):
                            good = False
                ok = good and seen_any
        rep.evaluations += 1
        rep.check(ok, 'R8.6', SERVER + '.' + name,
                  'credentials passed to the AUTH callback are the result '
                  'of server_attempt',
                  'the object shown to the application is not the '
                  'unmodified result of the SASL exchange', loc=n.loc(),
                  reason='single def from auth.server_attempt(arg)')
    # AuthSession.server_attempt returns what the mechanism produced
    ctx = e.method_ctx(AUTHS, 'server_attempt')
    ga = e.build(ctx, inline=e.inline_same_self(), max_depth=3,
                 raises=lambda b, n, r: set())
    roots = [n for n in ga.of_kind('stmt') if isinstance(n.ast, ast.Return)
             and n.ast.value is not None and n.frame is ga.entry.frame]
    ok = bool(roots)
    for r in roots:
        for v, fr in common.values_of(ga, r.ast.value, r.frame):
            if not isinstance(v, ast.Name):
                ok = False
                continue
            defs = [s2 for s2 in ga.of_kind('stmt') if s2.frame is fr and
                    isinstance(s2.ast, ast.Assign) and any(
                        isinstance(x, ast.Name) and x.id == v.id
                        for t in s2.ast.targets for x in ast.walk(t))]
            if not defs or not all(
                    isinstance(d.ast.value, ast.Call) and
                    isinstance(d.ast.value.func, ast.Attribute) and
                    d.ast.value.func.attr == 'server_attempt'
                    for d in defs):
                ok = False
    rep.evaluations += 1
    rep.check(ok, 'R8.6', ctx.func.qname,
              'server_attempt returns the mechanism result unmodified',
              'the credentials object is rebuilt or altered between the '
              'SASL mechanism and the caller', loc=ctx.func.loc(),
              reason='return value defined only by '
              'mechanism.server_attempt(...)')


# ------------------------------------------------------------------ R8.7
DECODER_RAISES = {
    # call name -> exception tokens raised on malformed input
    'b64decode': ['binascii.Error'],
    'decode': ['builtins.UnicodeDecodeError'],
    'server_attempt': ['pysasl.exception.AuthenticationError',
                       'pysasl.mechanism.ServerChallenge',
                       'builtins.UnicodeDecodeError'],
    'int': ['builtins.ValueError'],
}
ALLOWED_ESCAPES = {'builtins.StopIteration', 'slimta.smtp.ConnectionLost',
                   TIMEOUT}


def r87(e: Engine, rep: Report):
    ctx = e.method_ctx(SERVER, '_command_AUTH')

    def pol(builder, call, target, frame):
        if target.func.name == '_call_custom_handler':
            return False
        return target.func.module.name in ('slimta.smtp.auth',
                                           'slimta.smtp.server')

    def raises(builder, n: Node, res):
        if res is None or res.targets:
            return set()
        nm = e.call_name(n)
        return set(DECODER_RAISES.get(nm, []))
    g = e.build(ctx, inline=pol, raises=raises, max_depth=5,
                assert_raises=False)
    where = ctx.func.qname
    rep.tables.add('c08.DECODER_RAISES')
    escaping: Dict[str, Node] = {}
    reach = dataflow.reachable(g)
    for n in g.nodes:
        if n.id not in reach:
            continue
        for l, s in n.succ:
            if s is g.raise_exit and isinstance(l, tuple):
                escaping.setdefault(l[1], n)
    rep.evaluations += len(escaping) + 1
    bad = {t: n for t, n in escaping.items() if t not in ALLOWED_ESCAPES
           and not e.p.is_subclass(t, 'slimta.smtp.ConnectionLost')}
    if not bad:
        rep.ok('R8.7', where, 'exception classes leaving _command_AUTH',
               reason='escaping: %s' % (sorted(escaping) or 'none'),
               loc=ctx.func.loc())
    for t, n in sorted(bad.items()):
        pth = dataflow.find_path(g, g.entry, lambda x: x is n)
        rep.bad('R8.7', where, 'exception class %s leaves _command_AUTH'
                % t.rpartition('.')[2],
                'a malformed AUTH exchange raises %s which no arm of '
                '_command_AUTH turns into a reply: the session ends with an '
                'unhandled error' % t, loc=n.loc(),
                witness=dataflow.render_path(pth) if pth else None)


# -------------------------------------------------------------------- R8.8
def r88(e: Engine, rep: Report, rule: str = 'R8.8'):
    """Who may add to the set of offered extensions: the constructor only.
    _command_STARTTLS withdraws STARTTLS after a successful handshake and
    nothing checks `encrypted` again - the extension set IS the record that
    TLS is up.  A handler that adds extensions, or replaces the set, during
    the session can bring STARTTLS back: a second STARTTLS is accepted on an
    encrypted channel and its callback runs again."""
    c = e.p.cls(SERVER)
    n = 0
    for mname, m in sorted(c.methods.items()):
        for x in walk_own(m.node):
            what = None
            if isinstance(x, ast.Call) and \
                    isinstance(x.func, ast.Attribute) and \
                    x.func.attr in ('add', 'update', 'parse_string') and \
                    ast.unparse(x.func.value) == 'self.extensions':
                what = 'self.extensions.%s(...)' % x.func.attr
            elif isinstance(x, (ast.Assign, ast.AugAssign)):
                tg = x.targets if isinstance(x, ast.Assign) else [x.target]
                for t in tg:
                    tt = ast.unparse(t)
                    if tt == 'self.extensions' or \
                            tt.startswith('self.extensions.') or \
                            tt.startswith('self.extensions['):
                        what = '`%s = ...`' % tt
            if what is None:
                continue
            n += 1
            rep.evaluations += 1
            rep.check(mname == '__init__', rule, m.qname,
                      'offered extensions extended by %s' % what,
                      '%s adds to / replaces the extension set while the '
                      'session runs: an extension withdrawn earlier '
                      '(STARTTLS after the handshake) can come back, a '
                      'second STARTTLS is then accepted on the encrypted '
                      'channel and its callback runs again' % m.qname,
                      loc=m.loc(x), reason='constructor only')
    if n < 3:
        rep.error('anchor vanished: writers of Server.extensions (%d < 3)'
                  % n)


# -------------------------------------------------------------------- R8.9
def r89(e: Engine, rep: Report, rule: str = 'R8.9'):
    """AUTH (and every other extension command) is refused before EHLO
    because a HELO session has no extensions: _command_AUTH only asks
    whether AUTH is in the set and whether *some* greeting was accepted -
    HELO sets that too.  So an accepted HELO has to empty the set."""
    ctx = e.method_ctx(SERVER, '_command_HELO')
    g = e.build(ctx, raises=lambda b, n, r: set())
    where = ctx.func.qname
    rep.functions.add(where)
    sets = [n for n in g.of_kind('stmt') if isinstance(n.ast, ast.Assign) and
            any(ast.unparse(t) == 'self.ehlo_as' for t in n.ast.targets) and
            not (isinstance(n.ast.value, ast.Constant) and
                 not n.ast.value.value)]
    if not sets:
        rep.error('anchor vanished: self.ehlo_as = ... in _command_HELO')
        return

    def ev(n):
        return ['reset'] if n.kind == 'call' and \
            e.call_name(n) in ('reset', 'clear') and \
            ast.unparse(n.ast.func.value).startswith('self.extensions') \
            else []
    before = dataflow.must_events_before(g, ev)
    after = dataflow.must_events_after(g, ev, edge=c07.no_call_exc)
    for n in sets:
        rep.evaluations += 1
        a = after.get(n.id)
        ok = 'reset' in (before.get(n.id) or ()) or \
            isinstance(a, dataflow.Top) or 'reset' in (a or ())
        rep.check(ok, rule, where,
                  'an accepted HELO leaves no extension on offer',
                  'HELO is accepted (ehlo_as set) without emptying the '
                  'extension set: AUTH, STARTTLS and the other extension '
                  'commands only test the set and that a greeting was '
                  'accepted, so they now work in a session that never sent '
                  'EHLO', loc=n.loc(),
                  reason='self.extensions.reset() on every accepting path')


# ------------------------------------------------------------------- R8.10
def r810(e: Engine, rep: Report, rule: str = 'R8.10'):
    """What the server advertises is computed from the extension set at the
    moment of the EHLO.  State of the Extensions object that is *derived*
    from the set (a memo of the keyword lines) must be refreshed by every
    method that changes the set, or a withdrawn extension (STARTTLS after
    the handshake) is still advertised."""
    cq = 'slimta.smtp.extensions.Extensions'
    c = e.p.cls(cq)

    def mutates(m):
        for x in walk_own(m.node):
            if isinstance(x, (ast.Assign, ast.AugAssign, ast.Delete)):
                tg = x.targets if not isinstance(x, ast.AugAssign) \
                    else [x.target]
                for t in tg:
                    for y in ast.walk(t):
                        if isinstance(y, (ast.Subscript, ast.Attribute)) \
                                and isinstance(y.ctx, (ast.Store, ast.Del)) \
                                and ast.unparse(y).startswith(
                                    'self.extensions'):
                            return True
            if isinstance(x, ast.Call) and \
                    isinstance(x.func, ast.Attribute) and \
                    ast.unparse(x.func.value) == 'self.extensions' and \
                    x.func.attr in ('update', 'pop', 'clear', 'setdefault',
                                    'popitem'):
                return True
        return False
    # derived attributes
    derived = {}
    for mname, m in sorted(c.methods.items()):
        if mname == '__init__':
            continue
        dep = set()
        changed = True
        while changed:
            changed = False
            for x in walk_own(m.node):
                tg, src = [], None
                if isinstance(x, ast.Assign):
                    tg, src = x.targets, x.value
                elif isinstance(x, ast.For):
                    tg, src = [x.target], x.iter
                if src is None:
                    continue
                uses = 'self.extensions' in ast.unparse(src) or any(
                    isinstance(y, ast.Name) and y.id in dep
                    for y in ast.walk(src))
                if uses:
                    for t in tg:
                        for y in ast.walk(t):
                            if isinstance(y, ast.Name) and y.id not in dep:
                                dep.add(y.id)
                                changed = True
            # a list filled inside a loop over the set
            for x in walk_own(m.node):
                if isinstance(x, ast.For) and (
                        'self.extensions' in ast.unparse(x.iter)):
                    for y in ast.walk(x):
                        if isinstance(y, ast.Call) and \
                                isinstance(y.func, ast.Attribute) and \
                                y.func.attr in ('append', 'add', 'extend') \
                                and isinstance(y.func.value, ast.Name) and \
                                y.func.value.id not in dep:
                            dep.add(y.func.value.id)
                            changed = True
        for x in walk_own(m.node):
            if isinstance(x, ast.Assign):
                for t in x.targets:
                    if isinstance(t, ast.Attribute) and \
                            isinstance(t.value, ast.Name) and \
                            t.value.id == 'self' and \
                            t.attr != 'extensions' and (
                                'self.extensions' in ast.unparse(x.value) or
                                any(isinstance(y, ast.Name) and y.id in dep
                                    for y in ast.walk(x.value))):
                        derived.setdefault(t.attr, (m, x))
    muts = [m for mn, m in sorted(c.methods.items())
            if mn != '__init__' and mutates(m)]
    if len(muts) < 3:
        rep.error('anchor vanished: methods of Extensions that change the '
                  'set (%d < 3)' % len(muts))
    rep.evaluations += 1
    if not derived:
        rep.ok(rule, cq, 'no state derived from the extension set is kept',
               reason='build_string computes the keyword lines from the set '
               'on every call')
        return
    for attr, (dm, dx) in sorted(derived.items()):
        for m in muts:
            rep.evaluations += 1
            ctx = Ctx(m, cq)
            g = e.build(ctx, raises=lambda b, n, r: set())
            after = dataflow.must_events_after(
                g, lambda n: ['refresh'] if n.kind == 'stmt' and
                isinstance(n.ast, ast.Assign) and any(
                    ast.unparse(t) == 'self.' + attr
                    for t in n.ast.targets) else [], edge=c07.no_call_exc)
            st = after.get(g.entry.id)
            ok = isinstance(st, dataflow.Top) or 'refresh' in (st or ())
            rep.check(ok, rule, m.qname,
                      'self.%s (derived from the extension set in %s) is '
                      'refreshed' % (attr, dm.name),
                      '%s changes the extension set but leaves self.%s, '
                      'which %s computed from the set, as it was: the next '
                      'EHLO reply is built from the stale copy - an '
                      'extension that was dropped (STARTTLS after the '
                      'handshake) is still advertised' % (
                          m.name, attr, dm.name), loc=m.loc(),
                      reason='assigned on every path')


# ------------------------------------------------------------------ R8.12
def r812(e: Engine, rep: Report):
    ctx = e.method_ctx(AUTHS, 'server_attempt')
    g = e.build(ctx, inline=e.inline_same_self(), max_depth=3,
                raises=lambda b, n, r: set())
    where = ctx.func.qname
    rep.functions.add(where)
    sites = [c for c in g.calls() if e.call_name(c) == 'server_attempt' and
             c.frame.ctx.func.qname.startswith(AUTHS) and c.ast.args]
    if not sites:
        rep.unknown('R8.12', where, 'history handed to the mechanism',
                    'no mechanism.server_attempt(<responses>) call found',
                    loc=ctx.func.loc())
        return

    def empty(v):
        return (isinstance(v, (ast.List, ast.Tuple)) and not v.elts) or (
            isinstance(v, ast.Call) and isinstance(v.func, ast.Name) and
            v.func.id in ('list', 'deque') and not v.args)
    for c in sites:
        rep.evaluations += 1
        a, fr = common.deref(c.ast.args[0], c.frame)
        what = 'history `%s` handed to the mechanism' % ast.unparse(a)
        if isinstance(a, ast.Name):
            fn = fr.ctx.func
            defs = [x for x in walk_own(fn.node) if isinstance(x, ast.Assign)
                    and any(isinstance(t, ast.Name) and t.id == a.id
                            for t in x.targets)]
            if defs and all(empty(d.value) for d in defs) and \
                    a.id not in fn.params:
                rep.ok('R8.12', where, what, loc=c.loc(),
                       reason='local list created in this attempt')
            else:
                rep.unknown('R8.12', where, what, 'cannot see that `%s` '
                            'starts empty in this attempt' % a.id,
                            loc=c.loc())
            continue
        p = path_of(a, fr) if isinstance(a, ast.Attribute) else None
        if p is None or not p.startswith('self.'):
            rep.unknown('R8.12', where, what, 'cannot read where the '
                        'history is kept', loc=c.loc())
            continue

        def step(n, label, st):
            if isinstance(label, tuple):
                return st
            if n.kind == 'stmt' and isinstance(n.ast, ast.Assign) and any(
                    path_of(t, n.frame) == p for t in n.ast.targets):
                return empty(n.ast.value)
            if n.kind == 'call' and isinstance(n.ast.func, ast.Attribute) \
                    and n.ast.func.attr == 'clear' and \
                    path_of(n.ast.func.value, n.frame) == p:
                return True
            return st
        w = dataflow.typestate_witness(
            g, False, step, lambda n, st: n is c and not st)
        rep.check(w is None, 'R8.12', where, what,
                  'the history is kept in `%s`, which lives as long as the '
                  'session, and is not emptied on every path from the start '
                  'of server_attempt to this call: what a cancelled or '
                  'failed AUTH left there is evaluated as responses of the '
                  'next AUTH - the application sees credentials the client '
                  'did not supply' % p, loc=c.loc(),
                  reason='emptied before the first use',
                  witness=dataflow.render_path(w, 12) if w else None)


# ------------------------------------------------------------------ R8.13
def r813(e: Engine, rep: Report):
    n = 0
    for cq in [SESSION] + list(e.p.subclasses(SESSION)):
        c = e.p.classes.get(cq)
        if c is None:
            continue
        for mname, m in sorted(c.methods.items()):
            if 'reply' not in m.params:
                continue
            n += 1
            rep.evaluations += 1
            rep.functions.add(m.qname)
            stores = [x for x in walk_own(m.node)
                      if isinstance(x, ast.Name) and x.id == 'reply' and
                      isinstance(x.ctx, (ast.Store, ast.Del))]
            rep.check(not stores, 'R8.13', m.qname,
                      '`reply` is changed, not rebound',
                      '%s binds a new object to its `reply` parameter: the '
                      'server still holds (and sends) the reply it passed '
                      'in, so the verdict the handler meant to give never '
                      'reaches the client' % mname,
                      loc=m.loc(stores[0]) if stores else m.loc(),
                      reason='no assignment to the parameter')
    if n < 5:
        rep.error('anchor vanished: handlers of SmtpSession taking a reply '
                  '(%d < 5)' % n)


# ------------------------------------------------------------------ R8.15
def r815(e: Engine, rep: Report):
    ctx = e.method_ctx(SESSION, '_call_validator')

    def is_validator_call(n):
        # getattr(self.validators, method)(*args) / a bound method of
        # self.validators put in a local first
        if n.kind != 'call':
            return False
        f = n.ast.func
        txt = ast.unparse(f)
        if 'validators' in txt and not txt.startswith('hasattr') and \
                not (isinstance(f, ast.Name) and f.id in ('getattr',
                                                          'hasattr')):
            return True
        if isinstance(f, ast.Name):
            fn = n.frame.ctx.func
            ds = [a.value for a in walk_own(fn.node)
                  if isinstance(a, ast.Assign) and any(
                      isinstance(t, ast.Name) and t.id == f.id
                      for t in a.targets)]
            return bool(ds) and all('validators' in ast.unparse(d)
                                    for d in ds)
        return False
    g = e.build(ctx, raises=lambda b, n, r: {'builtins.Exception'}
                if is_validator_call(n) else set(), assert_raises=False,
                inline=e.inline_same_self(), max_depth=3)
    where = ctx.func.qname
    rep.functions.add(where)
    calls = [n for n in g.nodes if is_validator_call(n)]
    if not calls:
        rep.error('anchor vanished: the validator call in '
                  'SmtpSession._call_validator')
        return
    for c in calls:
        rep.evaluations += 1
        # a way from the failing call to the normal end of the function
        caught = [s2 for l, s2 in c.succ if isinstance(l, tuple) and
                  s2.kind == 'handler']
        pth = None
        for h in caught:
            pth = pth or dataflow.find_path(
                g, h, lambda x: x is g.exit,
                edge_ok=lambda a, l, s2: not isinstance(l, tuple))
        rep.check(pth is None, 'R8.15', where,
                  'an exception of the validator leaves _call_validator',
                  'an exception raised by the application\'s validator is '
                  'caught and the session goes on: for AUTH the reply is '
                  'still the default 235, so the server marks the session '
                  'authenticated although the application never accepted '
                  'the credentials', loc=c.loc(),
                  reason='no arm around the call completes normally',
                  witness=dataflow.render_path(pth, 12) if pth else None)


# ------------------------------------------------------------------ R8.16
RECV_ENTRY_POINTS = {'recv_reply', 'recv_line', 'recv_command',
                     'buffered_recv'}
_STATE_MUTATORS = {'append', 'appendleft', 'extend', 'extendleft', 'insert',
                   'add', 'update', 'write', 'setdefault', 'push'}


def r816(e: Engine, rep: Report):
    IOC = 'slimta.smtp.io.IO'
    c = e.p.classes.get(IOC)
    if c is None:
        rep.error('anchor vanished: ' + IOC)
        return
    owners = common.owner_closure(e, IOC, set(RECV_ENTRY_POINTS))

    def written(m):
        out = {}
        for x in walk_own(m.node):
            if isinstance(x, ast.Attribute) and isinstance(
                    x.ctx, (ast.Store,)) and isinstance(x.value, ast.Name) \
                    and x.value.id == 'self':
                out.setdefault(x.attr, x)
            if isinstance(x, ast.Call) and isinstance(x.func, ast.Attribute) \
                    and x.func.attr in _STATE_MUTATORS and \
                    isinstance(x.func.value, ast.Attribute) and \
                    isinstance(x.func.value.value, ast.Name) and \
                    x.func.value.value.id == 'self':
                out.setdefault(x.func.value.attr, x)
        return out
    state = {}
    for mname in sorted(owners):
        m = c.methods.get(mname)
        if m is None:
            continue
        for attr, node in written(m).items():
            state.setdefault(attr, (m, node))
    state.pop('socket', None)
    if 'recv_buffer' not in state:
        rep.error('anchor vanished: recv_buffer written by the receive '
                  'path of IO')
        return
    for meth in ('encrypt_socket_client', 'encrypt_socket_server'):
        ctx = e.method_ctx(IOC, meth)
        g = e.build(ctx, raises=lambda b, n, r: set(),
                    inline=e.inline_same_self(), max_depth=3)
        where = ctx.func.qname
        rep.functions.add(where)
        reset = set()
        for n in g.nodes:
            if n.kind == 'stmt' and isinstance(n.ast, ast.Assign):
                for t in n.ast.targets:
                    for el in (t.elts if isinstance(t, (ast.Tuple, ast.List))
                               else [t]):
                        q = path_of(el, n.frame) or ''
                        if q.startswith('self.') and q.count('.') == 1:
                            reset.add(q[5:])
            if n.kind == 'call' and isinstance(n.ast.func, ast.Attribute) \
                    and n.ast.func.attr == 'clear':
                q = path_of(n.ast.func.value, n.frame) or ''
                if q.startswith('self.') and q.count('.') == 1:
                    reset.add(q[5:])
        for attr, (m, node) in sorted(state.items()):
            rep.evaluations += 1
            rep.check(attr in reset, 'R8.16', where,
                      'receive-side state `%s` is reset' % attr,
                      'IO.%s, written by %s from what was received, is not '
                      'reset when the socket is wrapped in TLS: what the '
                      'peer (or someone in its place) sent in clear text '
                      'behind the STARTTLS exchange is still handed out '
                      'after the handshake as if it had come through the '
                      'encrypted channel' % (attr, m.name), loc=m.loc(node),
                      reason='assigned / cleared in %s' % meth)


# ------------------------------------------------------------------ R8.18
def r818(e: Engine, rep: Report):
    cls = e.p.cls(AUTHS)

    def is_b64decode(x):
        return isinstance(x, ast.Call) and (
            (isinstance(x.func, ast.Attribute) and
             x.func.attr in ('b64decode', 'decodebytes', 'a2b_base64',
                             'standard_b64decode')) or
            (isinstance(x.func, ast.Name) and
             x.func.id in ('b64decode', 'decodebytes', 'a2b_base64')))
    decoders: Set[str] = set()

    def decoded_call(x):
        return is_b64decode(x) or (
            isinstance(x, ast.Call) and isinstance(x.func, ast.Attribute) and
            isinstance(x.func.value, ast.Name) and
            x.func.value.id == 'self' and x.func.attr in decoders)
    changed = True
    while changed:
        changed = False
        for nm, m in cls.methods.items():
            if nm in decoders:
                continue
            if any(isinstance(r, ast.Return) and r.value is not None and
                   decoded_call(r.value) for r in walk_own(m.node)):
                decoders.add(nm)
                changed = True
    if not decoders:
        rep.error('anchor vanished: no method of AuthSession returns a '
                  'b64decode result')
        return
    n = 0
    for nm, m in sorted(cls.methods.items()):
        dec = set()
        for a in walk_own(m.node):
            if isinstance(a, ast.Assign) and decoded_call(a.value):
                for t in a.targets:
                    if isinstance(t, ast.Name):
                        dec.add(t.id)
            elif isinstance(a, ast.NamedExpr) and decoded_call(a.value) and \
                    isinstance(a.target, ast.Name):
                dec.add(a.target.id)
        if not dec:
            continue
        rep.functions.add(m.qname)

        def tested(x, out):
            # expressions whose truth value the construct reads
            if isinstance(x, ast.BoolOp):
                for v in x.values:
                    tested(v, out)
            elif isinstance(x, ast.UnaryOp) and isinstance(x.op, ast.Not):
                tested(x.operand, out)
            else:
                out.append(x)
        sites = []
        for x in walk_own(m.node):
            if isinstance(x, (ast.If, ast.While, ast.IfExp)):
                tested(x.test, sites)
            elif isinstance(x, ast.BoolOp):
                for v in x.values[:-1]:
                    tested(v, sites)
            elif isinstance(x, ast.UnaryOp) and isinstance(x.op, ast.Not):
                tested(x.operand, sites)
            elif isinstance(x, ast.Assert):
                tested(x.test, sites)
        seen = set()
        for x in sites:
            if id(x) in seen:
                continue
            seen.add(id(x))
            hit = (isinstance(x, ast.Name) and x.id in dec) or decoded_call(x)
            if not (hit or isinstance(x, ast.Name)):
                continue
            n += 1
            rep.evaluations += 1
            rep.check(not hit, 'R8.18', m.qname,
                      'truth of `%s` is not the truth of a decoded response'
                      % ' '.join(ast.unparse(x).split())[:40],
                      '`%s` holds what b64decode returned and is tested for '
                      'truth: the empty response (`AUTH <mech> =`, or an '
                      'empty line in answer to a challenge) decodes to '
                      'b\'\' and counts as "no response" - the server asks '
                      'again with a challenge the client does not expect, '
                      'and the mechanism is handed as credentials a line '
                      'the client meant for something else'
                      % ' '.join(ast.unparse(x).split())[:40],
                      loc=m.loc(x), reason='not assigned from %s'
                      % sorted(decoders | {'b64decode'}))
    rep.evaluations += 1
    rep.ok('R8.18', AUTHS, 'decoders of AuthSession: %s; %d truth test(s) '
           'of locals next to a decoded value' % (sorted(decoders), n),
           reason='judged one by one', nontrivial=False)
