"""C02 - an edge acknowledges a message only after custody of every recipient
was taken.

R2.1 the client-visible reply depends on *all* enqueue results (a scan over
     the whole result list, never a fixed position)
R2.2 enqueue returns only after every storage write finished
R2.3 no reply is sent before the HAVE_DATA callback decided
R2.4 the proxying queue inspects the relay result (per-recipient failures)
R2.5 what is written to the store is the whole list the policy chain
     produced: no positional update of that list with a stale index, and the
     same list is written and paired with the ids
"""
from __future__ import annotations

import ast
from typing import List, Optional

from ..engine import Engine
from ..report import Report
from ..cfg import Node
from ..facts import path_of, canon, holds
from ..model import walk_own
from ..resolve import Ctx
from .. import dataflow
from . import common, c07

QERR = 'slimta.queue.QueueError'
RERR = 'slimta.relay.RelayError'
QUEUE = 'slimta.queue.Queue'
EDGES = [('slimta.edge.smtp.SmtpSession', 'HAVE_DATA'),
         ('slimta.edge.wsgi.WsgiEdge', '_enqueue_envelope')]


def run(e: Engine, rep: Report):
    rep.rule('R2.1', 'in every function that turns handoff() results into '
             'a reply, failure classes are tested on the variable of a loop '
             'over the whole result list; that loop lies on every path from '
             'the handoff call; no decision reads a fixed position')
    rep.rule('R2.2', 'Queue._pool_imap joins every spawned greenlet before '
             'returning; Queue.enqueue writes through _pool_imap and '
             'returns after it')
    rep.rule('R2.3', 'in Server._get_message_data the HAVE_DATA callback '
             'precedes the sending of the reply on every path')
    rep.rule('R2.4', 'ProxyQueue.enqueue keeps the value of relay._attempt '
             'and tests its per-recipient entries against RelayError')
    rep.rule('R2.5', 'Queue._run_policies never updates its result list at '
             'a position enumerated from a snapshot of it; Queue.enqueue '
             'hands the list _run_policies returned, unmodified, both to '
             'the store writes and to the pairing with their ids')
    rep.not_decided += ['behaviour of the storage substrate on a slow write '
                        '(R2.2 makes the reply wait for it, whatever it '
                        'does)']
    r21(e, rep)
    r22(e, rep)
    r23(e, rep)
    r24(e, rep)
    r24_kinds(e, rep)
    r25(e, rep)
    rep.rule('R2.6', 'the greenlets Queue._pool_imap joins are the ones '
             'running the given function: the spawn callable is '
             '<pool>.spawn, or a wrapper every return of which is a '
             '.spawn(<its function parameter>, ...)')
    r26(e, rep)
    rep.rule('R2.7', 'who-may-accept in the HTTP edge: a 2xx Reply is built '
             'only after self.handoff(...) on every path')
    r27(e, rep)
    rep.rule('R2.8', 'the reply the server sends is the object it gave to '
             'HAVE_DATA: once an enqueue result has tested as a failure, '
             'that object itself is written (reply.copy(...) / an attribute '
             'of it assigned) before the handler returns - re-binding the '
             'local name changes nothing on the wire')
    r28(e, rep)
    rep.rule('R2.9', 'what _pool_imap reads off a greenlet it read off a '
             'finished one: `.value` / `.exception` only after an unbounded '
             'join(), a get(), a positive ready() / successful() test or a '
             'blocking kill (a write still running reads as value None - an '
             'id, to enqueue)')
    r29(e, rep)
    rep.rule('R2.10', '= C11-N10: RelayPool.attempt hands the proxy queue '
             'what the client decided through AsyncResult.get() (a failed '
             'request read with wait() / .value is None - "queued")')
    from . import c11 as _c11
    sub = Report(rep.prop, rep.tier, rep.repo)
    _c11.n10(e, sub, 'R2.10')
    for o in sub.obls:
        rep.add('R2.10', o.where, o.text, o.status, o.what, o.loc, o.witness,
                o.nontrivial, o.reason)
    rep.errors += sub.errors
    rep.evaluations += sub.evaluations
    rep.functions |= sub.functions
    rep.rule('R2.11', 'the edge hands messages to the queue it was given: '
             'Edge.queue is bound to the constructor argument itself - no '
             'stand-in chosen by the truthiness of the argument (a Queue is '
             'a Greenlet: false until started, and again once it has '
             'finished)')
    r211(e, rep)
    sub = Report(rep.prop, rep.tier, rep.repo)
    _c11.n18(e, sub, 'R2.12')
    rep.rule('R2.12', '= C11-N18: a relay failure never carries a positive '
             'reply of the peer (the edges answer with the reply of the '
             'failure: a wrapped 2xx comes out as an acknowledgement)')
    for o in sub.obls:
        rep.add('R2.12', o.where, o.text, o.status, o.what, o.loc, o.witness,
                o.nontrivial, o.reason)
    rep.errors += sub.errors
    rep.evaluations += sub.evaluations
    rep.functions |= sub.functions
    from . import c16 as _c16
    common.reuse(e, rep, _c16.p5, 'R2.13',
                 '= C16-P5: what a policy hands back replaces the envelope '
                 'only when it is non-empty (an empty result keeps the '
                 'envelope: nothing written and `250` otherwise)',
                 only={'P5'})
    common.reuse(e, rep, _c16.p1, 'R2.14',
                 '= C16-P1: every recipient accepted at RCPT is in exactly '
                 'one of the envelopes a split produces (and so in one '
                 'write the acknowledgement stands for)', only={'P1'})
    rep.floor('R2.1', 4, 'reply decision sites')


def fail_classes(e: Engine, ctx: Ctx, expr):
    """{'queue', 'relay'} subset named by the class expression of an
    isinstance test (a tuple names several)."""
    # a module-level name for a tuple of classes
    if isinstance(expr, ast.Name):
        gv = getattr(ctx.func.module, 'globals', {}).get(expr.id)
        if isinstance(gv, ast.Tuple):
            expr = gv
    # a local bound once to a tuple of classes, in the function the test
    # is written in (`failures = (QueueError, RelayError)`)
    if isinstance(expr, ast.Name):
        for f in e.p.functions.values():
            if not f.module.name.startswith('slimta.'):
                continue
            if not any(x is expr for x in ast.walk(f.node)):
                continue
            ds = [a.value for a in walk_own(f.node)
                  if isinstance(a, ast.Assign) and any(
                      isinstance(t, ast.Name) and t.id == expr.id
                      for t in a.targets)]
            if len(ds) == 1 and isinstance(ds[0], ast.Tuple) and \
                    expr.id not in f.params:
                expr = ds[0]
            break
    # a class-level name for a tuple of classes: self.X / cls.X / Class.X
    if isinstance(expr, ast.Attribute) and isinstance(expr.value, ast.Name) \
            and ctx.func.cls is not None:
        owner = None
        if expr.value.id in ('self', 'cls'):
            owner = ctx.self_cls or ctx.func.cls.qname
        else:
            owner = e.p.resolve_expr_qname(ctx.func.module, expr.value)
        for k in (e.p.mro(owner) if owner else []):
            c = e.p.classes.get(k)
            if c is None:
                continue
            hit = [st.value for st in c.node.body
                   if isinstance(st, ast.Assign) and any(
                       isinstance(t, ast.Name) and t.id == expr.attr
                       for t in st.targets)]
            if hit:
                written = any(
                    isinstance(t, ast.Attribute) and t.attr == expr.attr and
                    isinstance(t.ctx, ast.Store)
                    for m in c.methods.values() for t in ast.walk(m.node))
                if isinstance(hit[-1], ast.Tuple) and not written:
                    expr = hit[-1]
                break
    names = expr.elts if isinstance(expr, ast.Tuple) else [expr]
    out = set()
    for nm in names:
        q = e.p.resolve_expr_qname(ctx.func.module, nm)
        if not q and isinstance(nm, ast.Name):
            # the test sits in a helper of another module (inlined): a class
            # of that name that is unique in the repository
            cands = e.p.find_class(nm.id)
            if len(cands) == 1:
                q = cands[0].qname
        if not q:
            continue
        if e.p.is_subclass(q, QERR):
            out.add('queue')
        elif e.p.is_subclass(q, RERR):
            out.add('relay')
    return out


def fail_class(e: Engine, ctx: Ctx, expr) -> Optional[str]:
    fc = fail_classes(e, ctx, expr)
    return sorted(fc)[-1] if fc else None


def r21(e: Engine, rep: Report):
    for cls, meth in EDGES:
        ctx = e.method_ctx(cls, meth)
        g = e.build(ctx, inline=e.inline_same_self(
            deny=['handoff', '_call_validator']),
            raises=lambda b, n, r: set(), max_depth=3)
        where = ctx.func.qname
        rep.functions.add(where)
        # R = handoff(...), or a loop directly over handoff(...)
        src = [n for n in g.of_kind('stmt') if isinstance(n.ast, ast.Assign)
               and isinstance(n.ast.value, ast.Call) and
               ast.unparse(n.ast.value.func).endswith('handoff')]
        direct = [n for n in g.of_kind('iter') if isinstance(n.ast, ast.For)
                  and isinstance(n.ast.iter, ast.Call) and
                  ast.unparse(n.ast.iter.func).endswith('handoff')]
        if not src and not direct:
            rep.error('anchor vanished: self.handoff(...) in %s' % where)
            continue
        rv = path_of(src[0].ast.targets[0], src[0].frame) if src else None
        def iter_is_rv(n):
            # (a helper's parameter stands for what it was given)
            try:
                return canon(n.ast.iter, n.frame) == rv
            except Exception:
                return path_of(n.ast.iter, n.frame) == rv
        scans = [n for n in g.of_kind('iter')
                 if isinstance(n.ast, (ast.For, ast.comprehension))
                 and rv is not None and iter_is_rv(n)] + direct
        anchor = src[0] if src else [
            c for c in g.calls() if c.ast is direct[0].ast.iter][0]
        bound = set()
        for lp in scans:
            for x in ast.walk(lp.ast.target):
                if isinstance(x, ast.Name):
                    bound.add(path_of(x, lp.frame))
        # names derived from the loop variable inside the loop body
        changed = True
        while changed:
            changed = False
            for s2 in g.of_kind('stmt'):
                if isinstance(s2.ast, ast.Assign) and any(
                        sc.kind == 'loop' and any(sc.ast is lp.ast
                                                  for lp in scans)
                        for sc in s2.scopes):
                    t2 = path_of(s2.ast.targets[0], s2.frame)
                    if t2 and t2 not in bound and any(
                            path_of(y, s2.frame) in bound
                            for y in ast.walk(s2.ast.value)
                            if isinstance(y, ast.Name)):
                        bound.add(t2)
                        changed = True
            # parameters of inlined helpers bound to a derived name
            for b in g.of_kind('bind'):
                x = b.extra
                if x.get('is_self') or x.get('arg') is None:
                    continue
                ap = path_of(x['arg'], x['arg_frame'])
                new = '%s#%d' % (x['param'], b.frame.id)
                if ap in bound and new not in bound:
                    bound.add(new)
                    changed = True
        # "selection" shape: the scan picks the failing result(s) out -
        # a helper returns the element under a positive failure test, or a
        # comprehension keeps the failing elements - and the reply is decided
        # from what was picked.  `selected` = the names that hold it.
        selected = set()
        mixtures = {}

        def is_fail_test(x):
            return isinstance(x, ast.Call) and isinstance(x.func, ast.Name) \
                and x.func.id == 'isinstance' and len(x.args) == 2 and \
                bool(fail_classes(e, ctx, x.args[1]))
        for lp in scans:
            if isinstance(lp.ast, ast.comprehension):
                filt = any(is_fail_test(y) for c in lp.ast.ifs
                           for y in ast.walk(c))
                for s2 in g.of_kind('stmt'):
                    if isinstance(s2.ast, ast.Assign) and any(
                            any(gen is lp.ast for gen in getattr(
                                x, 'generators', []))
                            for x in ast.walk(s2.ast.value)) and \
                            isinstance(s2.ast.targets[0], ast.Name):
                        nm = path_of(s2.ast.targets[0], s2.frame)
                        if filt:
                            selected.add(nm)
                        else:
                            # one value per result, failing or not
                            mixtures[nm] = s2
            else:
                fr = lp.frame
                rets = [r for r in g.of_kind('stmt')
                        if isinstance(r.ast, ast.Return) and r.frame is fr
                        and any(sc.kind == 'loop' and sc.ast is lp.ast
                                for sc in r.scopes) and
                        r.ast.value is not None and
                        path_of(r.ast.value, r.frame) in bound]
                if rets and fr.call is not None and fr.parent is not None:
                    for s2 in g.of_kind('stmt'):
                        if isinstance(s2.ast, ast.Assign) and \
                                s2.ast.value is fr.call and \
                                s2.frame is fr.parent and \
                                isinstance(s2.ast.targets[0], ast.Name):
                            selected.add(path_of(s2.ast.targets[0],
                                                 s2.frame))
        def picks(v, fr):
            """the expression hands on what was selected: the name itself,
            next(<selected>, default), <selected>[0]"""
            if isinstance(v, ast.Call) and isinstance(v.func, ast.Name) and \
                    v.func.id == 'next' and v.args:
                return picks(v.args[0], fr)
            while isinstance(v, ast.Subscript):
                v = v.value
            return path_of(v, fr) in selected if isinstance(
                v, (ast.Name, ast.Attribute)) else False
        changed = True
        while changed:
            changed = False
            for s2 in g.of_kind('stmt'):
                # x = next(selected, None) / a helper returning it
                if isinstance(s2.ast, ast.Assign) and \
                        isinstance(s2.ast.targets[0], ast.Name):
                    nm = path_of(s2.ast.targets[0], s2.frame)
                    if nm not in selected and picks(s2.ast.value, s2.frame):
                        selected.add(nm)
                        changed = True
                if isinstance(s2.ast, ast.Return) and \
                        s2.ast.value is not None and \
                        s2.frame.call is not None and \
                        s2.frame.parent is not None and \
                        picks(s2.ast.value, s2.frame):
                    for s3 in g.of_kind('stmt'):
                        if isinstance(s3.ast, ast.Assign) and \
                                s3.ast.value is s2.frame.call and \
                                s3.frame is s2.frame.parent and \
                                isinstance(s3.ast.targets[0], ast.Name):
                            nm = path_of(s3.ast.targets[0], s3.frame)
                            if nm not in selected:
                                selected.add(nm)
                                changed = True
            for b in g.of_kind('bind'):
                x = b.extra
                if x.get('is_self') or x.get('arg') is None:
                    continue
                root = x['arg']
                while isinstance(root, ast.Subscript):
                    root = root.value
                if path_of(root, x['arg_frame']) in selected:
                    new = '%s#%d' % (x['param'], b.frame.id)
                    if new not in selected:
                        selected.add(new)
                        changed = True
        seen = set()
        fail_tests = []
        for t in g.of_kind('test'):
            a = t.ast
            if not (isinstance(a, ast.Call) and isinstance(a.func, ast.Name)
                    and a.func.id == 'isinstance' and len(a.args) == 2):
                continue
            fcs = fail_classes(e, ctx, a.args[1])
            fc = '/'.join(sorted(fcs)) or None
            if fc is None:
                continue
            subj = a.args[0]
            # classifying a result that the scan picked out is no decision
            # on a fixed entry
            sroot = subj
            while isinstance(sroot, ast.Subscript):
                sroot = sroot.value
            if path_of(sroot, t.frame) in selected:
                continue
            rep.evaluations += 1
            fixed = [x for x in ast.walk(subj) if isinstance(x, ast.Subscript)
                     and isinstance(x.slice, ast.Constant) and
                     rv is not None and
                     rv in (path_of(y, t.frame) for y in ast.walk(x)
                            if isinstance(y, (ast.Name, ast.Attribute)))]
            sp = path_of(subj, t.frame)
            in_scan = sp in bound and any(
                sc.kind == 'loop' and any(sc.ast is lp.ast for lp in scans)
                for sc in t.scopes)
            if in_scan:
                seen |= fcs
                fail_tests.append(t)
            rep.check(in_scan and not fixed, 'R2.1', where,
                      '%s failure test `%s`' % (fc, t.text(50)),
                      'the reply is decided from `%s`, one fixed entry of '
                      'the enqueue results: with a splitting policy the '
                      'write for another envelope can fail and the client '
                      'still gets a success reply' % ast.unparse(subj),
                      loc=t.loc(), reason='tests the loop variable of a '
                      'scan over all results')
        rep.evaluations += 1
        rep.check({'queue', 'relay'} <= seen, 'R2.1', where,
                  'both failure classes are looked for in every result',
                  'the scan over the enqueue results tests only %s: a %s '
                  'entry is acknowledged as success' % (
                      sorted(seen) or 'nothing',
                      ' / '.join(sorted({'queue', 'relay'} - seen))),
                  loc=ctx.func.loc(), reason='QueueError and RelayError '
                  'both tested inside the scan')
        after = dataflow.must_events_after(
            g, lambda n: ['scan'] if n in scans else [],
            edge=c07.no_call_exc)
        st = after.get(anchor.id)
        rep.check(isinstance(st, dataflow.Top) or 'scan' in (st or ()),
                  'R2.1', where, 'every outcome passes the scan',
                  'a path from the handoff call reaches the end of the '
                  'function without scanning the results', loc=anchor.loc(),
                  reason='scan on every path after handoff()')
        # a failure found in the scan is final: once a failure-class test
        # was positive, no success reply (a 2xx Reply / 2.x.x message) is
        # produced any more
        fx = e.facts(g)

        def success_marker(n: Node) -> bool:
            if n.kind == 'call':
                res = n.extra.get('res')
                if res is not None and any(c.endswith('reply.Reply')
                                           for c in res.ctor_of) and \
                        n.ast.args and isinstance(n.ast.args[0],
                                                  ast.Constant) and \
                        str(n.ast.args[0].value).startswith('2'):
                    return True
            if n.kind == 'stmt' and isinstance(n.ast, ast.Assign) and \
                    isinstance(n.ast.value, ast.Constant) and \
                    isinstance(n.ast.value.value, str) and \
                    n.ast.value.value.startswith('2.') and \
                    isinstance(n.ast.targets[0], ast.Attribute) and \
                    n.ast.targets[0].attr == 'message':
                return True
            return False

        nul = common.Nullness(g, e)

        def step(n, label, st0):
            st, ns = st0
            if fx.infeasible(n, label):
                return None
            # what a helper handed back (tagged tuple / None) decides the
            # caller's test of it
            ns = nul.step(n, label, ns)
            if ns == 'infeasible':
                return None
            if st:
                return (True, ns)
            if n in fail_tests and label == 'T':
                return (True, ns)
            return (False, ns)
        # a list with one value per result (failing or not) is not a
        # verdict: picking the reply out of it by order / position lets a
        # success outrank a failure
        for nm, defn in sorted(mixtures.items()):
            for n in g.nodes:
                pick = None
                if n.kind == 'call' and e.call_name(n) in (
                        'min', 'max', 'sorted') and any(
                        path_of(a, n.frame) == nm for a in n.ast.args):
                    pick = n.text(50)
                elif n.kind in ('stmt', 'call', 'test'):
                    for x in ast.walk(n.ast) if n.kind != 'call' else \
                            [y for a in n.ast.args for y in ast.walk(a)]:
                        if isinstance(x, ast.Subscript) and \
                                isinstance(x.slice, ast.Constant) and \
                                path_of(x.value, n.frame) == nm:
                            pick = ast.unparse(x)
                if pick:
                    rep.evaluations += 1
                    rep.bad('R2.1', where,
                            'reply picked out of the per-result list by '
                            '`%s`' % pick,
                            'the reply is chosen by order / position from a '
                            'list that holds one value for every enqueue '
                            'result, successes included: a success value '
                            'can be chosen although another envelope was '
                            'not taken into custody', loc=n.loc())
        marks = [n for n in g.nodes if success_marker(n)]
        rep.evaluations += 1
        bad = None
        if selected:
            # decided from what the scan picked: success only where nothing
            # was picked (`x is None` / `not xs`)
            def none_found(mk):
                st = fx.at(mk) or frozenset()
                return any((p and k == sp + ' is None') or
                           (not p and k == sp) or
                           (not p and k == 'len(%s)' % sp)
                           for p, k in st for sp in selected)
            unguarded = [mk for mk in marks if not none_found(mk)]
            if not unguarded:
                marks = []
        for mk in marks:
            pth = dataflow.typestate_witness(
                g, (False, frozenset()), step,
                lambda n, st: n is mk and st[0])
            if pth:
                bad = pth
                break
        rep.check(bad is None, 'R2.1', where,
                  'a failed result is final for the reply',
                  'after a failed enqueue result was found, a success reply '
                  'can still be produced (a later result overwrites the '
                  'failure): the client is told 2xx although one envelope '
                  'was not taken into custody', loc=ctx.func.loc(),
                  reason='no success reply is built once a failure test '
                  'was positive', witness=dataflow.render_path(bad, 16)
                  if bad else None)


def _spawn_nodes(e: Engine, g):
    """call nodes that start a greenlet: <pool>.spawn(...), also through a
    local alias of the bound method"""
    out = []
    for n in g.calls():
        f = n.ast.func
        if isinstance(f, ast.Name):
            f, _ = common.origin(g, f, n.frame)
        if isinstance(f, ast.Attribute) and f.attr == 'spawn':
            out.append(n)
    return out


def r22(e: Engine, rep: Report):
    ctx = e.method_ctx(QUEUE, '_pool_imap')
    g = e.build(ctx, raises=lambda b, n, r: set(),
                inline=e.inline_same_self(
                    deny=['_pool_spawn', '_pool_run', '_holds_pool_slot']),
                max_depth=3)
    where = ctx.func.qname
    rep.functions.add(where)
    # threads = map(pool.spawn, ...) / [pool.spawn(...) for ...]
    tv = None
    for n in g.of_kind('stmt'):
        if isinstance(n.ast, ast.Assign) and 'spawn' in ast.unparse(
                n.ast.value) and n.frame is g.entry.frame and \
                isinstance(n.ast.value, ast.Call) and \
                ast.unparse(n.ast.value.func) in ('map', 'list', 'imap') or (
                isinstance(n.ast, ast.Assign) and isinstance(
                    n.ast.value, (ast.ListComp, ast.GeneratorExp)) and
                'spawn' in ast.unparse(n.ast.value)):
            tv = path_of(n.ast.targets[0], n.frame)
    loops = [n for n in g.of_kind('iter') if isinstance(n.ast, ast.For) and
             tv is not None and path_of(n.ast.iter, n.frame) == tv]
    rep.evaluations += 1
    # shape B: spawn and join inside one loop iteration
    per_iter = []
    for lp2 in g.of_kind('iter'):
        if not isinstance(lp2.ast, ast.For):
            continue
        sp = [n for n in g.of_kind('stmt') if isinstance(n.ast, ast.Assign)
              and isinstance(n.ast.value, ast.Call) and
              isinstance(n.ast.value.func, ast.Attribute) and
              n.ast.value.func.attr == 'spawn' and
              isinstance(n.ast.targets[0], ast.Name) and any(
                  sc.kind == 'loop' and sc.ast is lp2.ast
                  for sc in n.scopes)]
        for s2 in sp:
            per_iter.append((lp2, s2, path_of(s2.ast.targets[0], s2.frame)))
    # shape C: spawn and join in one iteration of a loop or comprehension,
    # possibly through a helper that joins (spawn as an expression)
    generic = []
    if not loops and not per_iter:
        for sp in _spawn_nodes(e, g):
            ls = [sc for sc in sp.scopes if sc.kind == 'loop']
            heads = [h for h in g.of_kind('iter') if ls and
                     h.ast is ls[-1].ast]
            if heads:
                generic.append((heads[0], sp))
    if generic:
        for lp2, sp in generic:
            counts = common.per_iteration_counts(
                g, lp2, lambda n: 1 if n.kind == 'call' and
                e.call_name(n) in ('join', 'get') else 0)
            rep.check(bool(counts) and 0 not in counts, 'R2.2', where,
                      'every spawned greenlet is joined',
                      'an iteration that spawns a write can complete '
                      'without join()/get(): its result is read before the '
                      'write finished', loc=lp2.loc(),
                      reason='join()/get() in every iteration that spawns')
            rets = [n for n in g.of_kind('stmt')
                    if isinstance(n.ast, ast.Return) and
                    n.frame is g.entry.frame]
            early = [r for r in rets
                     if common_reach_without_done(g, r, lp2)]
            brk = [n for n in g.of_kind('stmt')
                   if isinstance(n.ast, ast.Break) and any(
                       sc.kind == 'loop' and sc.ast is lp2.ast
                       for sc in n.scopes)]
            rep.check(not early and not brk and bool(rets), 'R2.2', where,
                      'returns only after the join loop completed',
                      '_pool_imap can return before every write was '
                      'spawned and joined', loc=lp2.loc(),
                      reason='loop exhausted before return')
    elif per_iter and not loops:
        for lp2, s2, gv in per_iter:
            counts = common.per_iteration_counts(
                g, lp2, lambda n: 1 if n.kind == 'call' and
                e.call_name(n) in ('join', 'get') and
                path_of(n.ast.func.value, n.frame) == gv else 0)
            rep.check(bool(counts) and 0 not in counts, 'R2.2', where,
                      'every spawned greenlet is joined',
                      'an iteration that spawns a write can complete '
                      'without join()/get() on it: its result is read '
                      'before the write finished', loc=lp2.loc(),
                      reason='join()/get() on the spawned greenlet in the '
                      'same iteration')
            rets = [n for n in g.of_kind('stmt')
                    if isinstance(n.ast, ast.Return)]
            early = [r for r in rets
                     if common_reach_without_done(g, r, lp2)]
            brk = [n for n in g.of_kind('stmt')
                   if isinstance(n.ast, ast.Break) and any(
                       sc.kind == 'loop' and sc.ast is lp2.ast
                       for sc in n.scopes)]
            rep.check(not early and not brk and bool(rets), 'R2.2', where,
                      'returns only after the join loop completed',
                      '_pool_imap can return before every write was '
                      'spawned and joined', loc=lp2.loc(),
                      reason='loop exhausted before return')
    elif tv is None or not loops:
        # nothing that waits anywhere in reach: the writes are not waited
        # for; a wait in a shape not read here is undecided, not a violation
        qc = common.merged_class(e, QUEUE)
        fns = [ctx.func.node] + [
            qc.methods[x.attr].node for x in walk_own(ctx.func.node)
            if isinstance(x, ast.Attribute) and
            isinstance(x.value, ast.Name) and x.value.id == 'self' and
            x.attr in qc.methods]
        waits = any(isinstance(y, ast.Call) and (
            (isinstance(y.func, ast.Attribute) and
             y.func.attr in ('join', 'get', 'joinall', 'wait')) or
            (isinstance(y.func, ast.Name) and
             y.func.id in ('joinall', 'wait')))
            for fn in fns for y in ast.walk(fn))
        if waits:
            rep.unknown('R2.2', where, 'spawned writes are waited for',
                        'cannot see how _pool_imap pairs the greenlets it '
                        'spawns with the join()/get() in reach',
                        loc=ctx.func.loc())
        else:
            rep.bad('R2.2', where, 'spawned writes are waited for',
                    '_pool_imap no longer iterates over the greenlets it '
                    'spawned: enqueue returns before the writes finished',
                    loc=ctx.func.loc())
    else:
        lp = loops[0]
        lv = path_of(lp.ast.target, lp.frame)
        counts = common.per_iteration_counts(
            g, lp, lambda n: 1 if n.kind == 'call' and
            e.call_name(n) in ('join', 'get') and
            path_of(n.ast.func.value, n.frame) == lv else 0)
        rep.check(counts and 0 not in counts, 'R2.2', where,
                  'every spawned greenlet is joined',
                  'an iteration over the spawned writes can complete '
                  'without join()/get(): its result is read before the '
                  'write finished (exception/value still unset => treated '
                  'as success)', loc=lp.loc(),
                  reason='join()/get() on the loop variable in every '
                  'iteration')
        rets = [n for n in g.of_kind('stmt')
                if isinstance(n.ast, ast.Return)]
        early = [r for r in rets if common_reach_without_done(g, r, lp)]
        rep.check(not early and bool(rets), 'R2.2', where,
                  'returns only after the join loop completed',
                  '_pool_imap can return before every greenlet was joined',
                  loc=(early[0].loc() if early else ctx.func.loc()),
                  reason='loop exhausted before return')
        brk = [n for n in g.of_kind('stmt') if isinstance(n.ast, ast.Break)
               and any(sc.kind == 'loop' and sc.ast is lp.ast
                       for sc in n.scopes)]
        rep.check(not brk, 'R2.2', where, 'join loop is never left early',
                  'the join loop can be left by break before every write '
                  'was waited for', reason='no break',
                  loc=brk[0].loc() if brk else lp.loc())
    # enqueue
    ctx = e.method_ctx(QUEUE, 'enqueue')
    g = e.build(ctx, raises=lambda b, n, r: set(),
                inline=e.inline_same_self(
                    deny=['_pool_imap', '_pool_spawn', '_pool_run',
                          '_run_policies', '_attempt']), max_depth=3)
    where = ctx.func.qname
    rep.functions.add(where)

    def is_write(x, fr):
        return canon(x, fr) == 'self.store.write'
    writes = [n for n in g.nodes if n.kind == 'call' and (
        any(is_write(a, n.frame) for a in n.ast.args) or
        is_write(n.ast.func, n.frame))]
    rep.evaluations += 1
    if not writes:
        rep.error('anchor vanished: store.write in Queue.enqueue')
    for w in writes:
        rep.check(e.call_name(w) == '_pool_imap', 'R2.2', where,
                  'storage writes go through the joining helper',
                  'store.write is started through `%s`, which does not wait '
                  'for the write: enqueue returns ids/None before custody '
                  'is taken' % e.call_name(w), loc=w.loc(),
                  reason='_pool_imap(...store.write...)')
    # the returned list is the unfiltered zip of envelopes and write results
    for r in g.of_kind('stmt'):
        if not (isinstance(r.ast, ast.Return) and
                isinstance(r.ast.value, ast.Name) and
                r.frame is g.entry.frame):
            continue
        rv = path_of(r.ast.value, r.frame)
        defs = [s for s in g.of_kind('stmt') if isinstance(s.ast, ast.Assign)
                and s.frame is g.entry.frame
                and path_of(s.ast.targets[0], s.frame) == rv]
        rep.evaluations += 1
        val = common.value_of(g, defs[0].ast.value, defs[0].frame)[0] \
            if len(defs) == 1 else None
        ok = len(defs) == 1 and 'zip(' in ast.unparse(val) and \
            not any(isinstance(x, (ast.ListComp, ast.GeneratorExp)) and
                    any(g2.ifs for g2 in x.generators)
                    for x in ast.walk(val))
        rep.check(ok, 'R2.2', where,
                  'enqueue returns one result per envelope, failures '
                  'included',
                  'the list enqueue() returns is rebuilt or filtered (%d '
                  'definitions): a failed write can disappear from it, so '
                  'the edge sees no error and acknowledges the message'
                  % len(defs), loc=r.loc(),
                  reason='single definition: list(zip(envelopes, ids))')
    before = dataflow.must_events_before(
        g, lambda n: ['write'] if n in writes else [])
    for r in g.of_kind('stmt'):
        if isinstance(r.ast, ast.Return) and before.get(r.id) is not None \
                and r.frame is g.entry.frame:
            rep.evaluations += 1
            rep.check('write' in before.get(r.id), 'R2.2', where,
                      'enqueue returns after the writes',
                      'enqueue can return before the storage writes were '
                      'issued', loc=r.loc(), reason='dominated by the '
                      'write call')


def common_reach_without_done(g, dst, lp) -> bool:
    def edge_ok(a, l, s):
        if a is lp and l == 'done':
            return False
        return not isinstance(l, tuple)
    return dst.id in dataflow.reachable(g, g.entry, edge_ok)


def r23(e: Engine, rep: Report):
    ctx = e.method_ctx(c07.SERVER, '_get_message_data')
    g = e.build(ctx)
    where = ctx.func.qname
    rep.functions.add(where)
    cbs = [n for n in c07.cb_sites(e, g) if c07.cb_name(n) == 'HAVE_DATA']
    sends = [n for n in g.nodes if c07.is_reply_send(e, n) is not None]
    if not cbs or not sends:
        rep.error('anchor vanished: HAVE_DATA callback / reply send in '
                  '_get_message_data')
        return
    before = dataflow.must_events_before(
        g, lambda n: ['cb'] if n in cbs else [])
    for s in sends:
        rep.evaluations += 1
        rep.check('cb' in (before.get(s.id) or ()), 'R2.3', where,
                  'reply sent only after HAVE_DATA decided',
                  'the reply to the message content can be sent before the '
                  'HAVE_DATA handler (which enqueues the message) ran',
                  loc=s.loc(), reason='callback on every path before the '
                  'send')
        # the reply that is sent is the one the handler saw
        rep.check(c07.is_reply_send(e, s) == c07.cb_reply(cbs[0]), 'R2.3',
                  where, 'the reply the handler decided is the one sent',
                  'the reply object sent differs from the one handed to '
                  'HAVE_DATA', loc=s.loc(), reason='same object')


def r24(e: Engine, rep: Report):
    ctx = e.method_ctx('slimta.queue.proxy.ProxyQueue', 'enqueue')
    g = e.build(ctx, raises=lambda b, n, r: set(),
                inline=e.inline_same_self(), max_depth=3)
    where = ctx.func.qname
    rep.functions.add(where)
    calls = [n for n in g.nodes if n.kind == 'call' and
             e.call_name(n) in ('_attempt', 'attempt') and
             'relay' in ast.unparse(n.ast.func)]
    if not calls:
        rep.error('anchor vanished: relay._attempt in ProxyQueue.enqueue')
        return
    got = common.assigned_from(g, calls[0].ast)
    src = [s2 for _, s2 in got]
    rep.evaluations += 1
    if not src:
        rep.bad('R2.4', where, 'relay result is kept',
                'the value returned by relay._attempt() is discarded: a '
                'per-recipient failure mapping is acknowledged as success',
                loc=calls[0].loc())
        return
    # kept through a helper: every way the helper comes back carries the
    # relay's answer or the error it raised - not an implicit None, which
    # the scan below reads as "nothing failed"
    for _pth, s2 in got:
        if s2.ast.value is calls[0].ast or not isinstance(s2.ast.value,
                                                          ast.Call):
            continue
        kids = [c for c in getattr(s2.frame, 'children', ())
                if c.call is s2.ast.value]
        for kf in kids:
            fn = kf.ctx.func.node
            hnames = {h.name for h in ast.walk(fn)
                      if isinstance(h, ast.ExceptHandler) and h.name}
            rets = [r for r in g.of_kind('stmt')
                    if isinstance(r.ast, ast.Return) and r.frame is kf]
            crs = [c for c in g.of_kind('call_return')
                   if c.extra.get('callee_frame') is kf]
            fall = any(p.frame is kf and not (
                p.kind == 'stmt' and isinstance(p.ast, ast.Return))
                for c in crs for _l, p in c.pred)
            empty = [r for r in rets if r.ast.value is None or not (
                any(y is calls[0].ast for y in ast.walk(r.ast.value)) or
                any(isinstance(y, ast.Name) and y.id in hnames
                    for y in ast.walk(r.ast.value)))]
            rep.evaluations += 1
            rep.check(not fall and not empty, 'R2.4', where,
                      'the helper hands back the relay result on every way '
                      'out', '%s can come back without the value of '
                      'relay._attempt() and without the error it raised '
                      '(%s): enqueue() reads that as a message the relay '
                      'took' % (kf.ctx.func.name, 'it falls off its end'
                                if fall else 'a bare / unrelated return'),
                      loc=(empty[0] if empty else s2).loc(),
                      reason='every return carries the result or the '
                      'caught error')
    rv = got[0][0]
    # data-flow closure of the result variable (results = list(x.values()))
    dep = {pth for pth, _ in got}
    changed = True
    while changed:
        changed = False
        for n in g.of_kind('stmt'):
            if isinstance(n.ast, ast.Assign):
                t = path_of(n.ast.targets[0], n.frame)
                if t and t not in dep and any(
                        path_of(x, n.frame) in dep
                        for x in ast.walk(n.ast.value)
                        if isinstance(x, (ast.Name, ast.Attribute))):
                    dep.add(t)
                    changed = True
        # a helper's parameter bound to a dependent name
        for b in g.of_kind('bind'):
            x = b.extra
            if x.get('is_self') or x.get('arg') is None:
                continue
            new = '%s#%d' % (x['param'], b.frame.id)
            if new not in dep and any(
                    path_of(y, x['arg_frame']) in dep
                    for y in ast.walk(x['arg'])
                    if isinstance(y, (ast.Name, ast.Attribute))):
                dep.add(new)
                changed = True
    scans = [n for n in g.of_kind('iter')
             if isinstance(n.ast, (ast.For, ast.comprehension)) and
             any(path_of(x, n.frame) in dep for x in ast.walk(n.ast.iter)
                 if isinstance(x, (ast.Name, ast.Attribute)))]
    bound = set()
    for lp in scans:
        for x in ast.walk(lp.ast.target):
            if isinstance(x, ast.Name):
                bound.add(path_of(x, lp.frame))
    tests = [t for t in g.of_kind('test') if isinstance(t.ast, ast.Call) and
             isinstance(t.ast.func, ast.Name) and
             t.ast.func.id == 'isinstance' and len(t.ast.args) == 2 and
             fail_class(e, ctx, t.ast.args[1]) == 'relay' and
             path_of(t.ast.args[0], t.frame) in bound]
    rep.check(bool(tests), 'R2.4', where,
              'per-recipient entries are tested against RelayError',
              'no entry of the relay result is tested for being a '
              'RelayError: a rejected recipient is acknowledged',
              loc=src[0].loc(), reason='isinstance(entry, RelayError) '
              'inside a scan over the result')
    # a failing entry leads to a failure result (not to the fresh id)
    fx = e.facts(g)
    for t in tests:
        rep.evaluations += 1
        comp = [sc for sc in t.scopes if sc.kind == 'loop' and
                isinstance(sc.ast, ast.comprehension)]
        if comp:
            # selection shape: the failing entries are picked out by a
            # comprehension / generator; the fresh id may be returned only
            # where the pick turned out empty
            picked = set()
            for s2 in g.of_kind('stmt'):
                if isinstance(s2.ast, ast.Assign) and any(
                        comp[0].ast in getattr(x, 'generators', [])
                        for x in ast.walk(s2.ast.value)) and \
                        isinstance(s2.ast.targets[0], ast.Name):
                    picked.add(path_of(s2.ast.targets[0], s2.frame))
            changed = True
            while changed:
                changed = False
                for s2 in g.of_kind('stmt'):
                    if not isinstance(s2.ast, ast.Assign) or \
                            not isinstance(s2.ast.targets[0], ast.Name):
                        continue
                    tname = path_of(s2.ast.targets[0], s2.frame)
                    if tname in picked:
                        continue
                    if any((isinstance(y, ast.Name) and
                            path_of(y, vf) in picked) or
                           comp[0].ast in getattr(y, 'generators', [])
                           for val, vf in common.values_of(
                               g, s2.ast.value, s2.frame)
                           for y in ast.walk(val)):
                        picked.add(tname)
                        changed = True
            # where the fresh id is made (the call itself: it may sit in
            # a conditional expression whose value is returned later)
            uuid_rets = [n for n in g.calls()
                         if 'uuid' in ast.unparse(n.ast.func)] or [
                n for n in g.of_kind('stmt')
                if isinstance(n.ast, ast.Return) and
                'uuid' in ast.unparse(n.ast)]
            ok = bool(uuid_rets) and all(any(
                (p and k == sp + ' is None') or (not p and k == sp)
                for p, k in (fx.at(r) or ()) for sp in picked)
                for r in uuid_rets)
            rep.check(ok, 'R2.4', where, 'a failed entry yields a failure '
                      'result', 'the fresh message id can be returned '
                      'although the entries picked out as RelayError were '
                      'not found empty', loc=t.loc(),
                      reason='id returned only under "nothing picked"')
            continue
        tsucc = [s for l, s in t.succ if l == 'T']
        ok = False
        for s in tsucc:
            reach = dataflow.reachable(
                g, s, lambda a, l, x: not isinstance(l, tuple))
            rets = [n for n in g.of_kind('stmt') if n.id in reach and
                    isinstance(n.ast, ast.Return)]
            uuid_ret = [n for n in rets if 'uuid' in ast.unparse(n.ast)]
            ok = bool(rets) and not uuid_ret
        rep.check(ok, 'R2.4', where, 'a failed entry yields a failure '
                  'result', 'after a RelayError entry was found the '
                  'function can still return a fresh message id',
                  loc=t.loc(), reason='T branch returns the error')


# ---------------------------------------------- R2.4 (kinds): scan reached
def r24_kinds(e: Engine, rep: Report):
    """For each per-recipient result shape a relay can return (mapping,
    sequence), the entry scan of ProxyQueue.enqueue is actually reached:
    abstract interpretation of the function with the relay result pinned to
    that kind (isinstance narrowing decides which branches are feasible)."""
    from ..kinds import Kinds, KindFlow, ks, show
    ctx = e.method_ctx('slimta.queue.proxy.ProxyQueue', 'enqueue')
    g = e.build(ctx, raises=lambda b, n, r: set(),
                inline=e.inline_same_self(), max_depth=3)
    where = ctx.func.qname
    calls = [n for n in g.nodes if n.kind == 'call' and
             e.call_name(n) in ('_attempt', 'attempt') and
             'relay' in ast.unparse(n.ast.func)]
    if not calls:
        return
    tests = [t for t in g.of_kind('test') if isinstance(t.ast, ast.Call) and
             isinstance(t.ast.func, ast.Name) and
             t.ast.func.id == 'isinstance' and len(t.ast.args) == 2 and
             fail_class(e, ctx, t.ast.args[1]) == 'relay' and
             any(sc.kind == 'loop' for sc in t.scopes)]
    for kind in ('Dict', 'List'):
        K = Kinds(e)
        K.call_overrides = {id(calls[0].ast): ks(kind)}
        flow = KindFlow(K, g)
        rep.evaluations += 1
        reached = [t for t in tests if flow.IN.get(t.id) is not None]
        rep.check(bool(reached), 'R2.4', where,
                  'entry scan is reached for a %s result' % (
                      'mapping' if kind == 'Dict' else 'sequence'),
                  'when the relay returns a %s, the isinstance tests in '
                  'front of the per-recipient scan rule it out (e.g. a '
                  'dict view is not a Sequence): the scan is skipped and a '
                  'rejected recipient is acknowledged' % (
                      'mapping' if kind == 'Dict' else 'list'),
                  loc=ctx.func.loc(),
                  reason='RelayError test reachable with kind ' + kind)


def r25(e: Engine, rep: Report):
    ctx = e.method_ctx(QUEUE, '_run_policies')
    where = ctx.func.qname
    rep.functions.add(where)
    rep.evaluations += 1
    sites = list(common.stale_index_sites(ctx.func.node))
    for lp, n, L, i in sites:
        rep.bad('R2.5', where, 'positional update `%s`'
                % ' '.join(ast.unparse(n).split())[:50],
                '`%s` is updated at index `%s`, which enumerates a copy of '
                'the list taken before the loop: once an earlier update '
                'changed the length, the index denotes another envelope - '
                'an envelope a policy produced is overwritten and never '
                'stored although the client is told 250' % (L, i),
                loc=ctx.func.loc(n))
    if not sites:
        rep.ok('R2.5', where, 'no positional update of the result list '
               'with a stale index', reason='updates are by identity '
               '(remove/extend) or use a fresh index')
    ctx = e.method_ctx(QUEUE, 'enqueue')
    where = ctx.func.qname
    g = e.build(ctx, raises=lambda b, n, r: set(),
                inline=e.inline_same_self(
                    deny=['_pool_imap', '_pool_spawn', '_pool_run',
                          '_run_policies', '_attempt']), max_depth=3)
    src = [n for n in g.of_kind('stmt') if isinstance(n.ast, ast.Assign) and
           isinstance(n.ast.value, ast.Call) and
           canon(n.ast.value.func, n.frame) == 'self._run_policies' and
           isinstance(n.ast.targets[0], ast.Name)]
    rep.evaluations += 1
    var = None
    if len(src) == 1:
        var = path_of(src[0].ast.targets[0], src[0].frame)
    elif not src:
        # handed straight to a helper: its parameter names the list
        for b in g.of_kind('bind'):
            a = b.extra.get('arg')
            if isinstance(a, ast.Call) and not b.extra.get('is_self') and \
                    canon(a.func, b.extra['arg_frame']) == \
                    'self._run_policies':
                var = '%s#%d' % (b.extra['param'], b.frame.id)
                src = [b]
    if var is None or len(src) != 1:
        rep.error('anchor vanished: result of _run_policies in enqueue')
        return
    short = var.split('#')[0]

    def mentions(x, fr):
        return any(isinstance(y, ast.Name) and path_of(y, fr) == var
                   for y in ast.walk(x))
    rebinds = [n for n in g.of_kind('stmt') if n is not src[0] and
               isinstance(n.ast, (ast.Assign, ast.AugAssign)) and any(
                   isinstance(t, ast.Name) and isinstance(t.ctx, ast.Store)
                   and '%s#%d' % (t.id, n.frame.id) == var
                   for tt in (n.ast.targets if isinstance(n.ast, ast.Assign)
                              else [n.ast.target]) for t in ast.walk(tt))]
    muts = [n for n in g.nodes if n.kind == 'call' and
            isinstance(n.ast.func, ast.Attribute) and
            path_of(n.ast.func.value, n.frame) == var and
            n.ast.func.attr in ('pop', 'remove', 'clear', 'insert', 'append',
                                'extend', 'sort', 'reverse')]
    writes = [n for n in g.nodes if n.kind == 'call' and
              e.call_name(n) == '_pool_imap' and any(
                  canon(a, n.frame) == 'self.store.write'
                  for a in n.ast.args)]
    zips = [n for n in g.nodes if n.kind == 'call' and
            isinstance(n.ast.func, ast.Name) and n.ast.func.id == 'zip']
    ok = not rebinds and not muts and writes and all(
        any(path_of(a, w.frame) == var for a in w.ast.args)
        for w in writes) and zips and all(
        z.ast.args and path_of(z.ast.args[0], z.frame) == var for z in zips)
    rep.check(bool(ok), 'R2.5', where,
              'the list from _run_policies is what is written and paired',
              'enqueue does not hand the unmodified list `%s` returned by '
              '_run_policies to both the store writes and the pairing with '
              'the ids: an envelope is dropped or paired with the result '
              'of another one' % short, loc=ctx.func.loc(),
              reason='single binding, no mutation, passed to _pool_imap('
              'store.write) and zip()')


# -------------------------------------------------------------------- R2.6
def r26(e: Engine, rep: Report):
    """What _pool_imap waits for must be the greenlets that RUN the writes.
    The spawn callable has to hand back a greenlet whose function is the one
    given to it: `<pool>.spawn(func, ...)`.  A wrapper that may return a
    greenlet running something else (a waiter that only *starts* the write
    later, as Queue._pool_spawn does for a caller holding a pool slot) makes
    join() return before the write finished: its value - another greenlet -
    is taken for the id."""
    ctx = e.method_ctx(QUEUE, '_pool_imap')
    fn = ctx.func.node
    where = ctx.func.qname
    sites = []
    for x in walk_own(fn):
        if not isinstance(x, ast.Call):
            continue
        f = x.func
        # map(<spawner>, repeat(func), ...) / <spawner>(func, ...)
        if isinstance(f, ast.Name) and f.id in ('map', 'imap', 'starmap') \
                and x.args and isinstance(x.args[0], ast.Attribute):
            sites.append((x, x.args[0]))
        elif isinstance(f, ast.Attribute) and (
                f.attr == 'spawn' or (
                    isinstance(f.value, ast.Name) and f.value.id == 'self'
                    and 'spawn' in f.attr)):
            sites.append((x, f))
    if not sites:
        # the bound method put in a local first: spawn = pool.spawn
        for a in walk_own(fn):
            if isinstance(a, ast.Assign) and \
                    isinstance(a.value, ast.Attribute) and (
                        a.value.attr == 'spawn' or 'spawn' in a.value.attr):
                sites.append((a, a.value))
    if not sites:
        rep.error('anchor vanished: spawn sites in Queue._pool_imap')
        return
    c = common.merged_class(e, QUEUE)
    for call, sp in sites:
        rep.evaluations += 1
        ok, why = True, 'spawns through %s' % ast.unparse(sp)
        if isinstance(sp.value, ast.Name) and sp.value.id == 'self' and \
                sp.attr in c.methods:
            # a method of the queue: every value it returns must be a
            # greenlet running the function it was given
            m = c.methods[sp.attr]
            prm = m.params[1:]
            bad = []
            for r in walk_own(m.node):
                if not isinstance(r, ast.Return):
                    continue
                v = r.value
                good = isinstance(v, ast.Call) and \
                    isinstance(v.func, ast.Attribute) and \
                    v.func.attr == 'spawn' and v.args and \
                    isinstance(v.args[0], ast.Name) and \
                    v.args[0].id in prm
                if not good:
                    bad.append(ast.unparse(v) if v is not None else 'None')
            ok = not bad
            why = 'self.%s can return `%s`' % (sp.attr, bad[0][:60]) \
                if bad else why
        rep.check(ok, 'R2.6', where,
                  'the joined greenlets run the writes themselves',
                  '_pool_imap spawns through %s, which does not always '
                  'return the greenlet that runs the given function (%s): '
                  'join() returns before the write finished and the '
                  'greenlet object it returned is taken for the message id '
                  '- the client is told 250 before (and whether or not) '
                  'the message was written' % (ast.unparse(sp), why),
                  loc=ctx.func.loc(call), reason=why)


# -------------------------------------------------------------------- R2.7
def r27(e: Engine, rep: Report):
    """Who may say "accepted" in the HTTP edge: a success reply (a Reply
    with a 2xx code, which becomes the 2xx HTTP status) is built only where
    the hand-off to the queue has happened on every path before."""
    m = e.p.modules.get('slimta.edge.wsgi')
    if m is None:
        rep.error('anchor vanished: module slimta.edge.wsgi')
        return
    n = 0
    helpers = {}
    for cq, c in e.p.classes.items():
        if c.module is m:
            helpers[cq] = common.private_helpers(e, cq)

    def is_success_reply(x):
        return isinstance(x, ast.Call) and \
            ast.unparse(x.func).rpartition('.')[2] == 'Reply' and \
            x.args and isinstance(x.args[0], ast.Constant) and \
            str(x.args[0].value).startswith('2')
    for f in e.p.functions.values():
        if f.module is not m:
            continue
        # a private helper is seen in the context of its callers
        if f.cls is not None and f.name in helpers.get(f.cls.qname, ()):
            continue
        ctx = Ctx(f, f.cls.qname if f.cls is not None else None)
        g = e.build(ctx, raises=lambda b, nn, r: set(),
                    inline=e.inline_same_self(deny=['handoff']),
                    max_depth=3)
        sites = [nn.ast for nn in g.calls() if is_success_reply(nn.ast)]
        if not sites:
            continue
        rep.functions.add(f.qname)
        before = dataflow.must_events_before(
            g, lambda nn: ['handoff'] if nn.kind == 'call' and
            e.call_name(nn) == 'handoff' else [])
        for x in sites:
            n += 1
            rep.evaluations += 1
            nodes = [nn for nn in g.nodes if nn.kind == 'call' and
                     nn.ast is x]
            ok = bool(nodes) and all(
                'handoff' in (before.get(nn.id) or ()) for nn in nodes)
            rep.check(ok, 'R2.7', f.qname,
                      'success reply `%s` only after the hand-off'
                      % ' '.join(ast.unparse(x).split())[:50],
                      'the HTTP edge can answer with a success reply on a '
                      'path on which the message was not handed to the '
                      'queue in this request: the client is told the '
                      'message was accepted although nothing was (or is '
                      'yet) written', loc=f.loc(x),
                      reason='self.handoff(...) on every path before')
    if n < 1:
        rep.error('anchor vanished: success replies in slimta.edge.wsgi')


# -------------------------------------------------------------------- R2.8
def r28(e: Engine, rep: Report):
    cls, meth = EDGES[0] if EDGES[0][1] == 'HAVE_DATA' else (
        [x for x in EDGES if x[1] == 'HAVE_DATA'] or [EDGES[0]])[0]
    ctx = e.method_ctx(cls, meth)
    g = e.build(ctx, inline=e.inline_same_self(
        deny=['handoff', '_call_validator']),
        raises=lambda b, n, r: set(), max_depth=3)
    where = ctx.func.qname
    rep.functions.add(where)
    rp = '%s#%d' % (ctx.func.params[1], g.entry.frame.id)
    fails = []
    for t in g.of_kind('test'):
        a = t.ast
        if isinstance(a, ast.Call) and isinstance(a.func, ast.Name) and \
                a.func.id == 'isinstance' and len(a.args) == 2 and \
                fail_classes(e, ctx, a.args[1]):
            fails.append(t)
    if not fails:
        rep.error('anchor vanished: failure tests in %s (R2.8)' % where)
        return

    def writes_reply(n):
        if n.kind == 'call' and isinstance(n.ast.func, ast.Attribute) and \
                n.ast.func.attr in ('copy', 'update') and n.ast.args:
            try:
                return canon(n.ast.func.value, n.frame) == rp
            except Exception:
                return False
        if n.kind == 'stmt' and isinstance(n.ast, (ast.Assign,
                                                   ast.AugAssign)):
            tg = n.ast.targets if isinstance(n.ast, ast.Assign) \
                else [n.ast.target]
            for t in tg:
                if isinstance(t, ast.Attribute):
                    try:
                        if canon(t.value, n.frame) == rp:
                            return True
                    except Exception:
                        pass
        return False

    def step(n, label, st):
        if n in fails and label == 'T':
            return 'failed'
        if st == 'failed' and writes_reply(n):
            return 'written'
        return st
    rep.evaluations += 1
    pth = dataflow.typestate_witness(
        g, 'ok', step, lambda n, st: n is g.exit and st == 'failed')
    rep.check(pth is None, 'R2.8', where,
              'a failed result is written into the reply the server holds',
              'after an enqueue result tested as a failure the handler can '
              'return without having written the reply object it was given '
              '(a re-bound local is not what the server sends): the client '
              'reads the success reply that was prepared beforehand',
              loc=ctx.func.loc(), reason='reply.copy(...) / attribute '
              'assignment on every failure path',
              witness=dataflow.render_path(pth, 14) if pth else None)


# -------------------------------------------------------------------- R2.9
def r211(e: Engine, rep: Report):
    n = 0
    for m in e.p.modules.values():
        if not m.name.startswith('slimta.edge'):
            continue
        for f in [f for f in e.p.functions.values() if f.module is m and
                  f.cls is not None]:
            for x in walk_own(f.node):
                if not (isinstance(x, ast.Assign) and any(
                        isinstance(t, ast.Attribute) and t.attr == 'queue'
                        and isinstance(t.value, ast.Name) and
                        t.value.id == 'self' for t in x.targets)):
                    continue
                n += 1
                rep.evaluations += 1
                rep.functions.add(f.qname)
                v = x.value

                def plain(v):
                    # the argument, or `arg if arg is [not] None else ...`
                    if isinstance(v, ast.Name) and v.id in f.params:
                        return True
                    if isinstance(v, ast.IfExp) and \
                            isinstance(v.test, ast.Compare) and \
                            len(v.test.ops) == 1 and isinstance(
                                v.test.ops[0], (ast.Is, ast.IsNot)) and \
                            isinstance(v.test.comparators[0], ast.Constant) \
                            and v.test.comparators[0].value is None:
                        return plain(v.body) or plain(v.orelse)
                    return False
                rep.check(plain(v), 'R2.11', f.qname,
                          '`%s`' % ' '.join(ast.unparse(x).split())[:60],
                          'the edge does not keep the queue it was given: '
                          '`%s` replaces it depending on its truth value - '
                          'a Queue that has not been started (or has no '
                          'relay and ended) is false, its stand-in then '
                          'acknowledges every message with 250 / 204 '
                          'although nothing was stored' % ' '.join(
                              ast.unparse(v).split())[:50], loc=f.loc(x),
                          reason='bound to the parameter itself')
    if n < 1:
        rep.error('anchor vanished: assignment of Edge.queue')


def r29(e: Engine, rep: Report):
    ctx = e.method_ctx(QUEUE, '_pool_imap')
    g = e.build(ctx, raises=lambda b, n, r: set(),
                inline=e.inline_same_self(
                    deny=['_pool_spawn', '_pool_run', '_holds_pool_slot']),
                max_depth=3)
    where = ctx.func.qname
    rep.functions.add(where)
    reads = []
    for n in g.nodes:
        if n.kind not in ('stmt', 'call', 'test'):
            continue
        for x in c07.own_exprs(n) if hasattr(c07, 'own_exprs') else []:
            for y in ast.walk(x):
                if isinstance(y, ast.Attribute) and \
                        y.attr in ('value', 'exception') and \
                        isinstance(y.ctx, ast.Load) and \
                        isinstance(y.value, ast.Name):
                    reads.append((n, y))
    if not reads:
        rep.unknown('R2.9', where, 'results are read off finished greenlets',
                    'cannot see where _pool_imap reads the outcome of the '
                    'writes (.value / .exception)', loc=ctx.func.loc())
        return

    def step(n, label, st):
        if isinstance(label, tuple):
            return st
        if n.kind == 'iter':
            return 'running'            # the next greenlet
        if n.kind == 'call' and isinstance(n.ast.func, ast.Attribute):
            nm = n.ast.func.attr
            if nm == 'join':
                bounded = bool(n.ast.args) or any(
                    k.arg in ('timeout', None) for k in n.ast.keywords)
                return 'maybe' if bounded else 'done'
            if nm in ('get', 'joinall', 'wait') and not n.ast.args and \
                    not n.ast.keywords:
                return 'done'
            if nm == 'kill':
                nb = any(k.arg == 'block' and
                         isinstance(k.value, ast.Constant) and
                         k.value.value is False for k in n.ast.keywords)
                return st if nb else 'done'
        if n.kind == 'test' and label in ('T', 'F'):
            t = n.ast
            if isinstance(t, ast.Call) and \
                    isinstance(t.func, ast.Attribute) and \
                    t.func.attr in ('ready', 'successful', 'dead') and \
                    label == 'T':
                return 'done'
        return st
    seen = set()
    for n, y in reads:
        key = (n.id, y.attr)
        if key in seen:
            continue
        seen.add(key)
        rep.evaluations += 1
        w = dataflow.typestate_witness(
            g, 'running', step, lambda x, st, n=n: x is n and st != 'done')
        rep.check(w is None, 'R2.9', where,
                  '`%s` read off a finished greenlet' % ast.unparse(y),
                  '`%s` is read although the greenlet may still be running '
                  '(join with a timeout, no positive ready() test, a kill '
                  'that does not wait): a write that has not finished reads '
                  'as value None, enqueue() takes None for the id and the '
                  'edge tells the client 250 for a message that is not '
                  'stored' % ast.unparse(y), loc=n.loc(),
                  reason='after an unbounded join / positive ready test',
                  witness=dataflow.render_path(w, 12) if w else None)
