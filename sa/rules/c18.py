"""C18 - PROXY protocol headers are parsed exactly and never over-read.

"Returns exactly the encoded addresses" and "stops exactly at CRLF" are
value-level and NOT decided.  Decided:

V1 upper bounds on consumption: every recv_into passes an explicit byte
   count, reads into a view of a bytearray of protocol-constant size, inside
   a loop bounded by that size
V2 only the declared failure channels escape the parsers: exception-escape
   analysis with a table of input-dependent decoders
V3 error mapping and dispatch in the three handle() methods; the v2 prefix
   tested by the auto-detecting handler is a prefix of the full signature
"""
from __future__ import annotations

import ast
from typing import Dict

from ..engine import Engine
from ..report import Report
from ..cfg import Node, ANY
from ..facts import path_of, canon
from ..model import walk_own
from ..resolve import Ctx
from .. import dataflow

MOD = 'slimta.util.proxyproto'
V1 = MOD + '.ProxyProtocolV1'
V2 = MOD + '.ProxyProtocolV2'
AUTO = MOD + '.ProxyProtocol'
LOCAL = MOD + '.LocalConnection'

# call name -> malformed-input exception classes (verified in this sandbox:
# socket.inet_pton raises OSError for bad syntax and ValueError for an
# embedded NUL character)
DECODER_RAISES = {
    'inet_pton': ['builtins.OSError', 'builtins.ValueError'],
    'int': ['builtins.ValueError'],
    'decode': ['builtins.UnicodeDecodeError'],
    'unpack': ['struct.error'],
    # inet_ntop raises ValueError for a packed address of the wrong length;
    # not when its argument was cut to length by a struct format (see
    # _fixed_by_struct)
    'inet_ntop': ['builtins.ValueError'],
}
# parsers that accept more than the canonical textual form
LENIENT_PARSERS = {'inet_aton': 'accepts 1-3 part, hex and octal forms and '
                   'trailing text', 'gethostbyname': 'resolves names',
                   'getaddrinfo': 'resolves names', 'ip_address': None}
ALLOWED = {'builtins.AssertionError', LOCAL}
BUFFER_BOUNDS = {'__read_pp_line': 107, '__read_pp_initial': 8}


def run(e: Engine, rep: Report):
    rep.rule('V1', 'recv_into(view, n): explicit count; view of a '
             'bytearray of size 107 (v1 line) / 8 (initial) / the declared '
             'length (v2); loop bounded by that size')
    rep.rule('V2', 'malformed-input exception classes that can leave '
             'process_pp_v1 / process_pp_v2 / the initial read are within '
             '{AssertionError, LocalConnection}')
    rep.rule('V3', 'handle(): AssertionError => invalid source address and '
             'the wrapped handler still runs; LocalConnection => return '
             'without it; signature constants agree')
    rep.rule('V4', 'peer-supplied address text is validated by the strict '
             'parser only (inet_pton); lenient parsers (inet_aton, name '
             'resolution) are not used in the module')
    rep.rule('V5', 'v2 address provenance: every returned address element '
             'is a struct field passed through inet_ntop / removal of '
             'trailing NUL padding only (no operation that can drop or '
             'change bytes inside the field)')
    rep.tables.add('c18.DECODER_RAISES')
    rep.tables.add('c18.LENIENT_PARSERS')
    rep.not_decided += ['that the parser returns exactly the encoded '
                        'addresses and stops exactly at CRLF (value-level)',
                        'IndexError/KeyError from subscripts (would need '
                        'value reasoning; deliberately not in the decoder '
                        'table)']
    v1(e, rep)
    v2(e, rep)
    v3(e, rep)
    v4(e, rep)
    v5(e, rep)
    rep.rule('V6', 'a value looked up in a class-level table of the v2 '
             'parser is tested by truthiness only if no entry of the table '
             'can be falsy (socket.AF_UNSPEC is 0): a legal header is not '
             'refused as malformed')
    v6(e, rep)
    rep.rule('V7', 'the log calls that lie between a parsed header and the '
             'wrapped handler take the address as it is: the shape of a '
             'source address depends on the family ((host, port), bytes '
             'path, None), so slimta.logging.socket proxyproto_* never '
             'index / unpack / search it outside an isinstance guard (an '
             'exception there leaves handle() and the connection is lost)')
    v7(e, rep)
    rep.rule('V8', 'PROXY v2 is big-endian on the wire: every struct format '
             'of the module that has a multi-byte number in it starts with '
             '`!` (or `>`) - without it the host\'s byte order decides what '
             'length is read')
    v8(e, rep)
    rep.rule('V9', 'the v1 line is taken apart only when it is framed: where '
             'parse_pp_line cuts `PROXY ` and the CRLF off the line, both '
             'startswith(b"PROXY ") and endswith(b"\\r\\n") have been '
             'established on the path (a line with a corrupted signature is '
             'otherwise accepted - six bytes are cut off whatever they are)')
    v9(e, rep)
    rep.rule('V10', 'the fields of the v1 line are separated by exactly one '
             'SP: wherever the module takes header text apart with '
             'split / rsplit, the separator is given (a separator-less '
             'split() takes any run of TAB, VT, FF, CR, LF or SP for one '
             'separator and drops empty fields: corrupted separators are '
             'accepted with a real-looking address, and a field-less line '
             'yields [] whose [0] raises IndexError out of handle())')
    v10(e, rep)
    rep.rule('V11', 'what handle() gives the wrapped handler is what the '
             'parser returned or the invalid address: no assignment that '
             'reaches the wrapped call computes the address from the parsed '
             'one or replaces it by the address of the connection (an '
             'UNKNOWN / UNSPEC header - and every header the v2 parser '
             'reports the same way - would proceed with the proxy\'s own, '
             'typically trusted, address)')
    rep.rule('V12', 'what a header parses to depends on the header alone: '
             'no function of the module changes a module-level or '
             'class-level container in place or rebinds a module global '
             '(an address cache keyed on the text answers a malformed '
             'header - the same text under the other family token - with '
             'the address an earlier connection validated)')
    v12(e, rep)
    rep.floor('V1', 4, 'recv_into sites')


class _ModFlow:
    """Values of locals / parameters inside one module, followed to their
    origins: a local assigned once stands for its value, a parameter for the
    argument at every call site in the module (bounded depth)."""

    def __init__(self, e: Engine, m):
        self.e = e
        self.m = m
        self.funcs = [f for f in e.p.functions.values() if f.module is m]

    def callers(self, f):
        out = []
        for g in self.funcs:
            for n in walk_own(g.node):
                if not isinstance(n, ast.Call):
                    continue
                fn = n.func
                nm = fn.id if isinstance(fn, ast.Name) else (
                    fn.attr if isinstance(fn, ast.Attribute) else None)
                if nm == f.name or (f.name == '__init__' and
                                    f.cls is not None and nm == f.cls.name):
                    # (a call the resolver binds to something else - the
                    # logger's `log.recv` - is no caller)
                    try:
                        r = self.e.r.resolve_call(n, Ctx(g))
                        if (r.targets or r.externals) and not any(
                                t.func is f for t in r.targets) and \
                                not r.fallback:
                            continue
                    except Exception:
                        pass
                    out.append((g, n))
        return out

    def arg_for(self, f, call, pname):
        params = list(f.params)
        if (f.kind in ('method', 'classmethod') and
                isinstance(call.func, ast.Attribute)) or \
                f.name == '__init__':
            params = params[1:]
        if pname not in params:
            return None
        i = params.index(pname)
        if i < len(call.args) and not any(
                isinstance(a, ast.Starred) for a in call.args[:i + 1]):
            return call.args[i]
        for k in call.keywords:
            if k.arg == pname:
                return k.value
        return None

    def leaves(self, f, x, depth=0, seen=(), env=None):
        """[(function, expression)] the value of x in f may originate from.
        env: {(function qname, parameter): (caller, argument)} for helpers
        entered through one particular call (what they return is followed
        with the arguments of that call)"""
        env = env or {}
        if depth > 7:
            return [(f, x)]
        if isinstance(x, ast.Call) and isinstance(x.func, ast.Name):
            # a module-level helper: what it returns, for this call
            g = next((h for h in self.funcs if h.cls is None and
                      h.parent is None and h.name == x.func.id), None)
            if g is not None and not g.is_generator and \
                    (g.qname, '$active') not in seen:
                rets = [r.value for r in walk_own(g.node)
                        if isinstance(r, ast.Return) and r.value is not None]
                if rets:
                    env2 = dict(env)
                    for pn in g.params:
                        a = self.arg_for(g, x, pn)
                        if a is not None:
                            env2[(g.qname, pn)] = (f, a, env)
                    out = []
                    for v in rets:
                        out += self.leaves(g, v, depth + 1,
                                           seen + ((g.qname, '$active'),),
                                           env2)
                    return out
        if isinstance(x, ast.Attribute) and isinstance(x.value, ast.Name) \
                and f.cls is not None and f.kind == 'method' and f.params \
                and x.value.id == f.params[0]:
            # object state: every `self.attr = V` of the class
            out, found = [], False
            for g in self.funcs:
                if g.cls is not f.cls or not g.params:
                    continue
                for a in walk_own(g.node):
                    if isinstance(a, ast.Assign) and any(
                            isinstance(t, ast.Attribute) and
                            t.attr == x.attr and
                            isinstance(t.value, ast.Name) and
                            t.value.id == g.params[0] for t in a.targets):
                        found = True
                        out += self.leaves(g, a.value, depth + 1, seen)
            if found:
                return out
        if isinstance(x, ast.Name):
            stores = [n for n in walk_own(f.node) if isinstance(n, ast.Name)
                      and n.id == x.id and isinstance(n.ctx, ast.Store)]
            if x.id in f.params and not stores and (f.qname, x.id) in env:
                g0, a0, env0 = env[(f.qname, x.id)]
                return self.leaves(g0, a0, depth + 1, seen, env0)
            if x.id in f.params and not stores:
                out = []
                for g, call in self.callers(f):
                    a = self.arg_for(f, call, x.id)
                    if a is None or (g.qname, x.id) in seen:
                        return [(f, x)]
                    out += self.leaves(g, a, depth + 1,
                                       seen + ((f.qname, x.id),))
                return out or [(f, x)]
            if stores and x.id not in f.params:
                # every assignment counts (flow-insensitive union)
                vals = []
                for st in stores:
                    a = [a for a in walk_own(f.node)
                         if isinstance(a, ast.Assign) and
                         len(a.targets) == 1 and a.targets[0] is st]
                    if not a:
                        return [(f, x)]
                    vals.append(a[0].value)
                out = []
                for v in vals:
                    out += self.leaves(f, v, depth + 1, seen, env)
                return out
        if isinstance(x, ast.Call) and isinstance(x.func, ast.Name) and \
                x.func.id == 'bytearray' and len(x.args) == 1 and \
                isinstance(x.args[0], ast.Name) and \
                (f.qname, x.args[0].id) in env:
            # bytearray(<size parameter of a helper>): the size this call of
            # the helper was given
            g0, a0, env0 = env[(f.qname, x.args[0].id)]
            ls = self.leaves(g0, a0, depth + 1, seen, env0)
            if len(ls) == 1:
                new = ast.Call(func=x.func, args=[ls[0][1]], keywords=[])
                ast.copy_location(new, x)
                return [(ls[0][0], new)]
        return [(f, x)]

    def enclosing_loops(self, f, node, depth=0):
        """[(function, While)] loops around `node`: in f, else around every
        call of f (followed upwards).  None when some path to the node runs
        through no loop at all."""
        ws = [w for w in walk_own(f.node) if isinstance(w, ast.While)
              and any(x is node for x in ast.walk(w))]
        if ws:
            return [(f, w) for w in ws]
        if depth > 4:
            return None
        cs = self.callers(f)
        if not cs:
            return None
        out = []
        for g, call in cs:
            r = self.enclosing_loops(g, call, depth + 1)
            if r is None:
                return None
            out += r
        return out


def v1(e: Engine, rep: Report):
    m = e.p.modules.get(MOD)
    if m is None:
        rep.error('anchor vanished: module ' + MOD)
        return
    mf = _ModFlow(e, m)
    for f in e.p.functions.values():
        if f.module is not m:
            continue
        calls = [n for n in walk_own(f.node) if isinstance(n, ast.Call) and
                 isinstance(n.func, ast.Attribute) and
                 n.func.attr in ('recv_into', 'recv', 'recvfrom',
                                 'recvmsg', 'makefile', 'recv_bytes') and
                 isinstance(n.func.value, ast.Name) and
                 n.func.value.id in f.params and
                 not (f.cls is not None and f.params and
                      n.func.value.id == f.params[0] and
                      f.kind in ('method', 'classmethod') and
                      e.p.lookup_method(f.cls.qname, n.func.attr)
                      is not None)]
        if not calls:
            continue
        rep.functions.add(f.qname)
        for c in calls:
            rep.evaluations += 1
            if c.func.attr != 'recv_into':
                rep.bad('V1', f.qname, 'socket read `%s`' % ast.unparse(
                    c.func), 'the PROXY parser reads with %s, which has no '
                    'destination buffer bound: it can consume payload '
                    'bytes behind the header' % c.func.attr, loc=f.loc(c))
                continue
            ok_count = len(c.args) >= 2
            # destination: a view of a buffer allocated with the protocol's
            # size - wherever that allocation is
            dest = c.args[0] if c.args else None
            allocs = []           # (function, size expression)
            ok_size = dest is not None
            for f1, x in (mf.leaves(f, dest) if dest is not None else []):
                src = ast.unparse(x)
                if not (src.startswith('memoryview(') and
                        isinstance(x, ast.Subscript)):
                    ok_size = False
                    continue
                inner = x.value.args[0] if isinstance(x.value, ast.Call) \
                    and x.value.args else None
                for f2, b in mf.leaves(f1, inner):
                    if isinstance(b, ast.Call) and \
                            ast.unparse(b.func) == 'bytearray' and b.args:
                        allocs.append((f2, b.args[0]))
                    else:
                        ok_size = False
            ok_size = ok_size and bool(allocs)
            bufs = set()
            # (a buffer object: the size its constructor was given)
            def ctor_args(f2, b2):
                if f2.name == '__init__' and isinstance(b2, ast.Name) and \
                        b2.id in f2.params:
                    out = [(g2, mf.arg_for(f2, call, b2.id))
                           for g2, call in mf.callers(f2)]
                    if out and all(a is not None for _, a in out):
                        return out
                return [(f2, b2)]
            allocs = [p2 for f2, b2 in allocs for p2 in ctor_args(f2, b2)]
            for f2, bound in allocs:
                want = BUFFER_BOUNDS.get(f2.name)
                if want is not None:
                    bv = bound
                    if isinstance(bv, (ast.Name, ast.Attribute)):
                        # a named constant (module / class level)
                        nm = bv.id if isinstance(bv, ast.Name) else bv.attr
                        cand = m.globals.get(nm)
                        if cand is None and f2.cls is not None:
                            _, cand = e.p.lookup_class_attr(f2.cls.qname, nm)
                        if cand is not None:
                            bv = cand
                    ok_size = ok_size and isinstance(bv, ast.Constant) and \
                        bv.value == want
                else:
                    # v2: the size is the declared / fixed length parameter
                    ok_size = ok_size and isinstance(bound, ast.Name) and \
                        bound.id in f2.params
            # every way to this read runs inside a loop that ends when the
            # buffer (or a constant number of bytes) is full
            loops = mf.enclosing_loops(f, c)

            def bounded(f3, w):
                t = w.test
                if not (isinstance(t, ast.Compare) and len(t.ops) == 1 and
                        isinstance(t.ops[0], ast.Lt)):
                    # a test over object state (`header.space > 0`) is not
                    # read; `while True` / a constant is no bound
                    return None if any(
                        isinstance(y, ast.Attribute)
                        for y in ast.walk(t)) else False
                for f4, b in mf.leaves(f3, t.comparators[0]):
                    if isinstance(b, ast.Constant):
                        continue
                    if isinstance(b, ast.Call) and \
                            ast.unparse(b.func) == 'len' and b.args:
                        # len(<the buffer>)
                        lv = mf.leaves(f4, b.args[0])
                        ok = all(isinstance(bb, ast.Call) and
                                 ast.unparse(bb.func) == 'bytearray'
                                 for _, bb in lv)
                        if ok:
                            continue
                        if any(isinstance(bb, ast.Attribute)
                               for _, bb in lv):
                            return None      # len(<object state>)
                    if isinstance(b, ast.Attribute):
                        return None
                    return False
                return True
            verdicts = [bounded(f3, w) for f3, w in loops or []]
            ok_loop = bool(loops) and all(v is True for v in verdicts)
            if ok_count and ok_size and not ok_loop and loops and \
                    not any(v is False for v in verdicts):
                rep.unknown('V1', f.qname, 'bounded read `%s`' % ' '.join(
                    ast.unparse(c).split()), 'cannot read the bound of the '
                    'loops around this read (they test object state)',
                    loc=f.loc(c))
                continue
            if not (ok_count and ok_size and ok_loop) and f.cls is None:
                # the read sits in a module-level helper shared by the
                # readers: size and loop bound are its callers' business and
                # are not read through its parameters
                rep.unknown('V1', f.qname, 'bounded read `%s`' % ' '.join(
                    ast.unparse(c).split()), 'the read was moved into the '
                    'module-level helper %s: count / buffer / loop bound '
                    '(%s / %s / %s) are decided at its call sites, which '
                    'this rule does not follow through the helper\'s '
                    'parameters' % (f.name, ok_count, ok_size, ok_loop),
                    loc=f.loc(c))
                continue
            cnt = ast.unparse(c.args[1]) if ok_count else ''
            rep.check(ok_count and ok_size and ok_loop, 'V1', f.qname,
                      'bounded read `%s`' % ' '.join(ast.unparse(c).split()),
                      'a read of the PROXY header is not bounded by the '
                      'protocol limit (explicit count: %s; buffer size ok: '
                      '%s; bounded loop: %s): more than 107 / 8 / 16+len '
                      'bytes can be consumed from the connection'
                      % (ok_count, ok_size, ok_loop), loc=f.loc(c),
                      reason='recv_into(view of bytearray(%s), %s) in a '
                      'bounded loop' % (', '.join(sorted(
                          {ast.unparse(b) for _, b in allocs})) or '?', cnt))
    # V1b: the running length advances by what recv_into RETURNED
    for f in e.p.functions.values():
        if f.module is not m:
            continue
        for n in walk_own(f.node):
            if not (isinstance(n, ast.Assign) and
                    isinstance(n.value, ast.Call) and
                    isinstance(n.value.func, ast.Attribute) and
                    n.value.func.attr == 'recv_into' and
                    isinstance(n.targets[0], ast.Name)):
                continue
            rv = n.targets[0].id
            loops = [w for w in walk_own(f.node) if isinstance(w, ast.While)
                     and any(x is n for x in ast.walk(w))]
            scope = loops[-1] if loops else f.node
            used = False
            for x in ast.walk(scope):
                if isinstance(x, ast.Subscript) and \
                        isinstance(x.slice, ast.Slice) and \
                        x.slice.upper is not None and any(
                            isinstance(y, ast.Name) and y.id == rv
                            for y in ast.walk(x.slice.upper)):
                    used = True
                # ... or the position is kept as a number: pos + read_n
                if isinstance(x, (ast.Return, ast.Assign, ast.AugAssign)) \
                        and x is not n and x.value is not None and any(
                            isinstance(y, ast.BinOp) and
                            isinstance(y.op, ast.Add) and any(
                                isinstance(z, ast.Name) and z.id == rv
                                for z in (y.left, y.right))
                            for y in ast.walk(x.value)):
                    used = True
                if isinstance(x, ast.AugAssign) and \
                        isinstance(x.op, ast.Add) and \
                        isinstance(x.value, ast.Name) and x.value.id == rv:
                    used = True
            rep.evaluations += 1
            rep.check(used, 'V1', f.qname,
                      'progress is measured by the value recv_into returned',
                      'the number of bytes recv_into() actually returned '
                      '(`%s`) does not enter the slice that extends the '
                      'data read so far: after a short read, bytes that '
                      'were never received are taken as header bytes / the '
                      'reader runs past the header' % rv, loc=f.loc(n),
                      reason='returned count used in the view slice / '
                      'added to the position')
    # V1c: the declared length is read unmodified
    pctx = e.ctx(V2 + '.process_pp_v2')
    fn2 = pctx.func.node
    reads2 = sorted([n for n in walk_own(fn2) if isinstance(n, ast.Call) and
                     ast.unparse(n.func).endswith('__read_pp_data')],
                    key=lambda n: (n.lineno, n.col_offset))
    if len(reads2) == 2 and len(reads2[1].args) > 1 and \
            isinstance(reads2[1].args[1], ast.Name):
        ln = reads2[1].args[1].id
        defs = [n for n in walk_own(fn2) if isinstance(n, ast.Assign) and any(
            isinstance(x, ast.Name) and x.id == ln
            for t in n.targets for x in ast.walk(t))]
        rep.evaluations += 1
        ok = len(defs) == 1 and isinstance(defs[0].value, ast.Call) and \
            ast.unparse(defs[0].value.func).endswith('__parse_pp_data')
        rep.check(ok, 'V1', pctx.func.qname,
                  'the address block is read with the declared length, '
                  'unmodified', 'the length used for the second read (`%s`) '
                  'is not simply the value parsed from the header (%d '
                  'definitions): fewer / more bytes than declared are '
                  'consumed, so TLVs stay on the socket or payload is eaten'
                  % (ln, len(defs)), loc=pctx.func.loc(reads2[1]),
                  reason='single definition from __parse_pp_data')
    # the v2 header read is exactly 16 bytes, then the declared length
    ctx = e.ctx(V2 + '.process_pp_v2')
    reads = sorted([n for n in walk_own(ctx.func.node)
                    if isinstance(n, ast.Call) and
                    ast.unparse(n.func).endswith('__read_pp_data')],
                   key=lambda n: (n.lineno, n.col_offset))
    rep.evaluations += 1
    lens = [ast.unparse(n.args[1]) if len(n.args) > 1 else '?'
            for n in reads]
    rep.check(len(reads) == 2 and lens[0] == '16' and lens[1] != '16' and
              not lens[1].isdigit(), 'V1', ctx.func.qname,
              'v2 reads 16 bytes, then the declared address length',
              'process_pp_v2 reads %s instead of (16, declared length)'
              % lens, reason='fixed header then addr_len',
              loc=ctx.func.loc())


def v2(e: Engine, rep: Report):
    entries = [(V1, 'process_pp_v1'), (V2, 'process_pp_v2'),
               (AUTO, '__read_pp_initial')]

    def pol(builder, call, target, frame):
        return target.func.module.name == MOD

    def _fixed_by_struct(n: Node) -> bool:
        """the packed-address argument is a name unpacked from
        struct.unpack(<format>, ...): its length is fixed by the format"""
        if len(n.ast.args) < 2 or not isinstance(n.ast.args[1], ast.Name):
            return False
        nm = n.ast.args[1].id
        fn = n.frame.ctx.func.node
        defs = [a for a in walk_own(fn) if isinstance(a, ast.Assign) and any(
            isinstance(x, ast.Name) and x.id == nm
            for t in a.targets for x in ast.walk(t))]
        f = n.frame.ctx.func

        def is_struct(x):
            return isinstance(x, ast.Call) and \
                ast.unparse(x.func).endswith('Struct') and x.args and \
                isinstance(x.args[0], ast.Constant)

        def compiled(x, depth=0):
            """x denotes a struct.Struct compiled from a literal format: a
            class-level layout, or one picked from a class-level table of
            such layouts"""
            if depth > 3:
                return False
            if isinstance(x, ast.Attribute) and \
                    isinstance(x.value, ast.Name) and f.cls is not None:
                _, v = e.p.lookup_class_attr(f.cls.qname, x.attr)
                if v is None:
                    return False
                return is_struct(v) or (
                    isinstance(v, ast.Dict) and v.values and
                    all(is_struct(y) for y in v.values))
            if isinstance(x, ast.Call) and \
                    isinstance(x.func, ast.Attribute) and \
                    x.func.attr == 'get':
                return compiled(x.func.value, depth + 1)
            if isinstance(x, ast.Subscript):
                return compiled(x.value, depth + 1)
            if isinstance(x, ast.Name):
                ds = [a.value for a in walk_own(fn)
                      if isinstance(a, ast.Assign) and any(
                          isinstance(t, ast.Name) and t.id == x.id
                          for t in a.targets)]
                return bool(ds) and all(compiled(d, depth + 1) for d in ds)
            return False

        def tabled_format(name):
            """the local is element i of a class-level tuple, or of the
            entry picked from a class-level table of tuples, and element i
            is a literal format string in every one of them"""
            if f.cls is None:
                return False
            ds = []
            for a in walk_own(fn):
                if isinstance(a, ast.Assign) and len(a.targets) == 1 and \
                        isinstance(a.targets[0], (ast.Tuple, ast.List)):
                    for i, t in enumerate(a.targets[0].elts):
                        if isinstance(t, ast.Name) and t.id == name:
                            ds.append((a.value, i))
                elif isinstance(a, ast.Assign) and any(
                        isinstance(t, ast.Name) and t.id == name
                        for t in a.targets):
                    return False
            if not ds:
                return False

            def fmt_at(tup, i):
                return isinstance(tup, ast.Tuple) and i < len(tup.elts) and \
                    isinstance(tup.elts[i], ast.Constant) and \
                    isinstance(tup.elts[i].value, (str, bytes))
            for v0, i in ds:
                src = v0
                if isinstance(src, ast.Call) and \
                        isinstance(src.func, ast.Attribute) and \
                        src.func.attr == 'get':
                    src = src.func.value
                elif isinstance(src, ast.Subscript):
                    src = src.value
                if not (isinstance(src, ast.Attribute) and
                        isinstance(src.value, ast.Name)):
                    return False
                _, cv = e.p.lookup_class_attr(f.cls.qname, src.attr)
                if cv is None:
                    # name-mangled private attribute
                    for k in (src.attr.lstrip('_'), '__' + src.attr.split(
                            '__')[-1]):
                        _, cv = e.p.lookup_class_attr(f.cls.qname, k)
                        if cv is not None:
                            break
                if isinstance(cv, ast.Tuple):
                    if not fmt_at(cv, i):
                        return False
                elif isinstance(cv, ast.Dict) and cv.values:
                    if not all(fmt_at(y, i) for y in cv.values):
                        return False
                else:
                    return False
            return True

        def by_format(v):
            if isinstance(v, ast.Call) and not (
                    isinstance(v.func, ast.Attribute) and
                    v.func.attr == 'unpack'):
                # a helper of the module that returns <layout>.unpack(...)
                # for the layout it is given
                try:
                    r = e.r.resolve_call(v, n.frame.ctx)
                except Exception:
                    return False
                if len(r.targets) != 1:
                    return False
                t = r.targets[0].func
                rets = [x for x in walk_own(t.node)
                        if isinstance(x, ast.Return)]
                if len(rets) != 1 or not (
                        isinstance(rets[0].value, ast.Call) and
                        isinstance(rets[0].value.func, ast.Attribute) and
                        rets[0].value.func.attr == 'unpack' and
                        isinstance(rets[0].value.func.value, ast.Name) and
                        rets[0].value.func.value.id in t.params):
                    return False
                own = t.params[1:] if t.kind in ('method', 'classmethod') \
                    else list(t.params)
                pn = rets[0].value.func.value.id
                if pn not in own or own.index(pn) >= len(v.args) or any(
                        isinstance(y, ast.Name) and y.id == pn and
                        isinstance(y.ctx, ast.Store)
                        for y in ast.walk(t.node)):
                    return False
                return compiled(v.args[own.index(pn)])
            if not (isinstance(v, ast.Call) and
                    isinstance(v.func, ast.Attribute) and
                    v.func.attr == 'unpack'):
                return False
            if v.args and isinstance(v.args[0], ast.Constant) and \
                    isinstance(v.args[0].value, (str, bytes)):
                return True          # struct.unpack('<fmt>', ...)
            if v.args and isinstance(v.args[0], ast.Name) and \
                    tabled_format(v.args[0].id):
                return True          # struct.unpack(<fmt from a table>, ..)
            return compiled(v.func.value)
        return bool(defs) and all(by_format(a.value) for a in defs)

    def _from_pton(n: Node) -> bool:
        """the packed address is what inet_pton produced for the same
        address family: it has that family's length"""
        if len(n.ast.args) < 2 or not isinstance(n.ast.args[1], ast.Name):
            return False
        nm = n.ast.args[1].id
        fam = ast.unparse(n.ast.args[0])
        fn = n.frame.ctx.func.node
        defs = [a for a in walk_own(fn) if isinstance(a, ast.Assign) and any(
            isinstance(x, ast.Name) and x.id == nm
            for t in a.targets for x in ast.walk(t))]
        fam_stores = [x for x in walk_own(fn) if isinstance(x, ast.Name) and
                      x.id == fam and isinstance(x.ctx, ast.Store)]
        return bool(defs) and not fam_stores and all(
            isinstance(a.value, ast.Call) and len(a.targets) == 1 and
            isinstance(a.targets[0], ast.Name) and
            ast.unparse(a.value.func).endswith('inet_pton') and
            a.value.args and ast.unparse(a.value.args[0]) == fam
            for a in defs)

    def raises(builder, n: Node, res):
        if res is None or res.targets:
            return set()
        nm = e.call_name(n)
        if nm == 'inet_ntop' and (_fixed_by_struct(n) or _from_pton(n)):
            return set()
        return set(DECODER_RAISES.get(nm, []))
    for cq, meth in entries:
        ctx = e.method_ctx(cq, meth)
        g = e.build(ctx, inline=pol, raises=raises, max_depth=5)
        where = ctx.func.qname
        for fr in {n.frame for n in g.nodes}:
            rep.functions.add(fr.ctx.func.qname)
        reach = dataflow.reachable(g)
        escaping: Dict[str, Node] = {}
        for n in g.nodes:
            if n.id not in reach:
                continue
            for l, s in n.succ:
                if s is g.raise_exit and isinstance(l, tuple):
                    escaping.setdefault(l[1], n)
        rep.evaluations += max(1, len(escaping))
        bad = {t: n for t, n in escaping.items() if t not in ALLOWED}
        if not bad:
            rep.ok('V2', where, 'exception classes leaving the parser',
                   reason='escaping: %s' % (sorted(escaping) or 'none'),
                   loc=ctx.func.loc())
        for t, n in sorted(bad.items()):
            pth = dataflow.find_path(g, g.entry, lambda x: x is n)
            rep.bad('V2', where, 'exception class %s leaves the parser'
                    % t.rpartition('.')[2],
                    'a malformed header makes `%s` raise %s, which no arm '
                    'turns into AssertionError: it escapes handle() '
                    'instead of proceeding with the invalid source address'
                    % (n.text(50), t), loc=n.loc(),
                    witness=dataflow.render_path(pth) if pth else None)


def v3(e: Engine, rep: Report):
    for cq in (V1, V2, AUTO):
        ctx = e.method_ctx(cq, 'handle')

        def is_parser(nm):
            return 'pp' in (nm or '')

        def pol(builder, call, target, frame):
            # helpers of the module the error mapping was moved into; the
            # parsers themselves are the raising events
            # (a helper that has the arms itself is one, whatever its name)
            return target.func.module.name == MOD and \
                (not is_parser(target.func.name) or any(
                    isinstance(x, ast.Try) and x.handlers
                    for x in walk_own(target.func.node))) and \
                target.func.name != 'handle'

        def raises(b, n, r):
            if n.kind != 'call':
                return set()
            nm = e.call_name(n)
            callee_is_param = isinstance(n.ast.func, ast.Name) and \
                n.ast.func.id in n.frame.ctx.func.params
            if is_parser(nm) or (callee_is_param and (
                    r is None or not r.targets)):
                return {'builtins.AssertionError', LOCAL}
            return set()
        g = e.build(ctx, raises=raises, inline=pol, max_depth=4)
        where = ctx.func.qname
        rep.functions.add(where)
        wrapped = [n for n in g.nodes if n.kind == 'call' and
                   e.call_name(n) == 'handle']
        if not wrapped:
            rep.error('anchor vanished: wrapped handle() call in ' + where)
            continue
        from . import common
        nul = common.Nullness(g, e)

        def reaches_wrapped(h):
            """path from the handler to the wrapped handle() call that the
            values handed back through helpers do not rule out"""
            def step(n, label, st):
                if isinstance(label, tuple):
                    return None
                r = nul.step(n, label, st)
                return None if r == 'infeasible' else r
            return dataflow.typestate_witness(
                g, frozenset(), step, lambda x, st: x in wrapped, start=h)
        for h in g.of_kind('handler'):
            ts = h.extra.get('types', [])
            rep.evaluations += 1
            if 'builtins.AssertionError' in ts:
                # still reaches the wrapped handler, with the invalid address
                pth = reaches_wrapped(h)
                sets_invalid = any(
                    m.kind == 'stmt' and
                    isinstance(m.ast, (ast.Assign, ast.Return)) and
                    m.ast.value is not None and
                    'invalid_pp_source_address' in ast.unparse(m.ast.value)
                    for m in g.nodes if any(
                        sc.kind == 'handler' and sc.ast is h.ast
                        for sc in m.scopes))
                rep.check(pth is not None and sets_invalid, 'V3', where,
                          'malformed header => invalid source address, '
                          'connection proceeds',
                          'the AssertionError arm does not continue to the '
                          'wrapped handler with invalid_pp_source_address',
                          loc=h.loc(), reason='assigns the invalid address '
                          'and falls through to the wrapped handle()')
            elif LOCAL in ts:
                pth = reaches_wrapped(h)
                rep.check(pth is None, 'V3', where,
                          'LOCAL command => connection dropped',
                          'after a LOCAL command the wrapped handler is '
                          'still invoked', loc=h.loc(),
                          reason='returns without calling the wrapped '
                          'handle()')
        arms = set()
        for h in g.of_kind('handler'):
            arms |= set(h.extra.get('types', []))
        need = {'builtins.AssertionError'} | (
            {LOCAL} if cq in (V2, AUTO) else set())
        rep.evaluations += 1
        rep.check(need <= arms, 'V3', where, 'failure arms present',
                  'handle() lacks the %s arm(s): that failure escapes'
                  % sorted(need - arms), reason='arms %s' % sorted(need),
                  loc=ctx.func.loc())
        # the address handed on is the parsed source address
        for w in wrapped:
            a = [ast.unparse(x) for x in w.ast.args]
            rep.check(len(a) == 2 and a[0] == ctx.func.params[1] and
                      a[1] == 'src_addr', 'V3', where,
                      'wrapped handler gets (sock, parsed source address)',
                      'the wrapped handler is called with %s' % a,
                      loc=w.loc(), reason='handle(sock, src_addr)')
            v11(e, rep, g, w, ctx, where)
    # signature constants
    m = e.p.modules.get(MOD)

    def bytes_const(x, f):
        """the bytes literal x denotes: a literal, a module-level name or a
        class-level attribute (cls.X / self.X)"""
        if isinstance(x, ast.Constant):
            return x.value if isinstance(x.value, bytes) else None
        v = None
        if isinstance(x, ast.Name) and m is not None:
            v = m.globals.get(x.id)
        elif isinstance(x, ast.Attribute) and isinstance(x.value, ast.Name) \
                and f.cls is not None:
            _, v = e.p.lookup_class_attr(f.cls.qname, x.attr)
        if isinstance(v, ast.Constant) and isinstance(v.value, bytes):
            return v.value
        return None
    sig12 = None
    pctx = e.method_ctx(V2, '__parse_pp_data')
    for n in walk_own(pctx.func.node):
        if isinstance(n, ast.Compare) and len(n.ops) == 1 and \
                isinstance(n.ops[0], (ast.Eq, ast.NotEq)):
            for side in (n.left, n.comparators[0]):
                v = bytes_const(side, pctx.func)
                if v is not None and len(v) == 12:
                    sig12 = v
    hctx = e.method_ctx(AUTO, 'handle')
    pre8, v1pre = None, None
    # handle() and the helpers of the class the detection may live in
    ac = e.p.classes.get(AUTO)
    for hf in ([hctx.func] + [f2 for f2 in (ac.methods.values() if ac else [])
                              if f2 is not hctx.func]):
        for n in walk_own(hf.node):
            if isinstance(n, ast.Compare) and len(n.ops) == 1 and \
                    isinstance(n.ops[0], ast.Eq):
                for side in (n.left, n.comparators[0]):
                    v = bytes_const(side, hf)
                    if v is not None and pre8 is None:
                        pre8 = v
            if isinstance(n, ast.Call) and \
                    isinstance(n.func, ast.Attribute) and \
                    n.func.attr == 'startswith' and n.args:
                v = bytes_const(n.args[0], hf)
                if v is not None and v1pre is None:
                    v1pre = v
    if sig12 is None or pre8 is None or v1pre is None:
        rep.error('cannot read the version detection constants (v2 '
                  'signature %r, v2 prefix %r, v1 prefix %r)'
                  % (sig12, pre8, v1pre))
        return
    rep.evaluations += 1
    rep.check(sig12 is not None and pre8 is not None and
              len(pre8) == 8 and sig12.startswith(pre8) and
              v1pre is not None and len(v1pre) <= 8, 'V3',
              hctx.func.qname, 'version detection constants agree',
              'the 8 bytes tested for v2 (%r) are not a prefix of the '
              'signature the v2 parser asserts (%r), or the v1 prefix %r '
              'does not fit the 8 initial bytes' % (pre8, sig12, v1pre),
              reason='8-byte prefix of the 12-byte signature',
              loc=hctx.func.loc())


def v4(e: Engine, rep: Report):
    m = e.p.modules.get(MOD)
    strict = 0
    for f in e.p.functions.values():
        if f.module is not m:
            continue
        for n in walk_own(f.node):
            if not (isinstance(n, ast.Call) and
                    isinstance(n.func, (ast.Attribute, ast.Name))):
                continue
            nm = n.func.attr if isinstance(n.func, ast.Attribute) \
                else n.func.id
            if nm == 'inet_pton':
                strict += 1
            if nm in LENIENT_PARSERS:
                rep.evaluations += 1
                rep.bad('V4', f.qname, 'address text parsed with ' + nm,
                        '%s %s: a malformed address field of a PROXY header '
                        '(127.1, 0x7f.0.0.1, "10.0.0.1 junk") is accepted '
                        'and rewritten into a valid-looking source address '
                        'instead of yielding the invalid address'
                        % (nm, LENIENT_PARSERS[nm] or 'is lenient'),
                        loc=f.loc(n))
    rep.evaluations += 1
    if strict < 1:
        rep.error('anchor vanished: inet_pton in ' + MOD)
    else:
        rep.ok('V4', MOD, 'strict address parser in use',
               reason='%d inet_pton site(s), no lenient parser' % strict)


def v5(e: Engine, rep: Report):
    """The addresses a parser returns are the fields of the header: every
    element of a returned address comes from a field cut out by a struct
    format (or from inet_pton's validation of the text) through nothing but
    the canonical presentation (inet_ntop) and the removal of trailing NUL
    padding - no operation that can drop or change bytes inside the field."""
    ctx = e.method_ctx(V2, '__parse_pp_addresses')
    f = ctx.func
    fn = f.node
    where = f.qname
    rep.functions.add(where)
    m = e.p.modules.get(MOD)
    unpacked = set()
    def unpacks(v):
        if not (isinstance(v, ast.Call) and
                isinstance(v.func, ast.Attribute)):
            return False
        if v.func.attr == 'unpack':
            return True
        # a helper of the class whose one return is <layout>.unpack(...)
        if isinstance(v.func.value, ast.Name) and \
                v.func.value.id in ('cls', 'self') and f.cls is not None:
            tgt = e.p.lookup_method(f.cls.qname, v.func.attr)
            if tgt is not None:
                rets = [r for r in walk_own(tgt.node)
                        if isinstance(r, ast.Return)]
                return len(rets) == 1 and \
                    isinstance(rets[0].value, ast.Call) and \
                    isinstance(rets[0].value.func, ast.Attribute) and \
                    rets[0].value.func.attr == 'unpack'
        return False
    for a in walk_own(fn):
        if isinstance(a, ast.Assign) and unpacks(a.value):
            for t in a.targets:
                for x in ast.walk(t):
                    if isinstance(x, ast.Name):
                        unpacked.add(x.id)

    def verdict(x, fnode, names, depth=0):
        """None = fine; str = what is wrong; 'UNKNOWN:<why>' = cannot read"""
        if depth > 6:
            return 'UNKNOWN:nesting'
        if isinstance(x, ast.Tuple):
            for el in x.elts:
                v = verdict(el, fnode, names, depth + 1)
                if v:
                    return v
            return None
        if isinstance(x, ast.Constant):
            return None
        if isinstance(x, ast.Name):
            if x.id in names:
                return None
            if m is not None and x.id in m.globals:
                return None
            defs = [a.value for a in walk_own(fnode)
                    if isinstance(a, ast.Assign) and any(
                        isinstance(t, ast.Name) and t.id == x.id
                        for t in a.targets)]
            if not defs:
                return 'UNKNOWN:`%s` has no definition here' % x.id
            for d in defs:
                v = verdict(d, fnode, names, depth + 1)
                if v:
                    return v
            return None
        if isinstance(x, ast.Call):
            fx = x.func
            nm = fx.attr if isinstance(fx, ast.Attribute) else (
                fx.id if isinstance(fx, ast.Name) else None)
            if nm == 'inet_ntop' and len(x.args) == 2:
                return verdict(x.args[1], fnode, names, depth + 1)
            if nm == 'rstrip' and isinstance(fx, ast.Attribute) and \
                    len(x.args) == 1 and \
                    isinstance(x.args[0], ast.Constant) and \
                    x.args[0].value == b'\x00':
                return verdict(fx.value, fnode, names, depth + 1)
            if nm in ('bytes', 'str') and len(x.args) == 1:
                return verdict(x.args[0], fnode, names, depth + 1)
            # a helper of the class with one return: its body decides
            tgt = None
            if isinstance(fx, ast.Attribute) and \
                    isinstance(fx.value, ast.Name) and \
                    fx.value.id in ('cls', 'self') and f.cls is not None:
                tgt = e.p.lookup_method(f.cls.qname, fx.attr)
            elif isinstance(fx, ast.Name) and m is not None:
                tgt = e.p.functions.get(MOD + '.' + fx.id)
            if tgt is not None:
                rets = [r for r in walk_own(tgt.node)
                        if isinstance(r, ast.Return)]
                prm = [p for p in tgt.params if p not in ('cls', 'self')]
                if len(rets) == 1 and rets[0].value is not None and \
                        len(prm) == len(x.args):
                    for a0 in x.args:
                        v = verdict(a0, fnode, names, depth + 1)
                        if v:
                            return v
                    return verdict(rets[0].value, tgt.node, set(prm),
                                   depth + 1)
                return 'UNKNOWN:helper `%s`' % tgt.name
            return 'passes the field through `%s`' % ' '.join(
                ast.unparse(x).split())[:60]
        if isinstance(x, ast.Subscript):
            return 'takes `%s` of the field' % ' '.join(
                ast.unparse(x).split())[:60]
        if isinstance(x, ast.IfExp):
            return verdict(x.body, fnode, names, depth + 1) or \
                verdict(x.orelse, fnode, names, depth + 1)
        return 'UNKNOWN:`%s`' % ' '.join(ast.unparse(x).split())[:60]
    nret = 0
    for r in walk_own(fn):
        if not isinstance(r, ast.Return) or r.value is None:
            continue
        nret += 1
        rep.evaluations += 1
        v = verdict(r.value, fn, unpacked)
        if v and v.startswith('UNKNOWN:'):
            rep.error('cannot read the provenance of the addresses returned '
                      'at %s: %s' % (f.loc(r), v[8:]))
            continue
        rep.check(v is None, 'V5', where,
                  'returned addresses are the header fields: `%s`'
                  % ' '.join(ast.unparse(r.value).split())[:60],
                  'an address handed on %s: bytes inside the encoded field '
                  'can be dropped or changed, the parser does not return '
                  'exactly the encoded address' % (v or ''), loc=f.loc(r),
                  reason='struct fields through inet_ntop / trailing-NUL '
                  'removal only')
    if nret < 3:
        rep.error('anchor vanished: returns of __parse_pp_addresses '
                  '(%d < 3)' % nret)


# ---------------------------------------------------------------------- V6
FALSY_SOCKET_CONSTANTS = {'AF_UNSPEC'}


def v6(e: Engine, rep: Report):
    n = 0
    for cq, c in sorted(e.p.classes.items()):
        if c.module.name != MOD:
            continue
        # class-level tables: name -> list of value expressions
        tables = {}
        for st in c.node.body:
            if isinstance(st, ast.Assign) and isinstance(st.value, ast.Dict):
                for t in st.targets:
                    if isinstance(t, ast.Name):
                        tables[t.id] = st.value.values
        for mname, m in sorted(c.methods.items()):
            looked = {}
            for a in walk_own(m.node):
                if isinstance(a, ast.Assign) and len(a.targets) == 1 and \
                        isinstance(a.targets[0], ast.Name) and \
                        isinstance(a.value, ast.Call) and \
                        isinstance(a.value.func, ast.Attribute) and \
                        a.value.func.attr == 'get' and \
                        isinstance(a.value.func.value, ast.Attribute):
                    tn = a.value.func.value.attr
                    # name mangling: cls.__families is _Class__families
                    for k in tables:
                        if tn == k or tn.endswith(k):
                            looked[a.targets[0].id] = k
            if not looked:
                continue
            rep.functions.add(m.qname)

            def truthy_uses(t, out):
                if isinstance(t, ast.BoolOp):
                    for v in t.values:
                        truthy_uses(v, out)
                elif isinstance(t, ast.UnaryOp) and isinstance(t.op,
                                                               ast.Not):
                    truthy_uses(t.operand, out)
                elif isinstance(t, ast.Name) and t.id in looked:
                    out.append(t)
            for x in walk_own(m.node):
                test = x.test if isinstance(x, (ast.If, ast.While, ast.IfExp,
                                                ast.Assert)) else None
                if test is None:
                    continue
                uses = []
                truthy_uses(test, uses)
                for u in uses:
                    n += 1
                    rep.evaluations += 1
                    tb = looked[u.id]
                    falsy = [v for v in tables[tb] if (
                        isinstance(v, ast.Constant) and not v.value) or (
                        isinstance(v, ast.Attribute) and
                        v.attr in FALSY_SOCKET_CONSTANTS)]
                    rep.check(not falsy, 'V6', m.qname,
                              '`%s` tested by truthiness' % u.id,
                              '`%s` comes from the table %s, whose entry '
                              '`%s` is falsy: a header that names it - a '
                              'legal one - is treated like an unknown value '
                              'and refused as malformed' % (
                                  u.id, tb.lstrip('_'),
                                  ast.unparse(falsy[0]) if falsy else ''),
                              loc=m.loc(x), reason='no entry of the table '
                              'is falsy')
    rep.evaluations += 1
    rep.ok('V6', MOD, 'table look-ups tested by truthiness: %d' % n,
           reason='each judged against its table', nontrivial=False)


# ---------------------------------------------------------------------- V7
def v7(e: Engine, rep: Report):
    LOGMOD = 'slimta.logging.socket'
    mod = e.p.modules.get(LOGMOD)
    if mod is None:
        rep.error('anchor vanished: ' + LOGMOD)
        return
    n = 0

    def parents(fn):
        par = {}
        for x in ast.walk(fn):
            for ch in ast.iter_child_nodes(x):
                par[ch] = x
        return par

    def misuse(fn, pname, depth=0):
        """first use of the parameter that depends on its shape, or None"""
        if any(isinstance(x, ast.Call) and isinstance(x.func, ast.Name) and
               x.func.id == 'isinstance' and x.args and
               isinstance(x.args[0], ast.Name) and x.args[0].id == pname
               for x in ast.walk(fn.node)):
            return None
        par = parents(fn.node)
        # names taken out of the parameter stand for (parts of) it
        names = {pname}
        for _ in range(3):
            for a in walk_own(fn.node):
                if isinstance(a, ast.Assign) and any(
                        isinstance(y, ast.Name) and y.id in names
                        for y in ast.walk(a.value)):
                    for t in a.targets:
                        for y in ast.walk(t):
                            if isinstance(y, ast.Name):
                                names.add(y.id)

        def guarded(x):
            """inside a try body whose handlers take a TypeError"""
            y = x
            while y in par:
                up = par[y]
                if isinstance(up, ast.Try) and y in up.body and any(
                        h.type is None or any(
                            isinstance(z, ast.Name) and z.id in (
                                'TypeError', 'Exception', 'BaseException')
                            for z in ast.walk(h.type))
                        for h in up.handlers):
                    return True
                y = up
            return False
        for x in walk_own(fn.node):
            if not (isinstance(x, ast.Name) and x.id in names and
                    isinstance(x.ctx, ast.Load)) or guarded(x):
                continue
            up = par.get(x)
            if isinstance(up, (ast.Subscript, ast.Attribute)) and \
                    up.value is x:
                return up, fn
            if isinstance(up, ast.Starred):
                return up, fn
            if isinstance(up, (ast.For, ast.comprehension)) and \
                    up.iter is x:
                return up if isinstance(up, ast.For) else x, fn
            if isinstance(up, ast.Compare) and x in up.comparators and any(
                    isinstance(o, (ast.In, ast.NotIn)) for o in up.ops):
                return up, fn
            if isinstance(up, ast.Assign) and up.value is x and any(
                    isinstance(t, (ast.Tuple, ast.List))
                    for t in up.targets):
                return up, fn
            if isinstance(up, ast.Call) and depth < 2 and (
                    x in up.args):
                # handed to a helper of the same class / module
                nm = up.func.attr if isinstance(up.func, ast.Attribute) \
                    else (up.func.id if isinstance(up.func, ast.Name)
                          else None)
                for f2 in e.p.functions.values():
                    if f2.module.name == LOGMOD and f2.name == nm and \
                            f2 is not fn:
                        ps = [q for q in f2.params if q not in ('self',
                                                                'cls')]
                        i = up.args.index(x)
                        if i < len(ps):
                            r = misuse(f2, ps[i], depth + 1)
                            if r:
                                return r
        return None
    for f in e.p.functions.values():
        if f.module.name != LOGMOD or not f.name.startswith('proxyproto_'):
            continue
        rep.functions.add(f.qname)
        for pname in f.params[2:]:
            n += 1
            rep.evaluations += 1
            r = misuse(f, pname)
            rep.check(r is None, 'V7', f.qname,
                      '`%s` is logged as it is' % pname,
                      'the log call takes `%s` apart (`%s` in %s) without '
                      'looking at its type: a PROXY v2 AF_UNIX source is a '
                      'bytes path, an unknown one None, so this raises '
                      'inside handle() after the header was parsed - the '
                      'connection never reaches the wrapped handler' % (
                          pname, ' '.join(ast.unparse(r[0]).split())[:40]
                          if r else '', r[1].name if r else ''),
                      loc=f.loc(r[0]) if r and r[1] is f else f.loc(),
                      reason='passed on whole')
    if n < 2:
        rep.error('anchor vanished: proxyproto_* log functions (%d < 2)' % n)


# ---------------------------------------------------------------------- V8
def v8(e: Engine, rep: Report):
    import re as _re
    m = e.p.modules.get(MOD)
    n = 0
    fmts = []           # (format text, line)
    looks = _re.compile(r'^[@=<>!]?(\d*[xcbB?hHiIlLqQnNefdspP])+$')
    seen = set()
    for x in ast.walk(m.tree):
        if isinstance(x, ast.Call):
            fn = ast.unparse(x.func)
            if (fn.endswith('Struct') or fn.endswith('unpack') or
                    fn.endswith('unpack_from') or fn.endswith('pack') or
                    fn.endswith('calcsize')) and x.args and \
                    isinstance(x.args[0], ast.Constant) and \
                    isinstance(x.args[0].value, (str, bytes)):
                fmts.append((x.args[0].value, x.lineno))
                seen.add(id(x.args[0]))
    # formats kept in class-level tables / constants
    for cq, c in e.p.classes.items():
        if c.module is not m:
            continue
        for st in c.node.body:
            if not isinstance(st, ast.Assign):
                continue
            for y in ast.walk(st.value):
                if isinstance(y, ast.Constant) and id(y) not in seen and \
                        isinstance(y.value, str) and len(y.value) >= 2 and \
                        looks.match(y.value) and any(
                            ch.isdigit() or ch in 'HhIiLlQq'
                            for ch in y.value):
                    fmts.append((y.value, y.lineno))
    for fmt, line in fmts:
        fmt = fmt.decode() if isinstance(fmt, bytes) else fmt
        n += 1
        rep.evaluations += 1
        multi = any(ch in 'HhIiLlQqfd' for ch in fmt)
        rep.check(not multi or fmt[:1] in '!>', 'V8', MOD,
                  'struct format %r is in network byte order' % fmt,
                  'the format %r has a multi-byte number but no byte-order '
                  'mark: on a little-endian host the declared length is '
                  'read byte-swapped (12 becomes 3072), the parser reads '
                  'through the payload and well-formed headers end in the '
                  'invalid address' % fmt,
                  loc='%s:%d' % (m.relpath, line),
                  reason='starts with `!`' if multi else 'single bytes only')
    if n < 3:
        rep.error('anchor vanished: struct formats of %s (%d < 3)' % (MOD, n))


# ---------------------------------------------------------------------- V9
def v9(e: Engine, rep: Report):
    from . import common
    ctx = e.method_ctx(V1, 'parse_pp_line')
    g = e.build(ctx, raises=lambda b, n, r: set(),
                inline=e.inline_same_self(), max_depth=3)
    fx = e.facts(g)
    where = ctx.func.qname
    rep.functions.add(where)
    lp = ctx.func.params[-1]
    n = 0
    for st in g.of_kind('stmt'):
        if not isinstance(st.ast, ast.Assign):
            continue
        for x in ast.walk(st.ast.value):
            if not (isinstance(x, ast.Subscript) and
                    isinstance(x.slice, ast.Slice) and
                    isinstance(x.value, ast.Name) and
                    isinstance(x.slice.lower, ast.Constant) and
                    x.slice.lower.value == 6):
                continue
            base, bfr = common.origin(g, x.value, st.frame,
                                      follow_locals=False)
            if not (isinstance(base, ast.Name) and base.id == lp and
                    bfr is g.entry.frame) and x.value.id != lp:
                continue
            n += 1
            rep.evaluations += 1
            atoms = fx.at(st) or frozenset()
            has_pre = any(p and '.startswith(' in k and 'PROXY ' in k
                          for p, k in atoms)
            has_end = any(p and '.endswith(' in k and '\\r\\n' in k
                          for p, k in atoms)
            rep.check(has_pre and has_end, 'V9', where,
                      '`%s` only for a framed line' % st.text(40),
                      'parse_pp_line cuts the first six bytes and the last '
                      'two off the line without both %s having been '
                      'established: a line whose signature is not `PROXY ` '
                      '(but that ends in CRLF) is parsed as if it were - '
                      'the address of a corrupted header is accepted and '
                      'handed to the application' % ' and '.join(
                          [w for w, ok in (('startswith(b"PROXY ")', has_pre),
                                           ('endswith(CRLF)', has_end))
                           if not ok] or ['tests']), loc=st.loc(),
                      reason='both tests dominate the cut')
    rep.evaluations += 1
    if n == 0:
        rep.ok('V9', where, 'no fixed-offset cut of the line',
               reason='parse_pp_line does not slice the line at [6:...]',
               nontrivial=False)


def v10(e: Engine, rep: Report):
    m = e.p.modules.get(MOD)
    n = 0
    for f in e.p.functions.values():
        if f.module is not m:
            continue
        for c in walk_own(f.node):
            if not (isinstance(c, ast.Call) and
                    isinstance(c.func, ast.Attribute) and
                    c.func.attr in ('split', 'rsplit')):
                continue
            if isinstance(c.func.value, ast.Constant) or (
                    isinstance(c.func.value, ast.Name) and
                    c.func.value.id in ('re', 'os', 'shlex')) or (
                    isinstance(c.func.value, ast.Attribute) and
                    c.func.value.attr == 'path'):
                continue
            if any(isinstance(y, ast.Call) and
                   isinstance(y.func, ast.Attribute) and
                   y.func.attr in ('match', 'fullmatch')
                   for y in walk_own(f.node)):
                continue       # the text was put to a pattern first
            n += 1
            rep.evaluations += 1
            rep.functions.add(f.qname)
            sep = c.args[0] if c.args else next(
                (k.value for k in c.keywords if k.arg == 'sep'), None)
            bad = sep is None or (isinstance(sep, ast.Constant) and
                                  sep.value is None)
            rep.check(not bad, 'V10', f.qname,
                      '`%s` names its separator'
                      % ' '.join(ast.unparse(c).split())[:50],
                      '`%s` splits header text on any run of white space '
                      '(TAB, VT, FF, CR, LF as well as SP) and drops empty '
                      'fields: a header whose separators are corrupted is '
                      'accepted with the address in it instead of '
                      'proceeding with the invalid source address, and a '
                      'line without fields gives an empty list - the '
                      'IndexError of its [0] is not an AssertionError and '
                      'leaves handle()'
                      % ' '.join(ast.unparse(c).split())[:50],
                      loc=f.loc(c), reason='explicit separator argument')
    rep.evaluations += 1
    if n == 0:
        rep.ok('V10', MOD, 'no split() in the module',
               reason='the module does not take text apart with split',
               nontrivial=False)


def v11(e: Engine, rep: Report, g, w, ctx, where):
    from . import common
    if len(w.ast.args) != 2 or not isinstance(w.ast.args[1], ast.Name):
        return
    nm = w.ast.args[1].id
    if w.frame is not g.entry.frame:
        return
    pth = path_of(w.ast.args[1], w.frame)
    own = set(ctx.func.params)
    defs = common.reaching_defs(g, w, pth)
    rep.ok('V11', where, '%d assignment(s) of `%s` reach the wrapped call'
           % (len([d for d in defs if d is not None]), nm),
           reason='judged one by one',
           loc=w.loc())
    for d in defs:
        if d is None or not isinstance(d.ast, ast.Assign):
            continue
        if any(isinstance(t, (ast.Tuple, ast.List)) for t in d.ast.targets):
            continue
        v = d.ast.value
        rep.evaluations += 1
        if 'invalid_pp_source_address' in ast.unparse(v):
            continue
        from_self = any(isinstance(x, ast.Name) and x.id == nm and
                        isinstance(x.ctx, ast.Load) for x in ast.walk(v))
        from_conn = isinstance(v, ast.Name) and v.id in own
        rep.check(not (from_self or from_conn), 'V11', where,
                  '`%s` hands the parsed address on' % d.text(50),
                  '`%s` reaches the wrapped handler: the address it gets is '
                  '%s, not what the header encodes - a well-formed UNKNOWN / '
                  'UNSPEC header (and a v2 header with a corrupted family '
                  'byte, which the parser reports the same way) proceeds '
                  'with an address the header does not carry'
                  % (d.text(60), 'computed from the parsed one' if from_self
                     else 'the address of the connection itself'),
                  loc=d.loc(), reason='not derived from `%s` / the peer '
                  'address' % nm)


# ---------------------------------------------------------------------- V12
def v12(e: Engine, rep: Report):
    from .common import _INPLACE
    mod = None
    fns = []
    for f in sorted(e.p.functions.values(), key=lambda f: f.qname):
        if f.module.name == 'slimta.util.proxyproto':
            mod = f.module
            fns.append(f)
    if mod is None or not fns:
        rep.error('anchor vanished: functions of slimta.util.proxyproto')
        return
    shared = {}
    for st in mod.tree.body:
        if isinstance(st, ast.Assign):
            for t in st.targets:
                if isinstance(t, ast.Name):
                    shared[t.id] = 'module'
        elif isinstance(st, ast.ClassDef):
            for b in st.body:
                if isinstance(b, ast.Assign):
                    for t in b.targets:
                        if isinstance(t, ast.Name):
                            shared.setdefault(t.id, 'class')

    def base_name(x):
        """name of the shared object an expression denotes: NAME,
        self.NAME / cls.NAME / Class.NAME (also the mangled spelling)"""
        if isinstance(x, ast.Name):
            return x.id if shared.get(x.id) == 'module' else None
        if isinstance(x, ast.Attribute) and isinstance(x.value, ast.Name):
            a = x.attr
            for k in shared:
                if shared[k] == 'class' and (a == k or a.endswith(k) and
                                             k.startswith('__')):
                    return k
        return None
    hits = 0
    for f in fns:
        rep.functions.add(f.qname)
        rep.evaluations += 1
        local = {a.arg for a in f.node.args.args}
        globs = set()
        for x in walk_own(f.node):
            if isinstance(x, ast.Global):
                globs |= set(x.names)
        for x in walk_own(f.node):
            if isinstance(x, (ast.Assign, ast.AugAssign, ast.AnnAssign)):
                tg = x.targets if isinstance(x, ast.Assign) else [x.target]
                for t in tg:
                    if isinstance(t, ast.Name) and t.id not in globs:
                        local.add(t.id)
        for x in walk_own(f.node):
            hit = None
            if isinstance(x, ast.Call) and \
                    isinstance(x.func, ast.Attribute) and \
                    x.func.attr in _INPLACE:
                b = base_name(x.func.value)
                if b and not (isinstance(x.func.value, ast.Name) and
                              b in local):
                    hit = b
            tg = []
            if isinstance(x, ast.Assign):
                tg = x.targets
            elif isinstance(x, (ast.AugAssign, ast.AnnAssign)):
                tg = [x.target]
            elif isinstance(x, ast.Delete):
                tg = x.targets
            for t in tg:
                b, sub = t, False
                while isinstance(b, ast.Subscript):
                    b, sub = b.value, True
                if isinstance(b, ast.Name) and b.id in globs and \
                        b.id in shared:
                    hit = b.id
                elif sub:
                    nm = base_name(b)
                    if nm and not (isinstance(b, ast.Name) and nm in local):
                        hit = nm
            if not hit:
                continue
            if isinstance(x, ast.Call) and x.func.attr in (
                    'clear', 'pop', 'popitem', 'discard', 'remove',
                    'popleft'):
                continue        # eviction only forgets
            hits += 1
            key = None
            if isinstance(x, ast.Assign) and len(x.targets) == 1 and \
                    isinstance(x.targets[0], ast.Subscript) and \
                    not isinstance(x.targets[0].value, ast.Subscript):
                key = x.targets[0].slice
            if key is None:
                rep.unknown('V12', f.qname, 'in-place change of shared `%s`'
                            % hit, 'state shared by all connections is '
                            'changed while a header is parsed, in a way '
                            'this rule does not read', loc=f.loc(x))
                continue
            knames = {y.id for y in ast.walk(key) if isinstance(y, ast.Name)}
            # a local computed from parameters stands for them
            deps = {}
            for y in walk_own(f.node):
                if isinstance(y, ast.Assign) and len(y.targets) == 1 and \
                        isinstance(y.targets[0], ast.Name):
                    deps.setdefault(y.targets[0].id, set()).update(
                        z.id for z in ast.walk(y.value)
                        if isinstance(z, ast.Name))
            for _ in range(3):
                for k in list(knames):
                    knames |= deps.get(k, set())
            params = [a.arg for a in f.node.args.args
                      if a.arg not in ('self', 'cls')]
            used = {y.id for y in walk_own(f.node)
                    if isinstance(y, ast.Name) and
                    isinstance(y.ctx, ast.Load)}
            missing = [p0 for p0 in params if p0 in used and
                       p0 not in knames]
            rep.check(not missing, 'V12', f.qname,
                      'memo `%s[%s]`' % (hit, ast.unparse(key)[:30]),
                      '`%s` is shared by all connections and filled while a '
                      'header is parsed under the key `%s`, which leaves out '
                      '%s - parameters the function\'s answer depends on: a '
                      'value remembered for a valid header is handed out for '
                      'a malformed one with the same key (the same text '
                      'under the other family token proceeds with a real '
                      'address instead of the invalid one)'
                      % (hit, ast.unparse(key)[:30], ', '.join(missing)),
                      loc=f.loc(x), reason='the key names every parameter '
                      'the function reads')
    if not hits:
        rep.ok('V12', 'slimta.util.proxyproto', 'no function changes module '
               'or class state', reason='%d functions, %d shared names '
               'looked at' % (len(fns), len(shared)))
