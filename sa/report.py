"""Obligations, verdicts, evidence files, known findings, replay files."""
from __future__ import annotations

import hashlib
import json
import os
import sys
import time
from typing import Dict, List, Optional

VERIF = os.path.dirname(os.path.dirname(os.path.abspath(__file__)))

DISCHARGED, VIOLATED, EXEMPT, UNKNOWN = 'DISCHARGED', 'VIOLATED', 'EXEMPT', \
    'UNKNOWN'


def norm_text(s: str) -> str:
    return ' '.join(str(s).split())


class Obligation:
    __slots__ = ('rule', 'where', 'text', 'ordinal', 'status', 'what',
                 'loc', 'witness', 'nontrivial', 'reason')

    def __init__(self, rule, where, text, status, what='', loc='',
                 witness=None, nontrivial=True, reason='', ordinal=0):
        self.rule = rule
        self.where = where              # qualified function / class
        self.text = norm_text(text)     # normalised construct text
        self.ordinal = ordinal
        self.status = status
        self.what = what                # what fails / what was shown
        self.loc = loc                  # file:line (informational only)
        self.witness = witness or []
        self.nontrivial = nontrivial
        self.reason = reason            # rule applied / exemption reason

    @property
    def key(self) -> str:
        k = '%s|%s|%s' % (self.rule, self.where, self.text)
        if self.ordinal:
            k += '|%d' % self.ordinal
        return k

    def as_dict(self) -> dict:
        d = {'key': self.key, 'status': self.status, 'loc': self.loc}
        if self.what:
            d['what'] = self.what
        if self.reason:
            d['reason'] = self.reason
        if self.witness:
            d['witness'] = self.witness
        return d


def load_known() -> dict:
    path = os.path.join(VERIF, 'known_findings.json')
    if not os.path.exists(path):
        return {'findings': [], 'fixed': []}
    with open(path) as f:
        return json.load(f)


class Report:
    def __init__(self, prop: str, tier: str, repo: str, argv=None):
        self.prop = prop
        self.tier = tier
        self.repo = repo
        self.obls: List[Obligation] = []
        self.t0 = time.time()
        self.evaluations = 0          # paths / chains / sites examined
        self.functions: set = set()
        self.rules: Dict[str, str] = {}
        self.tables: set = set()
        self.notes: List[str] = []
        self.assumptions: List[str] = []
        self.not_decided: List[str] = []
        self.errors: List[str] = []
        self.extra: dict = {}
        self._ord: Dict[str, int] = {}
        self.argv = argv or sys.argv

    # ------------------------------------------------------------ recording
    def rule(self, rid: str, text: str):
        self.rules[rid] = text

    def add(self, rule, where, text, status, what='', loc='', witness=None,
            nontrivial=True, reason='') -> Obligation:
        base = '%s|%s|%s' % (rule, where, norm_text(text))
        n = self._ord.get(base, 0)
        self._ord[base] = n + 1
        o = Obligation(rule, where, text, status, what, loc, witness,
                       nontrivial, reason, ordinal=n)
        self.obls.append(o)
        return o

    def ok(self, rule, where, text, reason='', loc='', nontrivial=True):
        return self.add(rule, where, text, DISCHARGED, reason=reason,
                        loc=loc, nontrivial=nontrivial)

    def bad(self, rule, where, text, what, loc='', witness=None):
        return self.add(rule, where, text, VIOLATED, what=what, loc=loc,
                        witness=witness)

    def exempt(self, rule, where, text, reason, loc=''):
        return self.add(rule, where, text, EXEMPT, reason=reason, loc=loc)

    def unknown(self, rule, where, text, what, loc=''):
        return self.add(rule, where, text, UNKNOWN, what=what, loc=loc)

    def check(self, cond: bool, rule, where, text, what, reason='', loc='',
              witness=None):
        if cond:
            return self.ok(rule, where, text, reason=reason, loc=loc)
        return self.bad(rule, where, text, what, loc=loc, witness=witness)

    def error(self, msg: str):
        self.errors.append(msg)

    def floor(self, rule: str, minimum: int, what: str):
        """Instance floor: a rule that matches fewer sites than were confirmed
        by hand is an analysis error, never a silent pass."""
        n = sum(1 for o in self.obls if o.rule == rule)
        if n < minimum:
            self.error('anchor vanished: rule %s matched %d %s (< %d '
                       'confirmed by hand)' % (rule, n, what, minimum))

    def gate(self, program):
        """a violation in code that uses an idiom the rules were not
        confirmed against (sa/idioms.py) is undecided, not asserted"""
        from . import idioms
        known = {f['key'] for f in load_known().get('findings', [])
                 if f.get('property') == self.prop}
        for o in self.obls:
            if o.status != VIOLATED or o.key in known:
                continue           # (a recorded finding stays what it is)
            why = idioms.unconfirmed(program, o.rule, o.where, o.loc)
            if why:
                o.status = UNKNOWN
                o.what = ('not asserted - %s, an idiom the pinned tree does '
                          'not have and rule %s was not confirmed against; '
                          'what the rule saw: %s' % (why, o.rule, o.what))

    # ------------------------------------------------------------- finishing
    def finish(self, resolver=None) -> int:
        known = load_known()
        known_keys = {f['key']: f for f in known.get('findings', [])
                      if f.get('property') == self.prop}
        violations = []
        known_hits = []
        for o in self.obls:
            if o.status == VIOLATED:
                if o.key in known_keys:
                    known_hits.append(o)
                else:
                    violations.append(o)
        unknowns = [o for o in self.obls if o.status == UNKNOWN]
        out = []
        out.append('== %s (%s) on %s' % (self.prop, self.tier, self.repo))
        out.append('rules: %s' % ', '.join(sorted(self.rules)))
        counts = {}
        for o in self.obls:
            counts[o.status] = counts.get(o.status, 0) + 1
        out.append('obligations: %d  %s' % (len(self.obls), '  '.join(
            '%s=%d' % kv for kv in sorted(counts.items()))))
        out.append('functions analysed: %d, evaluations (paths/chains/'
                   'sites): %d' % (len(self.functions), self.evaluations))
        for n in self.notes:
            out.append('note: ' + n)
        for o in known_hits:
            out.append('KNOWN-FINDING: property=%s %s :: %s' % (
                self.prop, o.key, o.what))
        replay_paths = []
        for o in violations:
            path = self._write_replay(o)
            replay_paths.append(path)
            out.append('VIOLATION property=%s replay=%s' % (self.prop, path))
            out.append('  rule %s at %s (%s)' % (o.rule, o.loc, o.where))
            out.append('  construct: %s' % o.text)
            out.append('  what fails: %s' % o.what)
            for w in o.witness:
                out.append('    | ' + w)
        for o in unknowns:
            out.append('ANALYSIS-ERROR property=%s undecided obligation %s: '
                       '%s' % (self.prop, o.key, o.what))
        for e in self.errors:
            out.append('ANALYSIS-ERROR property=%s %s' % (self.prop, e))
        code = 0
        if violations:
            code = 1
        elif unknowns or self.errors:
            code = 2
        self._write_evidence(len(violations), known_hits, resolver, code)
        out.append('result: %s' % {0: 'HELD', 1: 'VIOLATED',
                                   2: 'ANALYSIS-ERROR'}[code])
        print('\n'.join(out))
        return code

    def _write_replay(self, o: Obligation) -> str:
        d = os.path.join(VERIF, 'replays', self.prop)
        os.makedirs(d, exist_ok=True)
        h = hashlib.sha1(o.key.encode()).hexdigest()[:12]
        path = os.path.join(d, h + '.json')
        with open(path, 'w') as f:
            json.dump({'property': self.prop, 'key': o.key, 'rule': o.rule,
                       'rule_text': self.rules.get(o.rule, ''),
                       'where': o.where, 'construct': o.text,
                       'what': o.what, 'loc': o.loc, 'witness': o.witness,
                       'repo': self.repo,
                       'replay': './check %s --replay %s' % (self.prop,
                                                             path)},
                      f, indent=1)
        return path

    def _write_evidence(self, nviol: int, known_hits, resolver, code):
        obls = self.obls
        discharged = [o for o in obls if o.status == DISCHARGED]
        distinct = len({o.key for o in obls if o.nontrivial})
        samples = []
        seen_rules = set()
        for o in obls:        # one sample per rule first, then violations
            if o.rule not in seen_rules:
                seen_rules.add(o.rule)
                samples.append(o.as_dict())
        for o in obls:
            if o.status in (VIOLATED, UNKNOWN) and \
                    o.as_dict() not in samples:
                samples.append(o.as_dict())
        samples = samples[:40]
        cov = {
            'explanation': (
                'Static rule conformance over the source of the current '
                'tree: every obligation is one (rule, construct) pair decided '
                'from the AST / control-flow graph / resolved call graph of '
                '%s. Not decided (left to other families): %s'
                % (self.repo, '; '.join(self.not_decided) or '-')),
            'rule': '; '.join('%s: %s' % kv for kv in sorted(
                self.rules.items())) + ' || non-trivial = obligation whose '
                'region contains at least one branch, call or scope; '
                'distinct = distinct obligation keys',
            'obligations': len(obls),
            'discharged': len(discharged),
            'exempt': sum(1 for o in obls if o.status == EXEMPT),
            'violated': sum(1 for o in obls if o.status == VIOLATED),
            'known_findings': [o.key for o in known_hits],
            'evaluations': max(self.evaluations, len(obls)),
            'distinct_nontrivial': distinct,
            'samples': samples,
            'functions_analysed': sorted(self.functions),
            'checker_cmd': ' '.join(self.argv),
            'trusted_base': sorted(self.tables) + [
                'CPython ast parser', 'sa engine (cfg, dataflow, resolver)',
                'sa/tables.py seed tables'],
            'exhaustive': True,
            'analysis_errors': list(self.errors),
        }
        if resolver is not None:
            cov['call_sites'] = dict(resolver.stats)
        cov.update(self.extra)
        ev = {
            'property_id': self.prop,
            'tier': self.tier,
            'seed': int(os.environ.get('VERIF_SEED', '0') or 0),
            'level': 'other',
            'coverage': cov,
            'assumptions': self.assumptions + [
                'the parsed source under <repo>/slimta is what runs '
                '(no monkey patching, no alternative implementations '
                'injected at run time beyond the documented interfaces)'],
            'wall_s': round(time.time() - self.t0, 3),
            'violations': nviol,
        }
        if os.path.abspath(self.repo) != '/repo' and \
                not os.environ.get('SA_EVIDENCE_DIR'):
            return      # scratch copies (self-test) never touch evidence/
        d = os.environ.get('SA_EVIDENCE_DIR') or os.path.join(VERIF,
                                                              'evidence')
        os.makedirs(d, exist_ok=True)
        with open(os.path.join(d, self.prop + '.json'), 'w') as f:
            json.dump(ev, f, indent=1, sort_keys=True)
