"""Self-test: apply each mutant of selftest/corpus.py to a scratch copy of
/repo/slimta and check that the named rule fires (must-fire mutants) or that
the check stays silent (behaviour-preserving twins).

./check --selftest [--only C07] [-j 16]
"""
from __future__ import annotations

import contextlib
import importlib.util
import io
import json
import os
import shutil
import sys
import tempfile
from concurrent.futures import ProcessPoolExecutor

from .report import VERIF


def load_corpus():
    path = os.path.join(VERIF, 'selftest', 'corpus.py')
    spec = importlib.util.spec_from_file_location('corpus', path)
    mod = importlib.util.module_from_spec(spec)
    spec.loader.exec_module(mod)
    muts = list(mod.MUTANTS)
    # the seeded breaking changes and the behaviour-preserving changes
    # (indexed by tools/gen_patch_variants.py) are replayed as patches
    idx = os.path.join(VERIF, 'selftest', 'patch_variants.json')
    if os.path.exists(idx):
        with open(idx) as f:
            for r in json.load(f):
                muts.append({'id': r['id'], 'prop': r['prop'],
                             'expect': r['expect'], 'edits': [],
                             'patch': r['patch']})
    return muts


def _run_one(m, repo='/repo'):
    from .cli import run_check
    tmp = tempfile.mkdtemp(prefix='sa_selftest_')
    try:
        shutil.copytree(os.path.join(repo, 'slimta'),
                        os.path.join(tmp, 'slimta'))
        if m.get('patch'):
            import subprocess
            r = subprocess.run(['patch', '-p1', '-s', '-i',
                                os.path.join(VERIF, m['patch'])], cwd=tmp,
                               capture_output=True, text=True)
            if r.returncode != 0:
                return (m['id'], 'STALE', 'patch does not apply')
        for ed in m['edits']:
            path = os.path.join(tmp, ed['file'])
            with open(path) as f:
                src = f.read()
            n = src.count(ed['find'])
            if n != ed.get('count', 1):
                return (m['id'], 'STALE', 'pattern occurs %d times in %s'
                        % (n, ed['file']))
            src = src.replace(ed['find'], ed['replace'])
            with open(path, 'w') as f:
                f.write(src)
        # the mutant must still compile
        for ed in m['edits']:
            try:
                with open(os.path.join(tmp, ed['file'])) as f:
                    compile(f.read(), ed['file'], 'exec')
            except SyntaxError as ex:
                return (m['id'], 'STALE', 'does not compile: %s' % ex)
        buf = io.StringIO()
        with contextlib.redirect_stdout(buf), \
                contextlib.redirect_stderr(io.StringIO()):
            code = run_check(m['prop'], 'quick', tmp)
        out = buf.getvalue()
        fired = []
        lines = out.splitlines()
        for i, line in enumerate(lines):
            if line.startswith('VIOLATION ') and i + 1 < len(lines):
                fired.append(lines[i + 1].strip().split()[1])
        exp = m['expect']
        if exp == 'silent':
            ok = code == 0
            return (m['id'], 'OK' if ok else 'FALSE-ALARM',
                    'exit %d fired %s' % (code, fired))
        rule = exp.split(':', 1)[1]
        ok = code == 1 and rule in fired
        return (m['id'], 'OK' if ok else 'MISSED',
                'exit %d fired %s (expected %s)' % (code, fired, rule))
    finally:
        shutil.rmtree(tmp, ignore_errors=True)


def main(only=None, jobs=16, repo='/repo') -> int:
    muts = load_corpus()
    if only:
        muts = [m for m in muts if m['prop'] in only or m['id'] in only]
    res = []
    with ProcessPoolExecutor(max_workers=jobs) as ex:
        for r in ex.map(_run_one, muts):
            res.append(r)
    bad = 0
    for mid, status, detail in res:
        if status != 'OK':
            bad += 1
        print('%-12s %-44s %s' % (status, mid, detail if status != 'OK'
                                  else ''))
    print('selftest: %d mutants, %d ok, %d not ok' % (
        len(res), len(res) - bad, bad))
    return 0 if bad == 0 else 3
