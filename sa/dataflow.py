"""Generic worklist dataflow solvers over sa.cfg graphs, plus witness search.

States are arbitrary hashable/equatable values; `None` means "unreached".
"""
from __future__ import annotations

from collections import deque
from typing import Callable, Dict, Iterable, List, Optional

from .cfg import CFG, Node


def pick(out, label):
    if isinstance(out, dict):
        if label in out:
            return out[label]
        if isinstance(label, tuple) and 'exc' in out:
            return out['exc']
        return out.get(None)
    return out


def forward(cfg: CFG, init, transfer: Callable, join: Callable,
            start: Optional[Node] = None) -> Dict[int, object]:
    """Returns IN states per node id.  transfer(node, in_state) returns either
    one state for all out-edges or a dict {label|'exc'|None: state}; a state
    of None on an edge means the edge is infeasible."""
    start = start or cfg.entry
    IN: Dict[int, object] = {start.id: init}
    work = deque([start])
    queued = {start.id}
    while work:
        n = work.popleft()
        queued.discard(n.id)
        out = transfer(n, IN[n.id])
        for label, s in n.succ:
            st = pick(out, label)
            if st is None:
                continue
            old = IN.get(s.id)
            new = st if old is None else join(old, st)
            if old is None or new != old:
                IN[s.id] = new
                if s.id not in queued:
                    queued.add(s.id)
                    work.append(s)
    return IN


def backward(cfg: CFG, terminal: Callable, transfer: Callable,
             join: Callable, edge: Optional[Callable] = None
             ) -> Dict[int, object]:
    """Backward analysis.  terminal(node) gives the OUT state of nodes without
    successors (None = ignore this terminal).  transfer(node, out) -> in.
    edge(node, label, succ, succ_in) may rewrite/ignore (None) an edge.
    Returns IN states (state holding *before* the node executes)."""
    IN: Dict[int, object] = {}
    OUT: Dict[int, object] = {}
    work = deque()
    for n in cfg.nodes:
        if not n.succ:
            t = terminal(n)
            if t is not None:
                OUT[n.id] = t
                IN[n.id] = transfer(n, t)
                work.append(n)
    queued = {n.id for n in work}
    while work:
        n = work.popleft()
        queued.discard(n.id)
        for label, p in n.pred:
            # recompute OUT of p from all successors
            acc = None
            for l2, s in p.succ:
                si = IN.get(s.id)
                if si is None:
                    continue
                if edge is not None:
                    si = edge(p, l2, s, si)
                    if si is None:
                        continue
                acc = si if acc is None else join(acc, si)
            if acc is None:
                continue
            if OUT.get(p.id) != acc or p.id not in IN:
                OUT[p.id] = acc
                new_in = transfer(p, acc)
                if IN.get(p.id) != new_in or p.id not in IN:
                    IN[p.id] = new_in
                    if p.id not in queued:
                        queued.add(p.id)
                        work.append(p)
    return IN


def reachable(cfg: CFG, start: Optional[Node] = None,
              edge_ok: Optional[Callable] = None) -> set:
    start = start or cfg.entry
    seen = {start.id}
    work = [start]
    while work:
        n = work.pop()
        for l, s in n.succ:
            if edge_ok is not None and not edge_ok(n, l, s):
                continue
            if s.id not in seen:
                seen.add(s.id)
                work.append(s)
    return seen


def find_path(cfg: CFG, src: Node, is_goal: Callable,
              avoid: Optional[Callable] = None,
              edge_ok: Optional[Callable] = None) -> Optional[List]:
    """Shortest path (list of (node, label-taken-out)) from src to a node
    satisfying is_goal, not passing through nodes with avoid(node) True
    (src and goal exempt)."""
    prev = {src.id: None}
    work = deque([src])
    goal = None
    if is_goal(src):
        return [(src, None)]
    while work and goal is None:
        n = work.popleft()
        for l, s in n.succ:
            if s.id in prev:
                continue
            if edge_ok is not None and not edge_ok(n, l, s):
                continue
            if is_goal(s):
                prev[s.id] = (n, l)
                goal = s
                break
            if avoid is not None and avoid(s):
                continue
            prev[s.id] = (n, l)
            work.append(s)
    if goal is None:
        return None
    path = [(goal, None)]
    cur = goal
    while prev[cur.id] is not None:
        n, l = prev[cur.id]
        path.append((n, l))
        cur = n
    return path[::-1]


def render_path(path, limit=14) -> List[str]:
    """Human-readable witness: only nodes that carry source text."""
    out = []
    for n, l in path:
        if n.kind in ('nop', 'bind'):
            continue
        lab = ''
        if l in ('T', 'F'):
            lab = ' [%s]' % ('true' if l == 'T' else 'false')
        elif isinstance(l, tuple):
            lab = ' [raises %s]' % l[1].rpartition('.')[2]
        elif l == 'done':
            lab = ' [loop done]'
        out.append('%s %s: %s%s' % (n.loc(), n.kind, n.text(70), lab))
    if len(out) > limit:
        half = limit // 2
        out = out[:half] + ['... (%d steps)' % (len(out) - limit)] + \
            out[-half:]
    return out


# ------------------------------------------------------------ event helpers

def must_events_before(cfg: CFG, events: Callable, kill: Callable = None,
                       edge_events: Callable = None):
    """Forward must-analysis: for every node, the set of event labels that
    have occurred on *every* path from entry to (just before) the node.
    events(node) -> iterable of labels generated by the node when it completes
    normally; an exception edge out of a node does not count as completion
    unless edge_events(node, label) says so."""
    def transfer(n, st):
        gen = frozenset(events(n) or ())
        k = frozenset(kill(n) or ()) if kill else frozenset()
        normal = (st - k) | gen
        if edge_events is None:
            exc = st - k
        else:
            exc = (st - k) | frozenset(edge_events(n, 'exc') or ())
        return {None: normal, 'exc': exc}
    return forward(cfg, frozenset(), transfer, lambda a, b: a & b)


def may_events_before(cfg: CFG, events: Callable, kill: Callable = None):
    def transfer(n, st):
        gen = frozenset(events(n) or ())
        k = frozenset(kill(n) or ()) if kill else frozenset()
        return {None: (st - k) | gen, 'exc': (st - k) | gen}
    return forward(cfg, frozenset(), transfer, lambda a, b: a | b)


ALL = None  # placeholder documented below


class Top:
    """Top element for must-sets (the set of all events)."""
    def __repr__(self):
        return 'TOP'

    def __eq__(self, o):
        return isinstance(o, Top)

    def __hash__(self):
        return 1


TOP = Top()


def meet(a, b):
    if isinstance(a, Top):
        return b
    if isinstance(b, Top):
        return a
    return a & b


def must_events_after(cfg: CFG, events: Callable, on_exit=frozenset(),
                      on_raise=frozenset(), edge: Callable = None):
    """Backward must-analysis: for every node, the set of event labels that
    occur on *every* path from (and including) the node to termination.
    on_exit / on_raise: state at the normal / exceptional terminal (use TOP to
    disregard paths ending there)."""
    def terminal(n):
        if n is cfg.exit:
            return on_exit
        if n is cfg.raise_exit:
            return on_raise
        return TOP      # dead ends (unreachable code) do not constrain

    def transfer(n, out):
        gen = frozenset(events(n) or ())
        if isinstance(out, Top):
            return out if not gen else TOP
        return out | gen
    # NOTE: with TOP as identity, `TOP | gen` stays TOP (all events).
    return backward(cfg, terminal, transfer, meet, edge)


def count_events(cfg: CFG, count: Callable, cap: int = 3):
    """Forward may-analysis of how many counted events happened so far:
    state = frozenset of possible counts (saturating at cap)."""
    def transfer(n, st):
        c = count(n)
        if not c:
            return st
        new = frozenset(min(cap, x + c) for x in st)
        return {None: new, 'exc': st}
    return forward(cfg, frozenset([0]), transfer, lambda a, b: a | b)


# ------------------------------------------------------------- typestate

def typestate(cfg: CFG, init, step: Callable, start: Optional[Node] = None):
    """Forward may-analysis over sets of small hashable states.
    step(node, label, state) -> state | None (edge infeasible for state).
    Returns IN: node id -> frozenset of states possible on arrival."""
    def transfer(n, states):
        out = {}
        for label, s in n.succ:
            nxt = set()
            for x in states:
                y = step(n, label, x)
                if y is not None:
                    nxt.add(y)
            out[label] = frozenset(nxt) if nxt else None
        return out
    return forward(cfg, frozenset([init]), transfer, lambda a, b: a | b,
                   start=start)


def typestate_witness(cfg: CFG, init, step: Callable, goal: Callable,
                      start: Optional[Node] = None, edge_flag=None):
    """Shortest path over the product (node, state) to a pair accepted by
    goal(node, state).  edge_flag(node,label) -> bool marks edges; when given,
    only paths containing at least one flagged edge are accepted."""
    start = start or cfg.entry
    nodes = {n.id: n for n in cfg.nodes}
    s0 = (start.id, init, False)
    prev = {s0: None}
    work = deque([s0])
    found = None
    while work:
        cur = work.popleft()
        nid, st, fl = cur
        n = nodes[nid]
        if goal(n, st) and (fl or edge_flag is None):
            found = cur
            break
        for label, s in n.succ:
            st2 = step(n, label, st)
            if st2 is None:
                continue
            fl2 = fl or (edge_flag is not None and bool(edge_flag(n, label)))
            nxt = (s.id, st2, fl2)
            if nxt not in prev:
                prev[nxt] = (cur, label)
                work.append(nxt)
    if found is None:
        return None
    path = [(nodes[found[0]], None)]
    cur = found
    while prev[cur] is not None:
        pc, label = prev[cur]
        path.append((nodes[pc[0]], label))
        cur = pc
    return path[::-1]
