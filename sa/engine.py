"""Engine façade shared by all rules."""
from __future__ import annotations

import ast
from typing import Callable, Iterable, List, Optional, Set

from .model import Program, AnalysisError, FuncInfo, walk_own
from .resolve import Resolver, Ctx, Target, Resolution
from .callgraph import CallGraph
from . import cfg as cfgmod
from .cfg import Builder, CFG, Node, ANY, TIMEOUT
from .facts import Facts
from . import facts as factsmod


class Engine:
    def __init__(self, repo: str, tier: str = 'quick'):
        self.repo = repo
        self.tier = tier
        self.p = Program(repo)
        self.r = Resolver(self.p)
        self.cg = CallGraph(self.p, self.r)
        self._cfg_cache = {}

    # ------------------------------------------------------------ lookups
    def func(self, qname: str) -> FuncInfo:
        return self.p.func(qname)

    def ctx(self, qname: str, self_cls: Optional[str] = None) -> Ctx:
        return Ctx(self.p.func(qname), self_cls)

    def method_ctx(self, cls_qname: str, name: str) -> Ctx:
        """Context of method `name` as seen by a receiver of class
        cls_qname (the method may be inherited)."""
        self.p.cls(cls_qname)
        m = self.p.lookup_method(cls_qname, name)
        if m is None:
            raise AnalysisError('anchor vanished: method %s.%s' % (
                cls_qname, name))
        return Ctx(m, cls_qname)

    def concrete_classes(self, base: str) -> List[str]:
        self.p.cls(base)
        return [base] + self.p.subclasses(base)

    # -------------------------------------------------------------- CFGs
    def inline_same_self(self, extra: Optional[Callable] = None,
                         deny: Iterable[str] = ()):
        """Inline policy: callees invoked on the same receiver (self.m(),
        super().m()) - plus whatever `extra` accepts."""
        deny = set(deny)

        def pol(builder, call, target: Target, frame):
            if target.func.name in deny or target.func.qname in deny:
                return False
            if target.recv_is_self and frame.self_same:
                return True
            # a closure of the caller handed down through a static helper
            # (`self._within(t, send_and_collect)` ... `step(*args)`)
            if target.recv_is_self and target.func.parent is not None and \
                    frame.parent is not None and frame.ctx.func.kind in (
                        'staticmethod', 'classmethod'):
                return True
            # ... or a bound method of the caller's self handed down the same
            # way (`self._fail(result, partial(self._canned_error, t))` ...
            # `make_error()`): a static helper has no self of its own
            if target.recv_is_self and frame.parent is not None and \
                    frame.ctx.func.kind == 'staticmethod' and \
                    frame.parent.self_same:
                return True
            # static / class methods of the own class called through self
            f = call.func
            if frame.self_same and target.func.kind in (
                    'staticmethod', 'classmethod') and \
                    isinstance(f, ast.Attribute) and \
                    isinstance(f.value, ast.Name) and \
                    f.value.id in (frame.ctx.func.self_name, 'cls'):
                return True
            # a private module-level helper of the same package (a helper
            # extracted into a function instead of a method)
            tm = target.func.module.name
            fm = frame.ctx.func.module.name
            if target.func.cls is None and target.func.parent is None and \
                    target.func.name.startswith('_') and \
                    not target.func.name.startswith('__') and (
                        tm == fm or tm == fm.rpartition('.')[0] or
                        fm == tm.rpartition('.')[0] or
                        tm.rpartition('.')[0] == fm.rpartition('.')[0]):
                # (a generator among them is only ever expanded where a
                # `for` iterates it - never as a plain call)
                return True
            if extra is not None:
                return bool(extra(builder, call, target, frame))
            return False
        return pol

    def inline_all(self, deny: Iterable[str] = (),
                   only_modules: Optional[Iterable[str]] = None):
        deny = set(deny)
        mods = tuple(only_modules) if only_modules else None

        def pol(builder, call, target: Target, frame):
            if target.func.name in deny or target.func.qname in deny:
                return False
            if mods is not None and not target.func.module.name.startswith(
                    mods):
                return False
            return True
        return pol

    def build(self, ctx: Ctx, inline=cfgmod.never_inline,
              raises=cfgmod.default_raises, max_depth: int = 6,
              assert_raises: bool = True) -> CFG:
        return Builder(self.p, self.r, inline, raises, max_depth,
                       assert_raises).build(ctx)

    def facts(self, cfg: CFG, start: Node = None) -> Facts:
        def writes_of(n: Node):
            res: Resolution = n.extra.get('res')
            if res is None:
                return None
            out: Set[str] = set()
            for t in res.targets:
                if t.recv_is_self:
                    ws = self.cg.self_writes(t.ctx())
                    if '*' in ws:
                        return None
                    out |= ws
            return out
        def recv_writes(n: Node):
            """Attributes a fully resolved method call may assign on its
            (non-self) receiver; None = unknown."""
            res: Resolution = n.extra.get('res')
            if res is None or not res.targets or res.externals or \
                    res.unresolved or n.extra.get('partial'):
                return None
            out: Set[str] = set()
            for t in res.targets:
                ws = self.cg.self_writes(t.ctx())
                if '*' in ws:
                    return None
                out |= ws
            return out
        def arg_mutated(n: Node, i: int):
            """False when every resolved callee provably leaves positional
            argument i unmodified; None/True otherwise."""
            res: Resolution = n.extra.get('res')
            if res is None or res.unresolved or n.extra.get('partial'):
                return None
            if any(isinstance(a, ast.Starred) for a in n.ast.args):
                return None
            for q in res.externals:
                last = q.rpartition('.')[2].replace('()', '')
                if last not in self.cg._SAFE_EXTERNALS and \
                        q not in res.ctor_of:
                    return None
            if not res.targets and not res.externals:
                return None
            for t in res.targets:
                ps = list(t.func.params)
                if t.func.kind in ('method', 'classmethod', 'property',
                                   'setter') and t.self_cls is not None \
                        and ps:
                    ps = ps[1:]
                if i >= len(ps):
                    return None
                if self.cg.mutates_param(t.ctx(), ps[i]):
                    return True
            return False
        return Facts(cfg, writes_of, start, recv_writes, arg_mutated)

    # --------------------------------------------------------- predicates
    @staticmethod
    def call_name(node: Node) -> str:
        """Last component of the called expression ('' if not a call)."""
        if node.kind not in ('call', 'call_enter', 'call_return'):
            return ''
        f = node.ast.func
        if isinstance(f, ast.Name) and node.frame is not None and \
                f.id in node.frame.ctx.func.params:
            # a callable the caller handed in (`open_fd()` with open_fd =
            # partial(mkstemp, dir=...)): the name of what is really called
            res = node.extra.get('res')
            via = getattr(res, 'via', None) if res is not None else None
            vf = getattr(via, 'func', None)
            if isinstance(vf, ast.Attribute):
                return vf.attr
            if isinstance(vf, ast.Name) and vf.id != f.id:
                return vf.id
        if isinstance(f, ast.Attribute):
            return f.attr
        if isinstance(f, ast.Name):
            return f.id
        return ''

    @staticmethod
    def call_name_of(call: ast.Call) -> str:
        f = call.func
        if isinstance(f, ast.Attribute):
            return f.attr
        if isinstance(f, ast.Name):
            return f.id
        return ''

    @staticmethod
    def targets(node: Node) -> List[str]:
        res = node.extra.get('res')
        if node.kind == 'call_enter':
            return [node.extra['target'].func.qname]
        if res is None:
            return []
        return [t.func.qname for t in res.targets]

    @staticmethod
    def externals(node: Node) -> List[str]:
        res = node.extra.get('res')
        return list(res.externals) if res is not None else []

    def calls_to(self, cfg: CFG, *names: str) -> List[Node]:
        """Call sites (non-inlined or inlined) whose resolved target qname or
        attribute name is in names."""
        out = []
        for n in cfg.calls():
            if self.call_name(n) in names:
                out.append(n)
                continue
            if any(t in names for t in self.targets(n)):
                out.append(n)
        return out

    def recv_text(self, node: Node) -> str:
        f = node.ast.func
        if isinstance(f, ast.Attribute):
            return factsmod.canon(f.value, node.frame)
        return ''


def frames_of(node: Node):
    """Lexical scopes of a node, outermost first (includes inline stack)."""
    return node.scopes


def in_scope(node: Node, pred: Callable) -> bool:
    return any(pred(sc) for sc in node.scopes)
