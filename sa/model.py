"""Program model: modules, imports, classes (C3 MRO), functions, attributes.

Nothing here imports or executes repository code; everything is derived from
``ast.parse`` of the files found under <repo>/slimta on every run.
"""
from __future__ import annotations

import ast
import os
from typing import Dict, List, Optional, Tuple


class AnalysisError(Exception):
    """The analysis itself cannot proceed (vanished anchor, parse error...)."""


class Module:
    def __init__(self, name: str, path: str, relpath: str, src: str,
                 tree: ast.Module, is_pkg: bool):
        self.name = name
        self.path = path
        self.relpath = relpath
        self.src = src
        self.tree = tree
        self.is_pkg = is_pkg
        self.imports: Dict[str, str] = {}      # local name -> qualified name
        self.classes: Dict[str, 'ClassInfo'] = {}
        self.functions: Dict[str, 'FuncInfo'] = {}
        self.globals: Dict[str, ast.expr] = {}  # module-level NAME = <expr>

    @property
    def package(self) -> str:
        return self.name if self.is_pkg else self.name.rpartition('.')[0]

    def __repr__(self):
        return '<Module %s>' % self.name


class FuncInfo:
    def __init__(self, name: str, qname: str, node, module: Module,
                 cls: Optional['ClassInfo'], parent: Optional['FuncInfo']):
        self.name = name
        self.qname = qname
        self.node = node
        self.module = module
        self.cls = cls
        self.parent = parent
        self.nested: Dict[str, 'FuncInfo'] = {}
        self.decorators = [ast.unparse(d) for d in node.decorator_list]
        self.kind = 'function'
        if cls is not None and parent is None:
            self.kind = 'method'
            for d in node.decorator_list:
                t = ast.unparse(d)
                if t == 'staticmethod':
                    self.kind = 'staticmethod'
                elif t == 'classmethod':
                    self.kind = 'classmethod'
                elif t == 'property':
                    self.kind = 'property'
                elif t.endswith('.setter'):
                    self.kind = 'setter'
        a = node.args
        self.params = [x.arg for x in a.posonlyargs + a.args]
        self.vararg = a.vararg.arg if a.vararg else None
        self.kwarg = a.kwarg.arg if a.kwarg else None
        self.kwonly = [x.arg for x in a.kwonlyargs]
        self.is_generator = any(
            isinstance(n, (ast.Yield, ast.YieldFrom))
            for n in walk_own(node))

    @property
    def self_name(self) -> Optional[str]:
        if self.kind in ('method', 'classmethod', 'property', 'setter') \
                and self.params:
            return self.params[0]
        if self.parent is not None:
            return self.parent.self_name
        return None

    @property
    def lineno(self):
        return self.node.lineno

    def loc(self, node=None) -> str:
        n = node if node is not None else self.node
        return '%s:%d' % (self.module.relpath, getattr(n, 'lineno', 0))

    def __repr__(self):
        return '<Func %s>' % self.qname


class ClassInfo:
    def __init__(self, name: str, qname: str, node: ast.ClassDef,
                 module: Module):
        self.name = name
        self.qname = qname
        self.node = node
        self.module = module
        self.base_exprs = list(node.bases)
        self.bases: List[str] = []       # qualified names (repo or external)
        self.methods: Dict[str, FuncInfo] = {}
        self.setters: Dict[str, FuncInfo] = {}
        self.class_attrs: Dict[str, ast.expr] = {}
        self.mro: List[str] = []         # qualified names, repo + external

    def __repr__(self):
        return '<Class %s>' % self.qname


def walk_own(func_node):
    """Walk the nodes of a function body without entering nested defs."""
    stack = list(func_node.body)
    while stack:
        n = stack.pop()
        yield n
        if isinstance(n, (ast.FunctionDef, ast.AsyncFunctionDef,
                          ast.ClassDef)):
            # a def statement directly in the body: its inside is not ours
            continue
        for c in ast.iter_child_nodes(n):
            if isinstance(c, (ast.FunctionDef, ast.AsyncFunctionDef,
                              ast.ClassDef, ast.Lambda)):
                continue
            stack.append(c)


# Builtin / external exception hierarchy used for handler matching.  Verified
# in this sandbox (python 3.12, gevent 26.8): gevent.Timeout derives from
# BaseException, socket.error is OSError, binascii.Error < ValueError, ...
EXTERNAL_BASES = {
    'builtins.BaseException': [],
    'builtins.Exception': ['builtins.BaseException'],
    'builtins.KeyboardInterrupt': ['builtins.BaseException'],
    'builtins.SystemExit': ['builtins.BaseException'],
    'builtins.GeneratorExit': ['builtins.BaseException'],
    'gevent.Timeout': ['builtins.BaseException'],
    'gevent.timeout.Timeout': ['builtins.BaseException'],
    'gevent.GreenletExit': ['builtins.BaseException'],
    'builtins.StopIteration': ['builtins.Exception'],
    'builtins.ArithmeticError': ['builtins.Exception'],
    'builtins.AssertionError': ['builtins.Exception'],
    'builtins.AttributeError': ['builtins.Exception'],
    'builtins.EOFError': ['builtins.Exception'],
    'builtins.ImportError': ['builtins.Exception'],
    'builtins.LookupError': ['builtins.Exception'],
    'builtins.IndexError': ['builtins.LookupError'],
    'builtins.KeyError': ['builtins.LookupError'],
    'builtins.NameError': ['builtins.Exception'],
    'builtins.OSError': ['builtins.Exception'],
    'builtins.IOError': ['builtins.OSError'],
    'builtins.EnvironmentError': ['builtins.OSError'],
    'builtins.ConnectionError': ['builtins.OSError'],
    'builtins.TimeoutError': ['builtins.OSError'],
    'socket.error': ['builtins.OSError'],
    'socket.timeout': ['builtins.OSError'],
    'socket.gaierror': ['builtins.OSError'],
    'gevent.socket.error': ['builtins.OSError'],
    'ssl.SSLError': ['builtins.OSError'],
    'gevent.ssl.SSLError': ['builtins.OSError'],
    'gevent.ssl.SSLWantReadError': ['gevent.ssl.SSLError'],
    'builtins.RuntimeError': ['builtins.Exception'],
    'builtins.NotImplementedError': ['builtins.RuntimeError'],
    'builtins.TypeError': ['builtins.Exception'],
    'builtins.ValueError': ['builtins.Exception'],
    'builtins.UnicodeError': ['builtins.ValueError'],
    'builtins.UnicodeDecodeError': ['builtins.UnicodeError'],
    'builtins.UnicodeEncodeError': ['builtins.UnicodeError'],
    'binascii.Error': ['builtins.ValueError'],
    'struct.error': ['builtins.Exception'],
    'pickle.UnpicklingError': ['builtins.Exception'],
    'json.JSONDecodeError': ['builtins.ValueError'],
    'pysasl.exception.AuthenticationError': ['builtins.Exception'],
    'pysasl.mechanism.ServerChallenge': ['builtins.Exception'],
    'builtins.object': [],
}

# exception names that are plain aliases of one class
EXC_ALIASES = {
    'socket.error': 'builtins.OSError',
    'gevent.socket.error': 'builtins.OSError',
    'builtins.IOError': 'builtins.OSError',
    'builtins.EnvironmentError': 'builtins.OSError',
    'gevent.timeout.Timeout': 'gevent.Timeout',
}

BUILTIN_NAMES = {
    'BaseException', 'Exception', 'KeyboardInterrupt', 'SystemExit',
    'GeneratorExit', 'StopIteration', 'ArithmeticError', 'AssertionError',
    'AttributeError', 'EOFError', 'ImportError', 'LookupError', 'IndexError',
    'KeyError', 'NameError', 'OSError', 'IOError', 'EnvironmentError',
    'ConnectionError', 'TimeoutError', 'RuntimeError', 'NotImplementedError',
    'TypeError', 'ValueError', 'UnicodeError', 'UnicodeDecodeError',
    'UnicodeEncodeError', 'object', 'dict', 'list', 'set', 'tuple', 'str',
    'bytes', 'bytearray', 'int', 'float', 'len', 'isinstance', 'getattr',
    'setattr', 'hasattr', 'sorted', 'reversed', 'zip', 'map', 'enumerate',
    'range', 'min', 'max', 'any', 'all', 'sum', 'iter', 'next', 'super',
    'type', 'repr', 'hex', 'id', 'memoryview', 'frozenset', 'bool', 'open',
    'print', 'callable', 'filter', 'abs', 'format', 'vars', 'issubclass',
}


class Program:
    def __init__(self, repo: str, package: str = 'slimta',
                 extra_roots: Tuple[Tuple[str, str], ...] = ()):
        self.repo = os.path.abspath(repo)
        self.modules: Dict[str, Module] = {}
        self.classes: Dict[str, ClassInfo] = {}
        self.functions: Dict[str, FuncInfo] = {}
        self._subclasses: Dict[str, List[str]] = {}
        root = os.path.join(self.repo, package)
        if not os.path.isdir(root):
            raise AnalysisError('no package directory %s' % root)
        self._load_tree(root, package, self.repo)
        for top, pkgname in extra_roots:
            if os.path.isdir(top):
                self._load_tree(top, pkgname, os.path.dirname(top))
        for m in self.modules.values():
            self._index_module(m)
        for c in self.classes.values():
            c.bases = [self.resolve_expr_qname(c.module, b) or
                       'unknown.' + ast.unparse(b) for b in c.base_exprs]
        for c in self.classes.values():
            c.mro = self._c3(c.qname, ())
        for c in self.classes.values():
            for b in c.mro[1:]:
                self._subclasses.setdefault(b, []).append(c.qname)

    # ------------------------------------------------------------ loading
    def _load_tree(self, root: str, package: str, base: str):
        for dirpath, dirnames, filenames in os.walk(root):
            dirnames[:] = sorted(d for d in dirnames
                                 if d != '__pycache__')
            for fn in sorted(filenames):
                if not fn.endswith('.py'):
                    continue
                path = os.path.join(dirpath, fn)
                rel = os.path.relpath(path, base)
                parts = rel[:-3].split(os.sep)
                is_pkg = parts[-1] == '__init__'
                if is_pkg:
                    parts = parts[:-1]
                name = '.'.join(parts)
                try:
                    with open(path, 'rb') as f:
                        src = f.read().decode('utf-8')
                    tree = ast.parse(src, filename=path)
                except (SyntaxError, UnicodeDecodeError, OSError) as e:
                    raise AnalysisError('cannot parse %s: %s' % (rel, e))
                self.modules[name] = Module(name, path, rel, src, tree,
                                            is_pkg)

    def _abs_import(self, m: Module, level: int, mod: Optional[str]) -> str:
        if level == 0:
            return mod or ''
        pkg = m.package.split('.') if m.package else []
        if level > 1:
            pkg = pkg[:len(pkg) - (level - 1)]
        base = '.'.join(pkg)
        if mod:
            return base + '.' + mod if base else mod
        return base

    def _index_module(self, m: Module):
        for node in ast.walk(m.tree):
            if isinstance(node, ast.Import):
                for a in node.names:
                    if a.asname:
                        m.imports.setdefault(a.asname, a.name)
                    else:
                        top = a.name.split('.')[0]
                        m.imports.setdefault(top, top)
            elif isinstance(node, ast.ImportFrom):
                base = self._abs_import(m, node.level, node.module)
                for a in node.names:
                    if a.name == '*':
                        continue
                    m.imports.setdefault(a.asname or a.name,
                                         (base + '.' + a.name) if base
                                         else a.name)
        for node in m.tree.body:
            self._index_stmt(m, node)

    def _index_stmt(self, m: Module, node):
        if isinstance(node, (ast.FunctionDef, ast.AsyncFunctionDef)):
            f = self._make_func(m, node, None, None, m.name)
            m.functions[node.name] = f
        elif isinstance(node, ast.ClassDef):
            self._make_class(m, node, m.name)
        elif isinstance(node, ast.Assign):
            for t in node.targets:
                if isinstance(t, ast.Name):
                    m.globals[t.id] = node.value
        elif isinstance(node, ast.AnnAssign) and node.value is not None \
                and isinstance(node.target, ast.Name):
            m.globals[node.target.id] = node.value
        elif isinstance(node, (ast.Try, ast.If)):
            for sub in ast.iter_child_nodes(node):
                if isinstance(sub, ast.ExceptHandler):
                    for s in sub.body:
                        self._index_stmt(m, s)
                elif isinstance(sub, ast.stmt):
                    self._index_stmt(m, sub)

    def _make_class(self, m: Module, node: ast.ClassDef, prefix: str):
        qn = prefix + '.' + node.name
        c = ClassInfo(node.name, qn, node, m)
        if node.name not in m.classes:
            m.classes[node.name] = c
        self.classes.setdefault(qn, c)
        for s in node.body:
            if isinstance(s, (ast.FunctionDef, ast.AsyncFunctionDef)):
                f = self._make_func(m, s, c, None, qn)
                if f.kind == 'setter':
                    c.setters[s.name] = f
                else:
                    c.methods[s.name] = f
            elif isinstance(s, ast.Assign):
                for t in s.targets:
                    if isinstance(t, ast.Name):
                        c.class_attrs[t.id] = s.value
                        made = self._factory_method(m, t.id, s.value)
                        if made is not None and t.id not in c.methods:
                            # NAME = _factory('NAME'): the method the
                            # factory builds, with its arguments filled in
                            c.methods[t.id] = self._make_func(
                                m, made, c, None, qn)
            elif isinstance(s, ast.AnnAssign) and s.value is not None and \
                    isinstance(s.target, ast.Name):
                c.class_attrs[s.target.id] = s.value
        return c

    @staticmethod
    def _factory_method(m: Module, name: str, value):
        """The FunctionDef a class-body `name = factory(<literals>)` stands
        for, when `factory` is a module-level function of the same module
        whose body is one nested def, optional `inner.__name__ = ...` /
        `inner.__doc__ = ...` and `return inner`: a copy of the nested def
        named `name`, the factory's parameters replaced by the literals and
        getattr(x, 'lit') read as x.lit.  None otherwise."""
        import copy
        if not (isinstance(value, ast.Call) and
                isinstance(value.func, ast.Name) and not value.keywords and
                value.args and all(isinstance(a, ast.Constant)
                                   for a in value.args)):
            return None
        fdefs = [st for st in m.tree.body
                 if isinstance(st, ast.FunctionDef) and
                 st.name == value.func.id]
        if len(fdefs) != 1:
            return None
        fd = fdefs[0]
        fa = fd.args
        if fa.vararg or fa.kwarg or fa.kwonlyargs or fa.posonlyargs or \
                len(fa.args) != len(value.args) or fd.decorator_list:
            return None
        body = [st for st in fd.body
                if not (isinstance(st, ast.Expr) and
                        isinstance(st.value, ast.Constant))]
        inner = [st for st in body if isinstance(st, ast.FunctionDef)]
        if len(inner) != 1 or not body or \
                not isinstance(body[-1], ast.Return) or \
                not isinstance(body[-1].value, ast.Name) or \
                body[-1].value.id != inner[0].name:
            return None
        for st in body[:-1]:
            if st is inner[0]:
                continue
            if not (isinstance(st, ast.Assign) and len(st.targets) == 1 and
                    isinstance(st.targets[0], ast.Attribute) and
                    isinstance(st.targets[0].value, ast.Name) and
                    st.targets[0].value.id == inner[0].name and
                    st.targets[0].attr in ('__name__', '__doc__',
                                           '__qualname__')):
                return None
        subst = {a.arg: v for a, v in zip(fa.args, value.args)}
        if any(isinstance(x, ast.Name) and x.id in subst and
               isinstance(x.ctx, (ast.Store, ast.Del))
               for x in ast.walk(inner[0])) or \
                any(a.arg in subst for a in inner[0].args.args +
                    inner[0].args.kwonlyargs):
            return None

        class _Fill(ast.NodeTransformer):
            def visit_Name(self, node):
                if isinstance(node.ctx, ast.Load) and node.id in subst:
                    return ast.copy_location(
                        copy.deepcopy(subst[node.id]), node)
                return node

            def visit_Call(self, node):
                self.generic_visit(node)
                if isinstance(node.func, ast.Name) and \
                        node.func.id == 'getattr' and len(node.args) == 2 \
                        and not node.keywords and \
                        isinstance(node.args[1], ast.Constant) and \
                        isinstance(node.args[1].value, str) and \
                        node.args[1].value.isidentifier():
                    return ast.copy_location(ast.Attribute(
                        value=node.args[0], attr=node.args[1].value,
                        ctx=ast.Load()), node)
                return node
        new = _Fill().visit(copy.deepcopy(inner[0]))
        new.name = name
        ast.fix_missing_locations(new)
        return new

    def _make_func(self, m: Module, node, cls, parent, prefix: str):
        qn = prefix + '.' + node.name
        if qn in self.functions and node.decorator_list and \
                any(ast.unparse(d).endswith('.setter')
                    for d in node.decorator_list):
            qn = qn + '.setter'
        f = FuncInfo(node.name, qn, node, m, cls, parent)
        self.functions[qn] = f
        for n in walk_own(node):
            pass
        # nested defs (closures such as Queue._run_policies.recurse)
        for sub in self._direct_nested(node):
            g = self._make_func(m, sub, cls, f, qn)
            f.nested[sub.name] = g
        return f

    @staticmethod
    def _direct_nested(func_node):
        out = []
        stack = list(func_node.body)
        while stack:
            n = stack.pop(0)
            if isinstance(n, (ast.FunctionDef, ast.AsyncFunctionDef)):
                out.append(n)
                continue
            if isinstance(n, (ast.ClassDef, ast.Lambda)):
                continue
            stack.extend(ast.iter_child_nodes(n))
        return out

    # --------------------------------------------------------- name lookup
    def resolve_qname(self, qn: str) -> str:
        """Follow re-exports: a.b.C where a.b imports C from a.c."""
        seen = set()
        while qn not in self.classes and qn not in self.functions and \
                qn not in self.modules and qn not in seen:
            seen.add(qn)
            mod, _, name = qn.rpartition('.')
            m = self.modules.get(mod)
            if m is None:
                break
            if name in m.imports:
                qn = m.imports[name]
            else:
                break
        return qn

    def resolve_name(self, m: Module, name: str) -> Optional[str]:
        """Qualified name a bare module-level identifier refers to."""
        if name in m.classes:
            return m.classes[name].qname
        if name in m.functions:
            return m.functions[name].qname
        if name in m.imports:
            return self.resolve_qname(m.imports[name])
        if name in m.globals:
            return m.name + '.' + name
        if name in BUILTIN_NAMES:
            return 'builtins.' + name
        return None

    def resolve_expr_qname(self, m: Module, e: ast.expr) -> Optional[str]:
        """Qualified name for Name / dotted Attribute chains."""
        if isinstance(e, ast.Name):
            return self.resolve_name(m, e.id)
        if isinstance(e, ast.Attribute):
            base = self.resolve_expr_qname(m, e.value)
            if base is None:
                return None
            return self.resolve_qname(base + '.' + e.attr)
        return None

    # -------------------------------------------------------------- classes
    def _c3(self, qn: str, stack) -> List[str]:
        if qn in stack:
            return [qn]
        c = self.classes.get(qn)
        if c is None:
            out = [qn]
            for b in EXTERNAL_BASES.get(qn, []):
                for x in self._c3(b, stack + (qn,)):
                    if x not in out:
                        out.append(x)
            return out
        seqs = [self._c3(b, stack + (qn,)) for b in c.bases] + \
            [list(c.bases)]
        out = [qn]
        seqs = [list(s) for s in seqs if s]
        while seqs:
            for s in seqs:
                cand = s[0]
                if not any(cand in t[1:] for t in seqs):
                    break
            else:
                cand = seqs[0][0]   # inconsistent hierarchy: best effort
            out.append(cand)
            for s in seqs:
                if s and s[0] == cand:
                    del s[0]
            seqs = [s for s in seqs if s]
        return out

    def mro(self, qn: str) -> List[str]:
        c = self.classes.get(qn)
        if c is not None:
            return c.mro
        return self._c3(qn, ())

    def is_subclass(self, qn: str, base: str) -> bool:
        return base in self.mro(qn)

    def subclasses(self, qn: str) -> List[str]:
        """Strict repo subclasses (transitive)."""
        return list(self._subclasses.get(qn, []))

    def lookup_method(self, cls_qn: str, name: str,
                      after: Optional[str] = None) -> Optional[FuncInfo]:
        mro = self.mro(cls_qn)
        if after is not None and after in mro:
            mro = mro[mro.index(after) + 1:]
        for k in mro:
            c = self.classes.get(k)
            if c is not None and name in c.methods:
                return c.methods[name]
        return None

    def lookup_setter(self, cls_qn: str, name: str) -> Optional[FuncInfo]:
        for k in self.mro(cls_qn):
            c = self.classes.get(k)
            if c is not None and name in c.setters:
                return c.setters[name]
        return None

    def lookup_class_attr(self, cls_qn: str, name: str):
        for k in self.mro(cls_qn):
            c = self.classes.get(k)
            if c is not None and name in c.class_attrs:
                return c, c.class_attrs[name]
        return None, None

    def func(self, qname: str) -> FuncInfo:
        f = self.functions.get(qname)
        if f is None:
            raise AnalysisError('anchor vanished: function %s' % qname)
        return f

    def cls(self, qname: str) -> ClassInfo:
        c = self.classes.get(qname)
        if c is None:
            raise AnalysisError('anchor vanished: class %s' % qname)
        return c

    def find_class(self, name: str) -> List[ClassInfo]:
        return [c for c in self.classes.values() if c.name == name]
