#!/bin/sh
# usage: tools/round_setup.sh <seed|keep> <ROOT> [N1 N2 N3]
# Creates one scratch worktree of /repo per property under ROOT (outside /repo
# and /verif), with the property text, the mechanisms already tried (seed
# rounds) and the instructions for the sub-agent.  Nothing of /verif's checks
# is copied.  Remove afterwards with:
#   for p in ROOT/C*; do git -C /repo worktree remove --force $p; done
kind=$1; root=$2; n1=${3:-1}; n2=${4:-2}; n3=${5:-3}
mkdir -p $root
sed -e "s#@ROOT@#$root#g" -e "s#@N1@#$n1#g" -e "s#@N2@#$n2#g" -e "s#@N3@#$n3#g" \
    /verif/tools/agent_prompts/${kind}_INSTRUCTIONS.md > $root/INSTRUCTIONS.md
for i in 01 02 03 04 05 06 07 08 09 10 11 12 13 14 15 16 17 18 19 20; do
  p=C$i
  git -C /repo worktree add -q --detach $root/$p HEAD
  /venv/bin/python - "$p" "$root" "$kind" <<'PY'
import json, sys, os, glob
p, root, kind = sys.argv[1:4]
for l in open('/verif/properties.jsonl'):
    d = json.loads(l)
    if d['id'] == p:
        json.dump(d, open('%s/%s.property.json' % (root, p), 'w'), indent=1)
if kind == 'seed':
    out = ['# Mechanisms already used for %s (avoid these)\n' % p]
    for d in sorted(glob.glob('/verif/seeded/%s-*' % p.lower())):
        try:
            out.append('- ' + open(d + '/notes.md').readline().strip())
        except OSError:
            pass
    open('%s/%s.tried.md' % (root, p), 'w').write('\n'.join(out) + '\n')
PY
done
ls $root | head -50
