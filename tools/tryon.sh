#!/bin/sh
# usage: tools/tryon.sh <seeded|benign>/<name> <PROP> [grep-pattern]
# runs ./check PROP on a scratch copy of /repo/slimta with the patch applied
d=$(mktemp -d /tmp/try_XXXX); cp -r /repo/slimta $d/
(cd $d && patch -p1 -s -i /verif/$1/patch.diff) || { echo PATCH-FAILED; rm -rf $d; exit 3; }
/verif/check $2 --repo $d 2>&1 | grep -v conda | grep -v "^KNOWN" | grep -A${4:-6} "${3:-^VIOLATION\|^ANALYSIS\|^result}"
rm -rf $d
