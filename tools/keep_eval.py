#!/venv/bin/python
"""Run EVERY claimed check against every behaviour-preserving change under
/verif/benign: any exit code other than 0 is a false alarm (1) or a rule that
could not read the refactored code (2).

usage: [KEEP_PROPS=C07,C18] tools/keep_eval.py [name ...]
"""
import contextlib
import io
import json
import os
import shutil
import subprocess
import sys
import tempfile
from concurrent.futures import ProcessPoolExecutor

VERIF = os.path.dirname(os.path.dirname(os.path.abspath(__file__)))
sys.path.insert(0, VERIF)


def run_one(name):
    from sa.cli import run_check, CLAIMED
    d = os.path.join(VERIF, 'benign', name)
    meta = json.load(open(os.path.join(d, 'meta.json')))
    tmp = tempfile.mkdtemp(prefix='sa_keep_')
    try:
        shutil.copytree('/repo/slimta', os.path.join(tmp, 'slimta'))
        r = subprocess.run(['patch', '-p1', '-s', '-i',
                            os.path.join(d, 'patch.diff')], cwd=tmp,
                           capture_output=True, text=True)
        if r.returncode != 0:
            return name, meta['property'], 'PATCH-FAILED', {}
        out = {}
        only = os.environ.get('KEEP_PROPS')
        for p in (only.split(',') if only else CLAIMED):
            buf = io.StringIO()
            with contextlib.redirect_stdout(buf), \
                    contextlib.redirect_stderr(io.StringIO()):
                code = run_check(p, 'quick', tmp)
            if code != 0:
                lines = buf.getvalue().splitlines()
                what = []
                for i, line in enumerate(lines):
                    if line.startswith('VIOLATION ') and i + 2 < len(lines):
                        what.append(lines[i + 1].strip().split()[1] + ': ' +
                                    lines[i + 2].strip()[:90])
                    if line.startswith('ANALYSIS-ERROR'):
                        what.append('ERR: ' + line[15:120])
                out[p] = (code, what)
        return name, meta['property'], 'SILENT' if not out else 'ALARM', out
    finally:
        shutil.rmtree(tmp, ignore_errors=True)


def main():
    names = [a for a in sys.argv[1:] if not a.startswith('--')] or sorted(
        os.listdir(os.path.join(VERIF, 'benign')))
    names = [n for n in names if os.path.exists(
        os.path.join(VERIF, 'benign', n, 'meta.json'))]
    with ProcessPoolExecutor(max_workers=16) as ex:
        res = list(ex.map(run_one, names))
    bad = 0
    for name, prop, status, out in res:
        if status != 'SILENT':
            bad += 1
        print('%-12s %-10s %s' % (status, name, prop))
        for p, (code, what) in sorted(out.items()):
            for w in what[:6]:
                print('      %s exit %d  %s' % (p, code, w))
    print('benign changes: %d, silent %d, not silent %d' % (
        len(res), len(res) - bad, bad))


if __name__ == '__main__':
    main()
