#!/venv/bin/python
"""Run the checks against every seeded breaking change under /verif/seeded.

Each /verif/seeded/<name>/ holds patch.diff (against /repo HEAD), the
demonstration, and meta.json.  The patch is applied to a scratch copy of
/repo/slimta (never to /repo itself), the check of the property it breaks is
run with --repo <scratch>, and the outcome is printed:

  CAUGHT  <name>  <rules that fired>
  MISSED  <name>
  (plus, with --all-props, which other properties' checks fire)

usage: tools/seed_eval.py [--all-props] [name ...]
"""
import contextlib
import io
import json
import os
import shutil
import subprocess
import sys
import tempfile
from concurrent.futures import ProcessPoolExecutor

VERIF = os.path.dirname(os.path.dirname(os.path.abspath(__file__)))
sys.path.insert(0, VERIF)


def run_one(args):
    name, all_props = args
    from sa.cli import run_check, CLAIMED
    d = os.path.join(VERIF, 'seeded', name)
    meta = json.load(open(os.path.join(d, 'meta.json')))
    tmp = tempfile.mkdtemp(prefix='sa_seed_')
    try:
        shutil.copytree('/repo/slimta', os.path.join(tmp, 'slimta'))
        r = subprocess.run(['patch', '-p1', '-s', '-i',
                            os.path.join(d, 'patch.diff')], cwd=tmp,
                           capture_output=True, text=True)
        if r.returncode != 0:
            return name, meta['property'], 'PATCH-FAILED', r.stdout + r.stderr
        props = CLAIMED if all_props else [meta['property']]
        fired = {}
        for p in props:
            buf = io.StringIO()
            with contextlib.redirect_stdout(buf), \
                    contextlib.redirect_stderr(io.StringIO()):
                code = run_check(p, 'quick', tmp)
            lines = buf.getvalue().splitlines()
            rules = []
            for i, line in enumerate(lines):
                if line.startswith('VIOLATION ') and i + 1 < len(lines):
                    rules.append(lines[i + 1].strip().split()[1])
            if code == 2:
                rules.append('ANALYSIS-ERROR')
            if rules:
                fired[p] = sorted(set(rules))
        own = fired.get(meta['property'])
        status = 'CAUGHT' if own and own != ['ANALYSIS-ERROR'] else 'MISSED'
        return name, meta['property'], status, fired
    finally:
        shutil.rmtree(tmp, ignore_errors=True)


def main():
    args = [a for a in sys.argv[1:] if not a.startswith('--')]
    all_props = '--all-props' in sys.argv
    names = args or sorted(os.listdir(os.path.join(VERIF, 'seeded')))
    names = [n for n in names if os.path.exists(
        os.path.join(VERIF, 'seeded', n, 'meta.json'))]
    with ProcessPoolExecutor(max_workers=16) as ex:
        res = list(ex.map(run_one, [(n, all_props) for n in names]))
    missed = 0
    for name, prop, status, fired in res:
        if status != 'CAUGHT':
            missed += 1
        print('%-8s %-30s %s %s' % (status, name, prop, fired))
    print('seeded: %d, caught %d, not caught %d' % (
        len(res), len(res) - missed, missed))


if __name__ == '__main__':
    main()
