#!/venv/bin/python
"""Regenerate /verif/MANIFEST.json from sa/claims.py."""
import json
import os
import sys
sys.path.insert(0, os.path.dirname(os.path.dirname(os.path.abspath(__file__))))
from sa import claims

BASE = ('cd /repo && /venv/bin/python -m pytest -ra -q -p no:cacheprovider '
        '--timeout=900 --continue-on-collection-errors')
props = [json.loads(l)['id'] for l in open(os.path.join(
    os.path.dirname(__file__), '..', 'properties.jsonl'))]
checks = []
for pid in props:
    c = claims.CLAIMED.get(pid)
    if not c:
        continue
    checks.append({
        'property_id': pid,
        'quick_cmd': './check %s --tier quick' % pid,
        'thorough_cmd': './check %s --tier thorough' % pid,
        'evidence_file': '/verif/evidence/%s.json' % pid,
        'replay_cmd_template': './check %s --replay {path}' % pid,
        'engine': 'sa',
        'level_claimed': {'category': 'other', 'text': c['text'],
                          'design_ref': c['ref']},
        'level_note': c['note'],
        'technique': c['technique'],
    })
na = []
for pid in props:
    if pid in claims.CLAIMED:
        continue
    reason = claims.NOT_APPLICABLE.get(pid) or claims.PENDING.get(pid)
    na.append({'property_id': pid, 'reason': reason})
m = {
    'version': 1,
    'setup_cmd': '/venv/bin/python -m compileall -q sa',
    'hooks': {
        'guard': 'SLIMTA_VERIF',
        'enable': 'none needed: static analysis reads the source of /repo; '
                  'no instrumentation is compiled in',
        'baseline_off_cmd': BASE,
        'source_commits': [],
        'add_only': True,
    },
    'engines': [{
        'name': 'sa',
        'path': '/verif/sa',
        'serves_properties': [c['property_id'] for c in checks],
        'kind_free_text': 'pure-stdlib static analyser: ast program model, '
                          'call resolver, CFG with exception edges and '
                          'inlining, worklist dataflow (must-facts, events, '
                          'typestate), rule modules per property',
    }],
    'checks': checks,
    'not_applicable': na,
    'notes': 'Static analysis only (see DESIGN.md). Genuine defects found on '
             'the pinned tree were repaired by fix: commits in /repo or are '
             'listed in known_findings.json.',
}
with open(os.path.join(os.path.dirname(__file__), '..', 'MANIFEST.json'),
          'w') as f:
    json.dump(m, f, indent=1)
print('claimed:', [c['property_id'] for c in checks])
print('not applicable:', [x['property_id'] for x in na])
