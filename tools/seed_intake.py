#!/venv/bin/python
"""Verify and take in seeded changes produced by a sub-agent.

usage: tools/seed_intake.py [--root /tmp/seed2] [--offset 3] <PROP> ...

The scratch worktree is first moved to /repo's current HEAD, so that what is
kept is verified against the tree the checks run on; a patch that no longer
applies there is tried with a 3-way merge and otherwise reported for porting
by hand.

For each /tmp/seed/<PROP>/_seed/<i>/ (patch.diff, demo*.py, notes.md) this
re-verifies, in the scratch worktree /tmp/seed/<PROP>:
  1. the patch applies to the clean worktree,
  2. the full suite still has exactly the 449 baseline passes and no new
     failure with the patch applied,
  3. the demo exits 0 on the clean tree and non-zero with the patch.
Only then is it copied to /verif/seeded/<prop>-<i>/ with a meta.json.
"""
import glob
import json
import os
import re
import shutil
import subprocess
import sys

VERIF = os.path.dirname(os.path.dirname(os.path.abspath(__file__)))
PY = '/venv/bin/python'


def sh(cmd, cwd, timeout=900):
    r = subprocess.run(cmd, cwd=cwd, shell=True, capture_output=True,
                       text=True, timeout=timeout)
    return r.returncode, (r.stdout + r.stderr)


def suite(wt):
    rc, out = sh(PY + ' -m pytest -q -p no:cacheprovider --timeout=900 '
                 '--continue-on-collection-errors -x --co -q >/dev/null 2>&1;'
                 + PY + ' -m pytest -q -p no:cacheprovider --timeout=900 '
                 '--continue-on-collection-errors 2>&1 | tail -25', wt)
    m = re.search(r'(\d+) failed, (\d+) passed', out)
    failed = sorted(set(re.findall(r'^(?:FAILED|ERROR) (\S+)', out, re.M)))
    return (int(m.group(2)) if m else -1, int(m.group(1)) if m else -1,
            failed, out.strip().splitlines()[-1] if out.strip() else '')


def main():
    args = sys.argv[1:]
    root, offset = '/tmp/seed', 0
    while args and args[0].startswith('--'):
        if args[0] == '--root':
            root = args[1]
        elif args[0] == '--offset':
            offset = int(args[1])
        args = args[2:]
    head = sh('git rev-parse HEAD', '/repo')[1].strip()
    for prop in args:
        wt = root + '/' + prop
        sh('git checkout -q -- slimta test', wt)
        sh('git checkout -q --detach ' + head, wt)
        base_pass, base_fail, base_failed, _ = suite(wt)
        for d in sorted(glob.glob(wt + '/_seed/[0-9]*')):
            i = os.path.basename(d)
            name = '%s-%d' % (prop.lower(), int(i) + offset)
            patch = os.path.join(d, 'patch.diff')
            demos = sorted(glob.glob(os.path.join(d, 'demo*.py')))
            if not os.path.exists(patch) or not demos:
                print('SKIP   %s: missing patch.diff or demo' % name)
                continue
            demo = demos[0]
            sh('git checkout -q -- slimta test', wt)
            rc_clean, out_clean = sh('%s %s' % (PY, demo), wt, 120)
            rc, out = sh('git apply --check %s && git apply %s' % (patch,
                                                                   patch), wt)
            if rc != 0:
                rc, out = sh('git apply --3way %s && git reset -q' % patch,
                             wt)
                if rc == 0:
                    sh('git diff > %s' % patch, wt)
            if rc != 0:
                print('REJECT %s: patch does not apply: %s' % (name,
                                                               out[:200]))
                continue
            p, f, failed, tail = suite(wt)
            rc_patched, out_patched = sh('%s %s' % (PY, demo), wt, 120)
            files = sh('git diff --stat | cat', wt)[1]
            sh('git checkout -q -- slimta test', wt)
            ok = (p == base_pass and set(failed) <= set(base_failed) and
                  rc_clean == 0 and rc_patched != 0)
            if not ok:
                print('REJECT %s: suite %d passed (base %d) new failures %s; '
                      'demo clean rc=%d patched rc=%d' % (
                          name, p, base_pass,
                          sorted(set(failed) - set(base_failed)), rc_clean,
                          rc_patched))
                continue
            dst = os.path.join(VERIF, 'seeded', name)
            shutil.rmtree(dst, ignore_errors=True)
            os.makedirs(dst)
            shutil.copy(patch, os.path.join(dst, 'patch.diff'))
            for dm in demos:
                shutil.copy(dm, dst)
            notes = ''
            if os.path.exists(os.path.join(d, 'notes.md')):
                notes = open(os.path.join(d, 'notes.md')).read()
                shutil.copy(os.path.join(d, 'notes.md'), dst)
            touched = re.findall(r'^ (\S+)\s+\|', files, re.M)
            meta = {
                'property': prop,
                'base_commit': head,
                'origin': 'independent sub-agent given only the property '
                          'text and a scratch worktree (nothing from /verif)',
                'files_touched': touched,
                'summary': notes.strip().splitlines()[0][:300] if notes
                else '',
                'needs_to_manifest': 'see notes.md',
                'verified_here': {
                    'suite_with_patch': tail,
                    'baseline_passes_kept': p == base_pass,
                    'demo_on_clean_tree_rc': rc_clean,
                    'demo_with_patch_rc': rc_patched,
                    'commands': [
                        'cd %s && git apply _seed/%s/patch.diff'
                        % (wt, i),
                        PY + ' -m pytest -q -p no:cacheprovider '
                        '--timeout=900 --continue-on-collection-errors',
                        '%s _seed/%s/%s (clean and patched)' % (
                            PY, i, os.path.basename(demo))],
                },
            }
            with open(os.path.join(dst, 'meta.json'), 'w') as fh:
                json.dump(meta, fh, indent=1)
            print('KEPT   %s  (%s)' % (name, ', '.join(touched)))


if __name__ == '__main__':
    main()
