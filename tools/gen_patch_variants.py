#!/venv/bin/python
"""Index the patch corpora for the self-test / the thorough tier.

Writes selftest/patch_variants.json: one entry per seeded breaking change
that the check of its own property reports (expect = fire:<first rule that
fired when this index was made>) and one per behaviour-preserving change
under benign/ on which the check of its own property is silent (expect =
silent).  `./check --selftest` and the thorough tier replay them against the
CURRENT tree: a patch that no longer applies is STALE, not a pass.

usage: tools/gen_patch_variants.py
"""
import contextlib
import io
import json
import os
import shutil
import subprocess
import sys
import tempfile
from concurrent.futures import ProcessPoolExecutor

VERIF = os.path.dirname(os.path.dirname(os.path.abspath(__file__)))
sys.path.insert(0, VERIF)


def one(args):
    kind, name = args
    from sa.cli import run_check
    d = os.path.join(VERIF, kind, name)
    meta = json.load(open(os.path.join(d, 'meta.json')))
    prop = meta['property']
    tmp = tempfile.mkdtemp(prefix='sa_idx_')
    try:
        shutil.copytree('/repo/slimta', os.path.join(tmp, 'slimta'))
        r = subprocess.run(['patch', '-p1', '-s', '-i',
                            os.path.join(d, 'patch.diff')], cwd=tmp,
                           capture_output=True, text=True)
        if r.returncode != 0:
            return None
        buf = io.StringIO()
        with contextlib.redirect_stdout(buf), \
                contextlib.redirect_stderr(io.StringIO()):
            code = run_check(prop, 'quick', tmp)
        lines = buf.getvalue().splitlines()
        rules = []
        for i, line in enumerate(lines):
            if line.startswith('VIOLATION ') and i + 1 < len(lines):
                rules.append(lines[i + 1].strip().split()[1])
        if kind == 'seeded':
            if code != 1 or not rules:
                return None
            return {'id': 'seed-' + name, 'prop': prop,
                    'expect': 'fire:' + rules[0],
                    'patch': '%s/%s/patch.diff' % (kind, name)}
        if code != 0:
            return None
        return {'id': 'keep-' + name, 'prop': prop, 'expect': 'silent',
                'patch': '%s/%s/patch.diff' % (kind, name)}
    finally:
        shutil.rmtree(tmp, ignore_errors=True)


def main():
    jobs = []
    for kind in ('seeded', 'benign'):
        for name in sorted(os.listdir(os.path.join(VERIF, kind))):
            if os.path.exists(os.path.join(VERIF, kind, name, 'meta.json')):
                jobs.append((kind, name))
    with ProcessPoolExecutor(max_workers=16) as ex:
        out = [r for r in ex.map(one, jobs) if r]
    out.sort(key=lambda r: r['id'])
    path = os.path.join(VERIF, 'selftest', 'patch_variants.json')
    with open(path, 'w') as f:
        json.dump(out, f, indent=1)
        f.write('\n')
    print('%d patch variants (%d must-fire, %d silent) of %d candidates' % (
        len(out), sum(1 for r in out if r['expect'] != 'silent'),
        sum(1 for r in out if r['expect'] == 'silent'), len(jobs)))


if __name__ == '__main__':
    main()
