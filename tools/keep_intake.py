#!/venv/bin/python
"""Verify and take in behaviour-preserving changes produced by a sub-agent.

usage: tools/keep_intake.py [--root /tmp/keep3] <PROP> ...

For each <root>/<PROP>/_keep/<i>/ (patch.diff, demo.py, notes.md): the scratch
worktree is moved to /repo's HEAD, the patch applied (3-way if needed), and it
is kept under /verif/benign/<prop>-k<i>/ only if the suite keeps its baseline
and the demo passes on the clean AND on the patched tree.
"""
import glob
import json
import os
import re
import shutil
import subprocess
import sys

VERIF = os.path.dirname(os.path.dirname(os.path.abspath(__file__)))
PY = '/venv/bin/python'


def sh(cmd, cwd, timeout=900):
    r = subprocess.run(cmd, cwd=cwd, shell=True, capture_output=True,
                       text=True, timeout=timeout)
    return r.returncode, (r.stdout + r.stderr)


def suite(wt):
    rc, out = sh(PY + ' -m pytest -q -p no:cacheprovider --timeout=900 '
                 '--continue-on-collection-errors -rfE 2>&1 | tail -40', wt)
    m = re.search(r'(\d+) failed, (\d+) passed', out)
    failed = sorted(set(re.findall(r'^(?:FAILED|ERROR) (\S+)', out, re.M)))
    return (int(m.group(2)) if m else -1, failed,
            out.strip().splitlines()[-1] if out.strip() else '')


def main():
    args = sys.argv[1:]
    root = '/tmp/keep3'
    while args and args[0].startswith('--'):
        if args[0] == '--root':
            root = args[1]
        args = args[2:]
    head = sh('git rev-parse HEAD', '/repo')[1].strip()
    for prop in args:
        wt = root + '/' + prop
        sh('git checkout -q -- slimta test', wt)
        sh('git checkout -q --detach ' + head, wt)
        base_pass, base_failed, _ = suite(wt)
        for d in sorted(glob.glob(wt + '/_keep/[0-9]*')):
            i = os.path.basename(d)
            name = '%s-k%s' % (prop.lower(), i)
            patch = os.path.join(d, 'patch.diff')
            demo = os.path.join(d, 'demo.py')
            if not os.path.exists(patch) or not os.path.exists(demo):
                print('SKIP   %s: missing patch.diff or demo.py' % name)
                continue
            sh('git checkout -q -- slimta test', wt)
            rc_clean, out_clean = sh('%s %s' % (PY, demo), wt, 180)
            rc, out = sh('git apply --check %s && git apply %s'
                         % (patch, patch), wt)
            ported = False
            if rc != 0:
                rc, out = sh('git apply --3way %s' % patch, wt)
                if rc == 0:
                    sh('git reset -q', wt)
                    sh('git diff > %s' % patch, wt)
                    ported = True
                else:
                    sh('git reset -q --hard', wt)
            if rc != 0:
                print('REJECT %s: patch does not apply at HEAD: %s'
                      % (name, out.strip()[:160]))
                continue
            p, failed, tail = suite(wt)
            rc_patched, out_patched = sh('%s %s' % (PY, demo), wt, 180)
            files = sh('git diff --stat | cat', wt)[1]
            sh('git checkout -q -- slimta test', wt)
            ok = (p == base_pass and set(failed) <= set(base_failed) and
                  rc_clean == 0 and rc_patched == 0)
            if not ok:
                print('REJECT %s: suite %d passed (base %d) new failures %s; '
                      'demo clean rc=%d patched rc=%d' % (
                          name, p, base_pass,
                          sorted(set(failed) - set(base_failed)), rc_clean,
                          rc_patched))
                continue
            dst = os.path.join(VERIF, 'benign', name)
            shutil.rmtree(dst, ignore_errors=True)
            os.makedirs(dst)
            shutil.copy(patch, os.path.join(dst, 'patch.diff'))
            shutil.copy(demo, dst)
            notes = ''
            if os.path.exists(os.path.join(d, 'notes.md')):
                notes = open(os.path.join(d, 'notes.md')).read()
                shutil.copy(os.path.join(d, 'notes.md'), dst)
            touched = re.findall(r'^ (\S+)\s+\|', files, re.M)
            meta = {
                'property': prop, 'kind': 'behaviour-preserving',
                'base_commit': head, 'ported_3way': ported,
                'origin': 'independent sub-agent given only the property '
                          'text and a scratch worktree (nothing from /verif)',
                'files_touched': touched,
                'summary': notes.strip().splitlines()[0][:300] if notes
                else '',
                'verified_here': {'suite_with_patch': tail,
                                  'baseline_passes_kept': p == base_pass,
                                  'demo_on_clean_tree_rc': rc_clean,
                                  'demo_with_patch_rc': rc_patched},
            }
            with open(os.path.join(dst, 'meta.json'), 'w') as fh:
                json.dump(meta, fh, indent=1)
            print('KEPT   %s  (%s)%s' % (name, ', '.join(touched),
                                         ' [3-way]' if ported else ''))


if __name__ == '__main__':
    main()
