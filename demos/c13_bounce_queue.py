"""Demonstration of the C13 defect found by rule B4: a configured bounce queue
that is not running (not started yet, or a relay-less queue whose greenlet
has ended) is silently replaced by the main queue, because the constructor
defaults it with `bounce_queue or self` and a Queue (a gevent Greenlet) is
falsy unless it is currently running."""
import sys
import gevent
sys.path.insert(0, '/repo')
from slimta.queue import Queue
from slimta.queue.dict import DictStorage
from slimta.relay import Relay, PermanentRelayError
from slimta.envelope import Envelope


class Reject(Relay):
    def attempt(self, envelope, attempts):
        raise PermanentRelayError('no such user')


bounce_store = DictStorage()
bq = Queue(bounce_store)              # stores bounces, no relay of its own
main_store = DictStorage()
q = Queue(main_store, Reject(), bounce_queue=bq)
bq.start()
q.start()
gevent.sleep(0.05)
env = Envelope('sender@x', ['r@y'])
env.parse(b'Subject: t\r\n\r\nb\r\n')
q.enqueue(env)
gevent.sleep(0.3)
print('bounces in the configured bounce queue: %d, in the main store: %d -> %s'
      % (len(bounce_store.env_db), len(main_store.env_db),
         'OK' if len(bounce_store.env_db) == 1 else
         'configured bounce queue IGNORED'))
