"""D28: a reply whose code is outside 1yz-5yz makes a relay attempt raise
ValueError instead of a relay error.

IO.recv_reply accepted any three digits as a reply code; Reply.code then
rejected '650' with ValueError, which SmtpRelayClient._run hands to the caller
unchanged: Relay.attempt raises "another exception type" for a malformed
downstream reply.

usage: c11_bad_code.py [repo]      exit 0 = attempt ends with a RelayError
"""
import sys
sys.path.insert(0, sys.argv[1] if len(sys.argv) > 1 else '/repo')
import gevent
from gevent.server import StreamServer
from slimta.relay.smtp.static import StaticSmtpRelay
from slimta.relay import RelayError
from slimta.envelope import Envelope


def serve(sock, addr):
    f = sock.makefile('rwb', 0)
    f.write(b'220 hi\r\n')
    while True:
        line = f.readline()
        if not line:
            return
        cmd = line[:4].upper()
        if cmd == b'EHLO':
            f.write(b'250 hello\r\n')
        elif cmd == b'MAIL':
            f.write(b'650 weird\r\n')
        elif cmd == b'QUIT':
            f.write(b'221 bye\r\n')
            return
        elif cmd == b'DATA':
            f.write(b'354 go\r\n')
        else:
            f.write(b'250 ok\r\n')


srv = StreamServer(('127.0.0.1', 0), serve)
srv.start()
relay = StaticSmtpRelay('127.0.0.1', srv.server_port, connect_timeout=1,
                        command_timeout=1, data_timeout=1)
env = Envelope('s@x.test', ['r@y.test'])
env.parse(b'Subject: x\r\n\r\nbody\r\n')
ok = False
try:
    print('result', relay.attempt(env, 0))
except RelayError as e:
    print('RelayError:', type(e).__name__)
    ok = True
except BaseException as e:
    print('other exception type:', type(e).__name__, e)
print('PASS' if ok else 'FAIL')
sys.exit(0 if ok else 1)
