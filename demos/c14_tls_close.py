"""D26: IO.close() waits for the peer's TLS close_notify without any limit.

A TLS client completes a session (or just stalls until it is timed out) and
then neither answers the server's close_notify nor closes the TCP connection.
SmtpEdge.handle ends with io.close() -> SSLSocket.unwrap(), which waits for
the peer's close_notify with the socket's timeout (none): the session greenlet
never ends although the command timeout is 0.3 s.  Same for the relay client's
_disconnect().

usage: c14_tls_close.py [repo]    exit 0 = session ends in bounded time
"""
import os
import subprocess
import sys
import tempfile
sys.path.insert(0, sys.argv[1] if len(sys.argv) > 1 else '/repo')
import gevent
from gevent import socket, ssl
from gevent.server import StreamServer
from slimta.edge.smtp import SmtpEdge

tmp = tempfile.mkdtemp()
key, crt = os.path.join(tmp, 'k.pem'), os.path.join(tmp, 'c.pem')
subprocess.check_call(
    ['openssl', 'req', '-x509', '-newkey', 'rsa:2048', '-nodes', '-keyout',
     key, '-out', crt, '-days', '1', '-subj', '/CN=localhost'],
    stdout=subprocess.DEVNULL, stderr=subprocess.DEVNULL)
ctx = ssl.SSLContext(ssl.PROTOCOL_TLS_SERVER)
ctx.load_cert_chain(crt, key)


class FakeQueue(object):
    def enqueue(self, env):
        return [(env, 'id')]


edge = SmtpEdge(('127.0.0.1', 0), FakeQueue(), context=ctx,
                tls_immediately=True, command_timeout=0.3)
done = []
orig = edge.handle


def handle(sock, addr):
    try:
        orig(sock, addr)
    finally:
        done.append(1)


edge.server = StreamServer(('127.0.0.1', 0), handle)
edge.server.start()
port = edge.server.server_port

cctx = ssl.SSLContext(ssl.PROTOCOL_TLS_CLIENT)
cctx.check_hostname = False
cctx.verify_mode = ssl.CERT_NONE
raw = socket.create_connection(('127.0.0.1', port))
c = cctx.wrap_socket(raw)
banner = c.recv(1000)
c.sendall(b'QUIT\r\n')
bye = c.recv(1000)
print('client got', banner[:3], bye[:3])
# keep the TCP connection open, never send close_notify
gevent.sleep(2.0)
ok = bool(done)
print('server session ended within 2 s of QUIT:', ok)
print('PASS' if ok else 'FAIL: io.close() is still waiting for the peer')
sys.exit(0 if ok else 1)
