"""Demonstrations against the real Server of the C05/C09 defects found by
rules G4 (EOD == 0 treated as "not seen": an empty message breaks the hand-
over to the command parser) and G5 (MessageTooBig aborts mid-message and the
rest of the body is executed as commands)."""
import sys
import gevent
from gevent import socket
sys.path.insert(0, '/repo')
from slimta.smtp.server import Server
from slimta.smtp import MessageTooBig


class H(object):
    def __init__(self):
        self.trace = []

    def HAVE_DATA(self, reply, data, err):
        self.trace.append(('HAVE_DATA', data, type(err).__name__))
        if isinstance(err, MessageTooBig):
            reply.code = '552'
            reply.message = '5.3.4 Message exceeded size limit'

    def RSET(self, reply):
        self.trace.append(('RSET',))

    def NOOP(self, reply):
        self.trace.append(('NOOP',))


def run(stream, max_size=None, wait=1.0, chunks=None):
    a, b = socket.socketpair()
    h = H()
    srv = Server(a, h)
    if max_size:
        srv.extensions.add('SIZE', max_size)
    g = gevent.spawn(srv.handle)
    for c in (chunks or [stream]):
        b.sendall(c)
        gevent.sleep(0.1)
    gevent.sleep(wait)
    alive = not g.ready()
    g.kill()
    b.settimeout(0.1)
    out = b''
    try:
        while True:
            d = b.recv(65536)
            if not d:
                break
            out += d
    except Exception:
        pass
    return h.trace, out, alive


PRE = b'EHLO x\r\nMAIL FROM:<a@b>\r\nRCPT TO:<c@d>\r\nDATA\r\n'

if __name__ == '__main__':
    # empty message, then a pipelined NOOP and QUIT in the same burst
    # an empty message followed, in the same burst, by a second transaction
    second = b'MAIL FROM:<a@b>\r\nRCPT TO:<c@d>\r\nDATA\r\nhello\r\n.\r\nQUIT\r\n'
    trace, out, alive = run(PRE + b'.\r\n' + second)
    print('G4 empty message + pipelined second message: HAVE_DATA contents',
          [t[1] for t in trace if t[0] == 'HAVE_DATA'])
    print("   expected [b'', b'hello\\r\\n']")
    trace, out, alive = run(None, max_size=100, chunks=[
        PRE, b'X' * 200 + b'\r\n', b'RSET\r\nNOOP\r\n',
        b'Y' * 50 + b'\r\n.\r\n', b'QUIT\r\n'])
    print('G5 oversized body whose later part looks like commands: '
          'callbacks', [t[0] for t in trace])
    print('   expected only HAVE_DATA (content is never executed)')
