"""Demonstration of the C12 defect found by rule Q7: with a bounded store pool
`pool.spawn` blocks inside the scan loop of Queue._check_ready (and of
flush()); an entry inserted by _add_queued meanwhile shifts the list under the
iteration, and the final slice drops it from the timetable without a dispatch:
the message stays stored but is never attempted again."""
import sys
import gevent
sys.path.insert(0, '/repo')
from slimta.queue import Queue
from slimta.queue.dict import DictStorage
from slimta.relay import Relay, TransientRelayError
from slimta.envelope import Envelope


class SlowGet(DictStorage):
    def __init__(self):
        super(SlowGet, self).__init__()
        self.fetched = []

    def get(self, id):
        self.fetched.append(id)
        gevent.sleep(0.05)
        return super(SlowGet, self).get(id)


class Later(Relay):
    def attempt(self, envelope, attempts):
        raise TransientRelayError('later')


def env():
    e = Envelope('s@x', ['r@y'])
    e.parse(b'Subject: t\r\n\r\nb\r\n')
    return e


for name in ('_check_ready', 'flush'):
    store = SlowGet()
    q = Queue(store, Later(), backoff=lambda e, a: 3600, store_pool=1)
    ids = [store.write(env(), 0) for _ in range(4)]
    for i in ids[:3]:
        q._add_queued((1.0, i))
    late = ids[3]
    if name == '_check_ready':
        g = gevent.spawn(q._check_ready, 100.0)
    else:
        g = gevent.spawn(q.flush)
    gevent.sleep(0.01)           # the scan is now blocked in pool.spawn
    q._add_queued((0.5, late))   # a due message is announced meanwhile
    g.join()
    q.store_pool.join()
    gevent.sleep(0.3)
    scheduled = late in [i for _, i in q.queued]
    print('%-12s late message: fetched=%s scheduled=%s in_flight=%s -> %s' % (
        name, late in store.fetched, scheduled, late in q.active_ids,
        'FORGOTTEN' if not (late in store.fetched or scheduled)
        else 'ok'))
