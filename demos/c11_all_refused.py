"""C11 / N14: every recipient refused at RCPT, with different classes.

A scripted next hop answers RCPT a -> 550 (permanent), RCPT b -> 450
(transient) and DATA -> 554.  The real StaticSmtpRelay / SmtpRelayClient
deliver to it.  Expected by C11: a is reported permanent, b transient.
Observed on the tree: one PermanentRelayError for the envelope (made from the
FIRST recipient's reply), so the queue bounces b as well; with the recipients
the other way round one TransientRelayError, so a's 5xx is retried.

exit 0 = each recipient keeps its own class, exit 1 = defect shown.
"""
import sys
sys.path.insert(0, sys.argv[1] if len(sys.argv) > 1 else '/repo')

import gevent
from gevent.server import StreamServer

from slimta.envelope import Envelope
from slimta.relay import PermanentRelayError, TransientRelayError
from slimta.relay.smtp.static import StaticSmtpRelay

VERDICT = {b'a@example.com': b'550 5.1.1 no such user\r\n',
           b'b@example.com': b'450 4.2.0 mailbox busy\r\n'}


def serve(sock, addr):
    f = sock.makefile('rwb')
    f.write(b'220 fake ESMTP\r\n')
    f.flush()
    while True:
        line = f.readline()
        if not line:
            return
        verb = line[:4].upper()
        if verb == b'EHLO':
            f.write(b'250-fake\r\n250 PIPELINING\r\n')
        elif verb == b'MAIL':
            f.write(b'250 2.1.0 Ok\r\n')
        elif verb == b'RCPT':
            rcpt = line[line.index(b'<') + 1:line.index(b'>')]
            f.write(VERDICT[rcpt])
        elif verb == b'DATA':
            f.write(b'554 5.5.1 no valid recipients\r\n')
        elif verb == b'RSET':
            f.write(b'250 Ok\r\n')
        elif verb == b'QUIT':
            f.write(b'221 Bye\r\n')
            f.flush()
            return
        else:
            f.write(b'500 what\r\n')
        f.flush()


def classes(result, rcpts):
    """per-recipient class the way Queue._attempt reads the outcome"""
    if isinstance(result, PermanentRelayError):
        return {r: 'permanent' for r in rcpts}
    if isinstance(result, TransientRelayError):
        return {r: 'transient' for r in rcpts}
    out = {}
    for r in rcpts:
        v = result.get(r) if isinstance(result, dict) else result
        out[r] = 'permanent' if isinstance(v, PermanentRelayError) else (
            'transient' if isinstance(v, TransientRelayError) else
            'delivered')
    return out


def main():
    server = StreamServer(('127.0.0.1', 0), serve)
    server.start()
    relay = StaticSmtpRelay('127.0.0.1', server.server_port,
                            ehlo_as='demo.example.com', connect_timeout=5.0,
                            command_timeout=5.0, data_timeout=5.0)
    want = {'a@example.com': 'permanent', 'b@example.com': 'transient'}
    bad = 0
    for rcpts in (['a@example.com', 'b@example.com'],
                  ['b@example.com', 'a@example.com']):
        env = Envelope('sender@example.com', rcpts)
        env.parse(b'From: sender@example.com\r\n\r\nhello\r\n')
        try:
            with gevent.Timeout(10.0):
                res = relay.attempt(env, 0)
        except (PermanentRelayError, TransientRelayError) as exc:
            res = exc
        got = classes(res, rcpts)
        ok = all(got[r] == want[r] for r in rcpts)
        print('recipients %s -> %s%s' % (rcpts, got, '' if ok else
                                         '   <-- not each its own class'))
        bad += not ok
    server.stop()
    print('FAIL' if bad else 'PASS')
    return 1 if bad else 0


if __name__ == '__main__':
    sys.exit(main())
