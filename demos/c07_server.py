"""Demonstrations against the real Server of the C07/C08 defects found by
rules R7.6 (bare MAIL / RCPT / AUTH end the session with an unhandled-error
421) and R7.4 (a 421 final reply to DATA content does not end the session).
Prints one line per case; exit 0 always (informational)."""
import sys
import gevent
from gevent import socket
sys.path.insert(0, '/repo')
from slimta.smtp.server import Server


def session(handlers, script, auth=False):
    a, b = socket.socketpair()
    srv = Server(a, handlers, auth=auth)
    out = {}

    def run():
        try:
            srv.handle()
            out['end'] = 'returned'
        except BaseException as e:
            out['end'] = 'raised %s' % type(e).__name__
        finally:
            a.close()
    g = gevent.spawn(run)
    f = b.makefile('rwb', 0)
    replies = [f.readline()]
    for line in script:
        try:
            b.sendall(line)
        except OSError:
            replies.append(b'--- connection closed by server')
            break
        while True:
            r = f.readline()
            if not r:
                break
            replies.append(r)
            if r[3:4] != b'-':
                break
        if not r:
            break
    g.join(1)
    return replies, out.get('end', 'still running')


class H(object):
    pass


class H421(object):
    def HAVE_DATA(self, reply, data, err):
        reply.code = '421'
        reply.message = '4.3.0 going down'


if __name__ == '__main__':
    for verb in (b'MAIL', b'RCPT', b'AUTH'):
        replies, end = session(H(), [b'EHLO x\r\n', verb + b'\r\n',
                                     b'NOOP\r\n'], auth=True)
        print('bare %s -> %r, then NOOP -> %r; session %s' % (
            verb.decode(), replies[-2][:3] if len(replies) > 2 else None,
            replies[-1][:3], end))
    replies, end = session(H421(), [b'EHLO x\r\n', b'MAIL FROM:<a@b>\r\n',
                                    b'RCPT TO:<c@d>\r\n', b'DATA\r\n',
                                    b'x\r\n.\r\n', b'NOOP\r\n'])
    print('421 after content -> %r, then NOOP -> %r; session %s' % (
        replies[-2][:3], replies[-1][:3], end))
