"""Demonstration of the C18 defect found by rule V2: a PROXY v1 header whose
address contains a NUL byte makes socket.inet_pton raise ValueError, which is
not among the handled classes - it escapes ProxyProtocolV1.parse_pp_line
instead of yielding the 'invalid' source address."""
import sys
sys.path.insert(0, '/repo')
from slimta.util.proxyproto import ProxyProtocolV1

line = b'PROXY TCP4 1.2.3.4\x00 5.6.7.8 1 2\r\n'
try:
    print('parsed:', ProxyProtocolV1.parse_pp_line(line))
except AssertionError as exc:
    print('AssertionError (handled => invalid source address):', exc)
except Exception as exc:
    print('ESCAPES as %s: %s' % (type(exc).__name__, exc))
