"""DictStorage on shelve (documented substrate): delivered marks are lost.

Shelf.__getitem__ hands out a fresh unpickled copy on every access
(writeback=False, the default).  DictStorage.set_recipients_delivered removed
the settled recipients from such a copy and never stored it back, so the next
get() returned all recipients again: a recipient that was already delivered is
attempted - and delivered - a second time.

exit 0 = marks persisted (fixed), exit 1 = marks lost (defect).
"""
import os
import shelve
import shutil
import sys
import tempfile

sys.path.insert(0, os.environ.get('SLIMTA_REPO', '/repo'))
from slimta.envelope import Envelope          # noqa: E402
from slimta.queue.dict import DictStorage     # noqa: E402

d = tempfile.mkdtemp(prefix='c03shelve_')
try:
    env_db = shelve.open(os.path.join(d, 'env'))
    meta_db = shelve.open(os.path.join(d, 'meta'))
    st = DictStorage(env_db, meta_db)
    env = Envelope('s@example.com', ['a@example.com', 'b@example.com',
                                     'c@example.com'])
    env.parse(b'Subject: x\r\n\r\nbody\r\n')
    id = st.write(env, 1234.0)
    st.set_recipients_delivered(id, [0])       # a@ was delivered
    got, attempts = st.get(id)
    print('recipients after marking index 0 delivered:', got.recipients)
    ok = got.recipients == ['b@example.com', 'c@example.com']
    print('PASS' if ok else 'FAIL: the delivered recipient is still stored '
          'and will be attempted again')
    env_db.close()
    meta_db.close()
    rc = 0 if ok else 1
finally:
    shutil.rmtree(d, ignore_errors=True)
sys.exit(rc)
