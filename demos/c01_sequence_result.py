"""Demonstration of the C01 defect found by rule R1.10: importing
slimta.queue.dict rebinds the name `dict` inside the slimta.queue package, so
the Sequence arm of Queue._attempt (`dict(zip(...))`) raises TypeError: the
attempt dies without a disposition and the message stays in flight forever."""
import sys
import gevent
sys.path.insert(0, '/repo')
from slimta.queue import Queue
from slimta.queue.dict import DictStorage
from slimta.relay import Relay, TransientRelayError
from slimta.envelope import Envelope


class SeqRelay(Relay):
    def attempt(self, envelope, attempts):
        return [None, TransientRelayError('later')]


store = DictStorage()
q = Queue(store, SeqRelay(), backoff=lambda e, a: 60)
env = Envelope('s@x', ['a@x', 'b@x'])
env.parse(b'Subject: t\r\n\r\nb\r\n')
q.enqueue(env)
gevent.sleep(0.3)
print('stored=%d scheduled=%d in_flight=%d -> %s' % (
    len(store.env_db), len(q.queued), len(q.active_ids),
    'STUCK IN FLIGHT' if q.active_ids and not q.queued else 'scheduled for retry'))
