"""D25: bounded store/relay pools deadlock (pool-order cycle).

Scenario 1 (store -> store): store_pool=1, the backoff grants no retry.
  _retry_later runs in the store pool and, to remove the message, asks the
  same pool for a second slot: it waits for itself.  The message stays
  stored and "active" for ever, and every later enqueue hangs.
Scenario 2 (store -> relay -> store): store_pool=1, relay_pool=1, three
  messages due at once.  A _dequeue holding the store slot waits for the
  relay slot while the finishing _attempt holding the relay slot waits for
  the store slot.

usage: c12_pool_order.py [repo]     exit 0 = no deadlock
"""
import sys
sys.path.insert(0, sys.argv[1] if len(sys.argv) > 1 else '/repo')
import gevent
from slimta.queue import Queue
from slimta.queue.dict import DictStorage
from slimta.relay import Relay, TransientRelayError
from slimta.envelope import Envelope
from slimta.smtp.reply import Reply


class Failing(Relay):
    def attempt(self, env, attempts):
        gevent.sleep(0)
        raise TransientRelayError('nope', Reply('450', '4.0.0 nope'))


class Accepting(Relay):
    def __init__(self):
        super(Accepting, self).__init__()
        self.seen = []

    def attempt(self, env, attempts):
        gevent.sleep(0.01)
        self.seen.append(env.recipients[0])


def mk(rcpt='r@y.test'):
    e = Envelope('s@x.test', [rcpt])
    e.parse(b'Subject: x\r\n\r\nbody\r\n')
    return e


ok = True
store = DictStorage()
q = Queue(store, Failing(), backoff=lambda env, n: None, store_pool=1)
q.start()
q.enqueue(mk())
gevent.sleep(0.3)
print('scenario 1: stored =', len(store.env_db), 'active =', len(q.active_ids))
if store.env_db or q.active_ids:
    print('  message stuck: neither bounced nor removed')
    ok = False
done = False
with gevent.Timeout(1, False):
    q.enqueue(mk())
    done = True
if not done:
    print('  a later enqueue hangs: the store pool is wedged')
    ok = False
q.kill()

store = DictStorage()
relay = Accepting()
for i in range(3):
    store.write(mk('r%d@y.test' % i), 0)
q = Queue(store, relay, store_pool=1, relay_pool=1)
q.start()
gevent.sleep(1.0)
print('scenario 2: delivered =', sorted(relay.seen), 'still stored =',
      len(store.env_db))
if len(relay.seen) != 3 or store.env_db:
    print('  pools wait for each other: stored messages never attempted')
    ok = False
q.kill()
print('PASS' if ok else 'FAIL')
sys.exit(0 if ok else 1)
