"""Demonstrations of the C02 defects found by rules R2.1 (edge reply computed
from results[0] only) and R2.4 (ProxyQueue ignores per-recipient relay
failures): real SmtpSession / WsgiEdge / Queue / ProxyQueue objects."""
import sys
sys.path.insert(0, '/repo')
from slimta.edge.smtp import SmtpSession
from slimta.queue import Queue, QueueError, QueueStorage
from slimta.queue.dict import DictStorage
from slimta.queue.proxy import ProxyQueue
from slimta.policy.split import RecipientSplit
from slimta.edge import Edge
from slimta.envelope import Envelope
from slimta.smtp.reply import Reply
from slimta.relay import Relay, PermanentRelayError


class FailSecondWrite(DictStorage):
    def __init__(self):
        super(FailSecondWrite, self).__init__()
        self.n = 0

    def write(self, envelope, timestamp):
        self.n += 1
        if self.n == 2:
            raise QueueError('disk full')
        return super(FailSecondWrite, self).write(envelope, timestamp)


class RejectSecondRcpt(Relay):
    def attempt(self, envelope, attempts):
        out = dict.fromkeys(envelope.recipients)
        out[envelope.recipients[1]] = PermanentRelayError(
            'no such user', Reply('550', '5.1.1 no such user'))
        return out


def have_data(queue):
    edge = Edge(queue, 'test.example')
    s = SmtpSession(('127.0.0.1', 0), None, edge.handoff)
    s.envelope = Envelope('s@x', ['a@x', 'b@x'])
    reply = Reply('250', '2.6.0 Message accepted for delivery')
    s.HAVE_DATA(reply, b'Subject: t\r\n\r\nbody\r\n', None)
    return reply


if __name__ == '__main__':
    store = FailSecondWrite()
    q = Queue(store)
    q.add_policy(RecipientSplit())
    r = have_data(q)
    print('R2.1 split into 2 envelopes, 2nd write fails: client gets %s; '
          'messages stored: %d of 2' % (r.code, len(store.env_db)))
    r = have_data(ProxyQueue(RejectSecondRcpt()))
    print('R2.4 proxy queue, relay rejected 1 of 2 recipients: client gets',
          r.code)
