"""C12 / C01: with a bounded store pool of one slot and a backend that
implements wait(), the listener greenlet (_wait_store) occupies the only slot
for ever: no stored message is ever dequeued, no new message can be written.

Real Queue; the storage is an in-memory backend whose wait() blocks like
redis' BLPOP (returns an empty batch now and then).

exit 0 = the due message is attempted; exit 1 = it never is.
"""
import sys
import time
sys.path.insert(0, sys.argv[1] if len(sys.argv) > 1 else '/repo')

import gevent
from slimta.queue import Queue, QueueStorage
from slimta.relay import Relay
from slimta.envelope import Envelope


class Store(QueueStorage):
    def __init__(self):
        super(Store, self).__init__()
        env = Envelope('a@example.com', ['b@example.com'])
        env.parse(b'Subject: x\r\n\r\nbody\r\n')
        self.db = {'m1': (env, 0.0, 0)}

    def write(self, envelope, timestamp):
        self.db['m2'] = (envelope, timestamp, 0)
        return 'm2'

    def set_timestamp(self, id, t):
        e, _, a = self.db[id]
        self.db[id] = (e, t, a)

    def increment_attempts(self, id):
        e, t, a = self.db[id]
        self.db[id] = (e, t, a + 1)
        return a + 1

    def set_recipients_delivered(self, id, idx):
        pass

    def load(self):
        return [(t, i) for i, (e, t, a) in self.db.items()]

    def get(self, id):
        e, t, a = self.db[id]
        return e, a

    def remove(self, id):
        self.db.pop(id, None)

    def wait(self):
        gevent.sleep(0.05)          # blocks like BLPOP, nothing announced
        return []


class Rec(Relay):
    def __init__(self):
        super(Rec, self).__init__()
        self.got = []

    def attempt(self, envelope, attempts):
        self.got.append(list(envelope.recipients))


relay = Rec()
q = Queue(Store(), relay, store_pool=1)
q.start()
gevent.sleep(1.0)
print('attempts seen after 1 s:', relay.got)
if relay.got:
    print('PASS')
    sys.exit(0)
print('FAIL: the message due at start-up was never attempted '
      '(the wait() listener holds the only store slot)')
sys.exit(1)
